# prototype: loop cut by invariant on the REAL _pack_array (AST-transformed), modular call to pack()
from eng import *
import eng, ast, z3, textwrap, time
import supp.umsgpack as m
src=open(m.__file__).read(); tree=ast.parse(src)
fn=[n for n in tree.body if isinstance(n,ast.FunctionDef) and n.name=='_pack_array'][0]
loops=[n for n in ast.walk(fn) if isinstance(n,ast.For)]
assert len(loops)==1
loop=loops[0]
# mechanical rewrite:  for e in obj: BODY   ==>   __loop__(0, obj, lambda e: BODY-as-function)   (prototype: body is a single expr stmt)
class RW(ast.NodeTransformer):
    def visit_For(self,node):
        body_fn=ast.FunctionDef(name='__body0',args=ast.arguments(posonlyargs=[],args=[ast.arg(node.target.id)],kwonlyargs=[],kw_defaults=[],defaults=[]),body=node.body,decorator_list=[],type_params=[] if sys.version_info>=(3,12) else None)
        call=ast.Expr(ast.Call(ast.Name('__loop__',ast.Load()),[ast.Constant(0),node.iter,ast.Name('__body0',ast.Load())],[]))
        return [body_fn,call]
fn2=ast.fix_missing_locations(RW().visit(fn))
print(ast.unparse(fn2))
LenE=z3.Function('lenE',z3.IntSort(),z3.IntSort())   # not used
encE=z3.Function('encE',z3.IntSort(),SeqB)           # enc(elem k): abstract (induction hypothesis on elements)
FLAT=z3.Function('flat',z3.IntSort(),SeqB)           # flat(k) = concat enc(elem j), j<k
class SListP:
    def __init__(s,n): s.n=n
class Elem:
    def __init__(s,k): s.k=k
def slen(x):
    if isinstance(x,SListP): return SInt(x.n)
    return len(x)
OBL=[]
def prove(name, claim):
    s=z3.Solver(); s.add(*eng.CUR.pc); s.add(z3.Not(claim)); r=s.check()
    OBL.append((name,r)); 
def pack_contract(e, fp):      # modular call: pack(e, fp) writes enc(e)
    assert isinstance(e,Elem)
    fp.t=z3.Concat(fp.t, encE(e.k))
def make_loop(fp_getter):
    def __loop__(ordinal, iterable, body):
        fp=fp_getter()
        n=iterable.n
        # invariant I(k): fp.data == pre ++ header ++ flat(k)
        base=fp.base
        prove('inv-entry', fp.t==z3.Concat(base, FLAT(0)))
        k=z3.FreshInt('k'); eng.CUR.assume(z3.And(0<=k,k<n))
        fp.t=z3.Concat(base, FLAT(k))                       # havoc to arbitrary iteration
        body(Elem(k))
        eng.CUR.assume(FLAT(k+1)==z3.Concat(FLAT(k),encE(k)))   # unfolding of the spec function at k
        prove('inv-preserved', fp.t==z3.Concat(base, FLAT(k+1)))
        fp.t=z3.Concat(base, FLAT(n))                       # continue after the loop
    return __loop__
n=z3.Int('n')
def run():
    fp=Stream()
    g=dict(m.__dict__); g.update(struct=struct_stub, len=slen, pack=pack_contract)
    class FP(Stream):
        def write(s,b):
            Stream.write(s,b); s.base=s.t      # header written before the loop: remember as base (prototype shortcut)
    fp=FP(); fp.base=fp.t
    g['__loop__']=make_loop(lambda: fp)
    exec(compile(ast.Module([fn2],[]),'x','exec'),g)
    eng.CUR.assume(z3.And(n>=0, FLAT(0)==z3.Empty(SeqB)))
    g['_pack_array'](SListP(n), fp)
    return fp.t
t0=time.time()
paths=explore(run)
def hdr(n):
    return z3.If(n<=15, be(0x90+n,1,False), z3.If(n<=65535, z3.Concat(lb(b'\xdc'),be(n,2,False)), z3.Concat(lb(b'\xdd'),be(n,4,False))))
for p,out in paths:
    s=z3.Solver(); s.add(*p.pc)
    if out[0]=='ok':
        s.add(z3.Not(z3.And(n<2**32, out[1]==z3.Concat(hdr(n),FLAT(n)))))
    else:
        s.add(z3.Not(n>=2**32))
    print(p.taken,out[0], out[1] if out[0]=='exc' else '', 'post:', s.check())
print(OBL, round(time.time()-t0,2))
