# prototype: per-construct transfer obligations on the REAL extract_visitor, opaque children, pointwise in one name n
import sys, ast, z3
sys.path.insert(0,'/repo')
from supp.nast import extract_visitor
from supp.scope import Flow, LoopFlow, SourceScope, UNRESOLVED
from supp.util import Source

D=z3.DeclareSort('Def'); SetD=z3.SetSort(D); bot=z3.Const('bot',D)
EMPTY=z3.EmptySet(D)
class Child:
    n=0
    def __init__(s,kind):
        Child.n+=1; s.id=Child.n; s.kind=kind
        s.G=z3.Const('G%d'%s.id,SetD); s.P=z3.Bool('P%d'%s.id)
        s.visited_in=[]
    def T(s,X): return z3.SetUnion(s.G, z3.If(s.P, X, EMPTY))
    def facts(s): return [z3.Not(z3.IsMember(bot,s.G))]
class _Stmts(ast.stmt):
    _fields=()
class _Expr(ast.expr):
    _fields=()
def mk(cls,ch): 
    nd=cls(); nd.child=ch; nd.lineno=1; nd.col_offset=0; return nd
class SummaryFlow(Flow):
    def __init__(s, child, entry): Flow.__init__(s,'summary',entry.scope,[entry]); s.child=child; s.entry=entry
class V(extract_visitor):
    def visit__Stmts(self,node):
        node.child.visited_in.append(self.flow)
        self.flow=self.top.add_flow(SummaryFlow(node.child,self.flow)); 
    def visit__Expr(self,node):
        node.child.visited_in.append(self.flow)      # expressions: reads see view at this flow; (walrus ignored in prototype)
def view_end(F, env, depth=0):
    """spec view (pointwise at the symbolic name), Kleene iteration through LoopFlow back edges"""
    if isinstance(F,LoopFlow):
        if F in env: return env[F]
        return view_end(F.parent, env)
    if isinstance(F,SummaryFlow):
        return F.child.T(view_end(F.entry,env))
    assert not F._names, 'prototype: no own bindings'
    if not F.parents: return V0
    if len(F.parents)==1: return view_end(F.parents[0],env)
    loops=[p for p in F.parents if isinstance(p,LoopFlow)]
    if loops and loops[0] not in env:
        # lfp by iteration from bottom (EMPTY) for the back edge
        L=loops[0]; X=EMPTY
        for it in range(4):
            env2=dict(env); env2[L]=X
            others=[view_end(p,env2) for p in F.parents if p is not L]
            head=others[0]
            for o in others[1:]: head=z3.SetUnion(head,o)
            head=z3.SetUnion(head,X)
            # new back-edge value
            env3=dict(env); env3[L]=None
            env2b=dict(env); env2b[L]=view_end_fix(L, head, env)
            X=env2b[L]
        return head
    r=None
    for p in F.parents:
        v=view_end(p,env); r=v if r is None else z3.SetUnion(r,v)
    return r
HEAD={}
def view_end_fix(L, head_value, env):
    # value at end of loop body given the head region's view = head_value
    HEAD[L]=head_value
    return view_body(L.parent, L, head_value, env)
def view_body(F, L, head_value, env):
    if isinstance(F,Flow) and any(p is L for p in F.parents): return head_value
    if isinstance(F,SummaryFlow): return F.child.T(view_body(F.entry,L,head_value,env))
    if isinstance(F,LoopFlow): return view_body(F.parent,L,head_value,env)
    if len(F.parents)==1: return view_body(F.parents[0],L,head_value,env)
    r=None
    for p in F.parents:
        v=view_body(p,L,head_value,env); r=v if r is None else z3.SetUnion(r,v)
    return r
V0=z3.Const('V0',SetD)
def run(node):
    sc=SourceScope(Source('pass')); sc.parent=None
    v=V(); v.top=sc; v.flow=sc.flow
    v.visit(node)
    return v
def check(name, got, want, facts):
    s=z3.Solver(); s.add(*facts); s.add(got!=want)
    r=s.check(); print('  %-28s %s'%(name, 'discharged' if r==z3.unsat else 'FAILS' if r==z3.sat else r))
U=z3.SetUnion
# ---- If
t,b,o=Child('e'),Child('s'),Child('s')
node=ast.If(test=mk(_Expr,t),body=[mk(_Stmts,b)],orelse=[mk(_Stmts,o)]); node.lineno=1; node.col_offset=0
v=run(node); print('If')
check('exit == T_b(V) ∪ T_o(V)', view_end(v.flow,{}), U(b.T(V0),o.T(V0)), b.facts()+o.facts())
check('test read sees V', view_end(t.visited_in[0],{}), V0, [])
# ---- While
t,b,o=Child('e'),Child('s'),Child('s')
node=ast.While(test=mk(_Expr,t),body=[mk(_Stmts,b)],orelse=[mk(_Stmts,o)]); node.lineno=1; node.col_offset=0
v=run(node); print('While')
H=U(V0,b.T(V0))      # lfp X. V ∪ T_b(X)  == V ∪ T_b(V) for gen/kill T (lemma)
check('exit == T_o(H)', view_end(v.flow,{}), o.T(H), b.facts()+o.facts())
check('test read sees H', view_end(t.visited_in[0],{}), H, [])
# lemma: one pass suffices
X=z3.Const('X',SetD)
s=z3.Solver(); s.add(X==U(V0,b.T(X)), z3.Not(z3.IsSubset(H,X))); print('  lemma H ⊆ any fixpoint     ', s.check())
s=z3.Solver(); s.add(H!=U(V0,b.T(H))); print('  lemma H is a fixpoint        ', s.check())
# ---- Try
b,o,h1,h2,f=[Child('s') for _ in range(5)]; e1=Child('e')
H1=ast.ExceptHandler(type=mk(_Expr,e1),name=None,body=[mk(_Stmts,h1)]); H2=ast.ExceptHandler(type=None,name=None,body=[mk(_Stmts,h2)])
for h in (H1,H2): h.lineno=1; h.col_offset=0
node=ast.Try(body=[mk(_Stmts,b)],handlers=[H1,H2],orelse=[mk(_Stmts,o)],finalbody=[mk(_Stmts,f)]); node.lineno=1; node.col_offset=0
v=run(node); print('Try')
he=U(V0,b.T(V0))
want=f.T(U(U(o.T(b.T(V0)), h1.T(he)), h2.T(he)))
check('exit == T_f(T_o(T_b V) ∪ ⋃T_h(V ∪ T_b V))', view_end(v.flow,{}), want, [])
