from eng import *
import eng, ast, z3, time
# mutation test: compile mutated source of _pack_integer
src=open('/repo/supp/umsgpack.py').read().replace("elif obj <= 2**16-1:\n            fp.write(b\"\\xcd\"","elif obj <= 2**16:\n            fp.write(b\"\\xcd\"")
assert src!=open('/repo/supp/umsgpack.py').read()
tree=ast.parse(src); fn=[n for n in tree.body if isinstance(n,ast.FunctionDef) and n.name=='_pack_integer'][0]
import supp.umsgpack as m
g=dict(m.__dict__); g['struct']=struct_stub; exec(compile(ast.Module([fn],[]),'x','exec'),g); f=g['_pack_integer']
x=z3.Int('x')
def run():
    fp=Stream(); f(SInt(x),fp); return fp.t
t0=time.time()
for p,out in explore(run):
    print(p.taken,out[0], out[1] if out[0]=='exc' else '')
print(time.time()-t0)
