# feasibility prototype: path-exhaustive execution of REAL functions with z3 proxies
import z3, sys, types, struct as _struct
sys.path.insert(0,'/repo')

class Escape(Exception): pass
class Infeasible(Exception): pass

class Path:
    def __init__(s, prefix): s.prefix=list(prefix); s.taken=[]; s.pc=[]; s.solver=z3.Solver()
    def assume(s, c):
        s.pc.append(c); s.solver.add(c)
        if s.solver.check()==z3.unsat: raise Infeasible()
    def branch(s, cond):
        i=len(s.taken)
        if i < len(s.prefix):
            d=s.prefix[i]
        else:
            d=True
        s.taken.append(d)
        s.assume(cond if d else z3.Not(cond))
        return d
CUR=None

def explore(run):
    global CUR
    stack=[[]]; paths=[]
    while stack:
        prefix=stack.pop()
        CUR=Path(prefix)
        try:
            out=('ok',run())
        except Infeasible:
            out=None
        except Escape: raise
        except Exception as e:
            out=('exc',e)
        p=CUR
        # schedule siblings: for every decision beyond prefix that was defaulted True, push the False alternative
        for i in range(len(prefix), len(p.taken)):
            stack.append(p.taken[:i]+[False])
        if out is not None: paths.append((p,out))
    return paths

def lift(x):
    if isinstance(x,SInt): return x.t
    if isinstance(x,bool): return z3.IntVal(int(x))
    if isinstance(x,int): return z3.IntVal(x)
    raise Escape('lift %r'%(x,))
class SBool:
    def __init__(s,t): s.t=t
    def __bool__(s): return CUR.branch(s.t)
class SInt:
    def __init__(s,t): s.t=t
    def _cmp(op):
        def f(s,o): return SBool(op(s.t, lift(o)))
        return f
    __lt__=_cmp(lambda a,b:a<b); __le__=_cmp(lambda a,b:a<=b); __gt__=_cmp(lambda a,b:a>b); __ge__=_cmp(lambda a,b:a>=b)
    __eq__=_cmp(lambda a,b:a==b); __ne__=_cmp(lambda a,b:a!=b)
    __hash__=None
    def __add__(s,o): return SInt(s.t+lift(o))
    __radd__=__add__
    def __and__(s,o):
        if isinstance(o,int) and o==0xff: return SInt(s.t % 256)
        raise Escape('and')
    def __or__(s,o):
        W=64
        return SInt(z3.BV2Int(z3.Int2BV(s.t,W)|z3.Int2BV(lift(o),W)))
    __ror__=__or__
    def __index__(s): raise Escape('__index__ concretisation')
    def __int__(s): raise Escape('int')

class SBytes:  # z3 Seq of Int-coded bytes via z3 String? use Seq(BitVec8)
    def __init__(s,t): s.t=t
    def __add__(s,o): return SBytes(z3.Concat(s.t, lb(o)))
    def __radd__(s,o): return SBytes(z3.Concat(lb(o), s.t))
    def __eq__(s,o): return SBool(s.t==lb(o))
    __hash__=None
B8=z3.BitVecSort(8); SeqB=z3.SeqSort(B8)
def lb(x):
    if isinstance(x,SBytes): return x.t
    if isinstance(x,bytes):
        if not x: return z3.Empty(SeqB)
        us=[z3.Unit(z3.BitVecVal(c,8)) for c in x]
        return us[0] if len(us)==1 else z3.Concat(*us)
    raise Escape('lb')
def be(t, n, signed):  # big endian n bytes of int term t
    bv=z3.Int2BV(t, 8*n)
    us=[z3.Unit(z3.Extract(8*(n-1-i)+7, 8*(n-1-i), bv)) for i in range(n)]
    return us[0] if n==1 else z3.Concat(*us)
FMT={'b':(1,True),'B':(1,False),'>h':(2,True),'>H':(2,False),'>i':(4,True),'>I':(4,False),'>q':(8,True),'>Q':(8,False)}
class struct_stub:
    error=_struct.error
    OBL=[]
    @staticmethod
    def pack(fmt, v):
        n,signed=FMT[fmt]
        lo,hi=(-(1<<(8*n-1)),(1<<(8*n-1))-1) if signed else (0,(1<<(8*n))-1)
        t=lift(v)
        # precondition obligation (struct.error otherwise)
        s=z3.Solver(); s.add(*CUR.pc); s.add(z3.Not(z3.And(t>=lo,t<=hi)))
        if s.check()!=z3.unsat: raise AssertionError('struct.pack range precondition may fail: %s'%s.model())
        return SBytes(be(t,n,signed))
class Stream:
    def __init__(s): s.t=z3.Empty(SeqB)
    def write(s,b): s.t=z3.Concat(s.t, lb(b))

def load(modname, fname, extra):
    import importlib, ast, inspect
    m=importlib.import_module(modname)
    src=open(m.__file__).read()
    tree=ast.parse(src)
    fn=[n for n in tree.body if isinstance(n,ast.FunctionDef) and n.name==fname][0]
    code=compile(ast.Module([fn],[]), m.__file__, 'exec')
    g=dict(m.__dict__); g.update(extra)
    exec(code,g)
    return g[fname]

if __name__=='__main__':
    import time
    t0=time.time()
    f=load('supp.umsgpack','_pack_integer',{'struct':struct_stub})
    x=z3.Int('x')
    def run():
        fp=Stream(); f(SInt(x), fp); return fp.t
    paths=explore(run)
    # spec: msgpack int encoding, written from the spec
    def spec(x):
        def u(n): return be(x,n,False)
        c=lambda b: lb(bytes([b]))
        return z3.If(z3.And(x>=0,x<=127), be(x,1,False),
               z3.If(z3.And(x<0,x>=-32), be(x,1,True),
               z3.If(z3.And(x>=0,x<=255), z3.Concat(c(0xcc),be(x,1,False)),
               z3.If(z3.And(x>=0,x<=65535), z3.Concat(c(0xcd),be(x,2,False)),
               z3.If(z3.And(x>=0,x<2**32), z3.Concat(c(0xce),be(x,4,False)),
               z3.If(z3.And(x>=0,x<2**64), z3.Concat(c(0xcf),be(x,8,False)),
               z3.If(x>=-128, z3.Concat(c(0xd0),be(x,1,True)),
               z3.If(x>=-2**15, z3.Concat(c(0xd1),be(x,2,True)),
               z3.If(x>=-2**31, z3.Concat(c(0xd2),be(x,4,True)),
                     z3.Concat(c(0xd3),be(x,8,True)))))))))))
    nob=0
    for p,out in paths:
        s=z3.Solver(); s.add(*p.pc)
        inrange=z3.And(x>=-2**63, x<2**64)
        if out[0]=='ok':
            s.add(z3.Not(z3.And(inrange, out[1]==spec(x))))
        else:
            s.add(z3.Not(z3.And(z3.Not(inrange), type(out[1]).__name__=='UnsupportedTypeException')))
        r=s.check(); nob+=1
        print(p.taken, out[0], type(out[1]).__name__ if out[0]=='exc' else '', 'obligation:', 'discharged' if r==z3.unsat else ('FAILS %s'%s.model() if r==z3.sat else 'unknown'))
    print(len(paths),'paths',nob,'obligations', round(time.time()-t0,2),'s')
