import sys, threading; sys.path.insert(0,'/repo')
from supp import remote
env = remote.Environment()
launches=[]
gate_run_checked = threading.Event(); gate_starter_done = threading.Event()
def fake_run(self):
    launches.append(1); self.conn = object()
remote.Environment._run = fake_run
# trace: when caller thread is in run() about to execute the join line, wait for starter to finish
code_run = remote.Environment.run.__code__
code_thr = remote.Environment._threaded_run.__code__
def tracer(frame, event, arg):
    if frame.f_code is code_run:
        def local(frame, event, arg):
            if event=='line' and frame.f_lineno == code_run.co_firstlineno+3:  # the .join() line
                gate_run_checked.set(); gate_starter_done.wait(5)
            return local
        return local
    if frame.f_code is code_thr:
        def local2(frame, event, arg):
            if event=='line' and frame.f_lineno == code_thr.co_firstlineno+4:  # prepare_thread = None
                gate_run_checked.wait(5)
            if event=='return': gate_starter_done.set()
            return local2
        return local2
threading.settrace(tracer); sys.settrace(tracer)
# prepare() then immediate first call from main thread
# make starter block before clearing handle until run() has passed the if
env.prepare()
try:
    env.run()
    print('run ok, launches', len(launches))
except Exception as e:
    print('EXC', type(e).__name__, e, 'launches', len(launches))
