import z3,time
n,i,j,k=z3.Ints('n i j k')
c=z3.Function('c',z3.IntSort(),z3.IntSort())     # line as char function on [0,n)
ident=z3.Function('ident',z3.IntSort(),z3.BoolSort())
cls=z3.Function('cls',z3.IntSort(),z3.BoolSort())  # class used by the code (complement of separators)
def maxsuffix(P,i):
    return z3.And(0<=i,i<=n, z3.ForAll([k], z3.Implies(z3.And(i<=k,k<n), P(c(k)))), z3.Or(i==0, z3.Not(P(c(i-1)))))
# fixed code: cls == ident -> unique
s=z3.Solver(); s.add(n>=0, maxsuffix(ident,i), maxsuffix(ident,j), i!=j)
t=time.time(); print('fixed', s.check(), round(time.time()-t,3))
# current code: cls = not in {'.',ws,'('}: ident ⊂ cls strictly
s=z3.Solver(); s.add(n>=0, z3.ForAll([k], z3.Implies(ident(k), cls(k))), z3.Exists([k], z3.And(cls(k), z3.Not(ident(k)))), maxsuffix(ident,i), maxsuffix(cls,j), i!=j)
t=time.time(); r=s.check(); print('current', r, round(time.time()-t,3))
