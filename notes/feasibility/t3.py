from eng import *
import eng, z3
from supp.scope import Flow, SourceScope
from supp.name import AssignedName
from supp.util import Source
# real Flow.names_at / insert_loc with symbolic (line, col) locations
l1,c1,l2,c2,ql,qc=z3.Ints('l1 c1 l2 c2 ql qc')
def run():
    sc=SourceScope(Source('pass')); sc.parent=None
    f=Flow('t', sc)
    a=AssignedName('x',(SInt(l1),SInt(c1)),(1,0),None)
    b=AssignedName('x',(SInt(l2),SInt(c2)),(2,0),None)
    f.add_name(a); f.add_name(b)
    r=f.names_at((SInt(ql),SInt(qc))).get('x')
    return 'a' if r is a else 'b' if r is b else None
paths=explore(run)
lt=lambda A,B: z3.Or(A[0]<B[0], z3.And(A[0]==B[0],A[1]<B[1]))
le=lambda A,B: z3.Not(lt(B,A))
A=(l1,c1);B=(l2,c2);Q=(ql,qc)
# spec: the visible binding is the one with the greatest location <= Q (ties: later inserted)
bad=0
for p,out in paths:
    spec = z3.If(z3.And(le(B,Q), z3.Or(le(A,B), z3.Not(le(A,Q)))), 2, z3.If(le(A,Q),1,0))
    got={'a':1,'b':2,None:0}[out[1]] if out[0]=='ok' else -1
    s=z3.Solver(); s.add(*p.pc); s.add(spec!=got)
    r=s.check()
    if r!=z3.unsat: bad+=1; print('FAIL',p.taken,out,s.model() if r==z3.sat else r)
print(len(paths),'paths; failing',bad)
