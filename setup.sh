#!/bin/sh
# offline build of the tooling venv (Python 3.12, the interpreter /repo's suite runs under)
set -e
cd "$(dirname "$0")"
if [ ! -x .venv/bin/python ] || ! .venv/bin/python -c "import z3, jsonschema" 2>/dev/null; then
    rm -rf .venv
    /venv/bin/python -m venv .venv
    .venv/bin/pip install -q --no-index --find-links /opt/veriftools/wheels z3-solver cvc5 jsonschema
fi
.venv/bin/python -c "import z3; print('z3', z3.get_version_string())"
