# table of claimed checks; executed by tools_manifest.py
claim('C14',
      "Every _pack_* function of supp/umsgpack.py is verified, for all inputs, against the encoder the MessagePack "
      "specification prescribes (smallest format), with loop invariants for arrays/maps and pack() as a modular call; "
      "obligations are generated from the real code objects on every run and discharged by z3.",
      "Trusted: struct.pack/unpack, str.encode/bytes.decode and io.BytesIO as stated contracts (evidence trusted_base); "
      "CPython ints are mathematical; floats are moved not interpreted.",
      "contract-based deductive verification: path-exhaustive symbolic execution of the real functions over z3 proxies, "
      "sidecar contracts, loop invariants, z3/cvc5 discharge", "DESIGN.md 3 C14")
claim('C12',
      "The real assist() is executed over an arbitrary cursor line of Unicode text (index-quantified string model; non-ASCII letters through an uninterpreted word-character predicate): on every return site "
      "the prefix is proved to be the longest identifier run left of the cursor; an arbitrary table key is followed to the "
      "proposal list (sorted, marker-free); unmark/marked/split_pkg/join_pkg/Source.__init__ are proved against their contracts.",
      "`re` through a translator for single-character-class patterns (\\w assumed to coincide with identifier characters on non-ASCII code points); str methods by their documented semantics; "
      "the parser relates the marked identifier to the cursor line (assumed); whole-pipeline mark transparency for the attribute "
      "case is not decided (DESIGN 7).",
      "contract-based deductive verification: symbolic execution of the real functions over index-quantified strings, z3 (E-matching + MBQI)",
      "DESIGN.md 3 C12")
claim('C11',
      "SourceScope.find_id_loc is proved, for every window text, identifier, start column, shift and delimiter mode, to return "
      "the line/column of the first admissible occurrence (loop invariant) or `start`; at every call site the NAME token is "
      "proved admissible in every token context of the lexical grammar and the window is proved to cover the statement.",
      "ASCII lines; ast positions of Name/arg nodes equal string indices (parser assumption, so np(node) sites are trusted); "
      "the token-context table is transcribed from the language reference; `except ... as` uses the clause position by the "
      "property's own rule; one known finding (D34: the implicit binding of a submodule reached through a dotted import is reported at "
      "(0, 0), an answer the suite pins).",
      "contract-based deductive verification: loop-invariant cut on the real find_id_loc over index-quantified strings; ground call-site obligations",
      "DESIGN.md 3 C11")
claim('C10',
      "The report loop of the real lint() is cut by a loop invariant (result == reports of the first k bindings) and its body is "
      "proved, for an arbitrary binding of every binding class in every scope kind with an arbitrary identifier text, to append "
      "exactly what the statement's exemption table prescribes (code, own name, declared_at, at most once).",
      "That a binding whose identifier is never read is never marked `used` is the usage-loop contract (C02); that all_names "
      "enumerates every binding once is a stated lemma; `locals()` programs are treated as the code treats them.",
      "contract-based deductive verification: loop-invariant cut on the real lint(), case product over the real binding/scope classes",
      "DESIGN.md 3 C10")
_FLOW_NOTE = ("The composition lemma is not proved; a BOUNDED stand-in (contracts/composition.py: ~8000 whole programs of a small statement grammar, "
              "real lint / names_at against a definitional interpreter enumerating every execution) checks the composed claim and is reported "
              "under `bounded`, never counted as proved. "
              "Trusted: the composition lemma (structural induction over the program, each step a discharged obligation) and the link between "
              "spec/flow.py and CPython's semantics; ast positions follow token order; table functions are parametric in the key; bisect and set "
              "iteration by their library contracts. Obligations are pointwise in one symbolic identifier with opaque sub-statements/"
              "sub-expressions (both representations of a child's effect) and symbolic source positions.")
claim('C01',
      "Per-construct contracts on the real extract_visitor (every binding construct of the grammar, all parameter kinds, read coverage of every "
      "sub-expression), table lemmas on MergedDict / Flow.names / names_at / parent_names (any number of predecessors) / insert_loc, and the "
      "scope rule: the table at every read contains every binding that can reach it.",
      _FLOW_NOTE, "contract-based deductive verification: symbolic execution of the real visitor and table functions, loop invariants, z3",
      "DESIGN.md 3 C01")
claim('C02',
      "Superset direction of the per-construct reaching-definition equalities (if/while/for/try/with/assign/walrus/def/lambda/class/"
      "comprehensions/imports), the join of predecessor tables, MultiName flattening and the memo-coherence invariant: every definition "
      "that reaches a read is among the definitions supp associates with it.",
      _FLOW_NOTE, "contract-based deductive verification: gen/kill transfer obligations on the real visitor, z3", "DESIGN.md 3 C02")
claim('C03',
      "Subset direction and the `unbound` component of the same equalities, binding placement (a name is not visible inside its own "
      "right-hand side: get_expr_end contract), `x: T` binds nothing, has_undefined / valid_names contracts.",
      _FLOW_NOTE, "contract-based deductive verification: gen/kill transfer obligations on the real visitor, z3", "DESIGN.md 3 C03")
claim('C04',
      "Memo-coherence: LoopFlow.names on real region objects with the predecessor computation replaced by its contract (it memoises "
      "partial tables through the real descriptor): no table memoised while a back edge is unresolved survives the resolution, on normal "
      "and exceptional exit and for nested loops; re-entrancy guards of LoopFlow and EvalCtx.evaluate; descriptor contracts.",
      "The number of memo stores per resolution is instantiated at 1 and 3 and the nesting depth at 1 and 2 (the mechanism is a uniform loop over "
      "a list); evaluation memos that depend on other files are C09; Inv_memo => history independence is a stated lemma.",
      "contract-based deductive verification: ghost-state (partial tables) contracts on the real memoisation sites", "DESIGN.md 3 C04")
claim('C05',
      "Flow.parent_names (entry region) is proved, at an arbitrary identifier, to follow the resolution rule of the language reference "
      "(global-declared -> module, local -> never inherited, otherwise enclosing scope; class bodies skipped by methods), Flow.add_name "
      "routing and RI_locals, the names property of every scope class, global / nonlocal declarations, and the region every "
      "decorator / default / annotation / base / keyword is evaluated in.",
      "Induction on the depth of the scope chain is stated; comprehension scopes are compared as bindings of the enclosing scope, as the property says; one known finding (D32: PEP 695 type "
      "parameters are not a scope).",
      "contract-based deductive verification: symbolic membership flags on the real scope functions, z3", "DESIGN.md 3 C05")
claim('C13',
      "Every per-construct obligation of C01-C03 is discharged with symbolic source positions constrained only by token order, so it holds "
      "for every layout; get_expr_end is proved for every expression class of the grammar with unconstrained node positions; "
      "get_first_body_node_loc, insert_loc and names_at are proved over symbolic positions.",
      "Frame scan: positions are consulted only through Location.__lt__, bisect, insort, get_expr_end, get_first_body_node_loc, np; "
      "equal diagnostics follow from equal tables (C10 is position-free apart from copying declared_at).",
      "contract-based deductive verification: corollary of how C01-C03 are discharged + contracts on the position helpers", "DESIGN.md 3 C13")
claim('C17',
      "MultiName.__init__ (and valid_names / first_name) is executed with set iteration modelled as an arbitrary permutation, all "
      "permutations and all orders of the incoming row explored, positions symbolic: the alternatives are the flattening, listed in "
      "source order whatever the permutation.",
      "Up to 4 alternatives per row in the permutation exploration; everything else between the entry points and a set is deterministic by "
      "a mechanical scan (no id()/hash()/time/random), assist sorts, lint enumerates in AST / region order.",
      "contract-based deductive verification: permutation-independence obligations on the real MultiName.__init__", "DESIGN.md 3 C17")
claim('C15',
      "Server.process is proved to contain every Exception of an opaque request method and to report (class name, message); one arbitrary "
      "iteration of the real Server.run loop is proved (loop cut) to send exactly one reply per request - the result or the SerializeError "
      "fallback - and to continue after failing requests, unserialisable results and failing sends; the request methods and the client's "
      "_call are proved transparent; with the C14 codec contracts the reply is norm(result).",
      "Channel assumption (reliable ordered duplex); induction over the request sequence is stated; BaseException from eval payloads and OS "
      "behaviour are outside.",
      "contract-based deductive verification: loop-iteration contract on the real serve loop with environment choices for every callee outcome",
      "DESIGN.md 3 C15")
claim('C16',
      "Thread-modular rely/guarantee proof at source-line atomicity: the real prepare()/run()/_call() are executed with every enabled "
      "environment transition (starter finishes / fails, another thread's critical section) injected before every source line, from every "
      "initial state: at most one launch (retry only after a failed one), no handshake exception, connected after run(); the starter's own "
      "effects are proved to be the rely transitions; close() and the server's exit branches by sequential contracts.",
      "Source-line atomicity of attribute accesses, Lock and Thread.join by their contracts; process launch and connection are fakes; "
      "liveness (every call is answered, the child exits) is not expressible as a contract here.",
      "contract-based deductive verification: rely/guarantee over a finite abstraction, all line x interference combinations explored on the real methods",
      "DESIGN.md 3 C16")
claim('C08',
      "Exception-freedom contracts: every extract_visitor.visit_* over every input its ASDL signature allows (all assignment-target classes, "
      "optional fields absent/present, lists empty/non-empty, module/class/function scope, deeper children opaque); lint's E01 clause and "
      "usage loop over every class a names table can hold; location()'s formatting over every result class; import failures contained; "
      "RuntimeName.call over an arbitrary failing constructor; the re-entrancy guard of EvalCtx.evaluate.",
      "Termination and whole-API totality are not decided (no decreases measure across the memoised mutual recursion of the evaluator; only "
      "the functions under contract are covered - the evaluator's dispatch is exercised but not enumerated); ast.parse conforms to the ASDL "
      "signatures the node classes document; one known finding (D35: RecursionError on the first request behind about 130 compound "
      "statements in one body).",
      "contract-based deductive verification: exhaustive one-level skeletons derived from the ASDL signatures, executed on the real functions",
      "DESIGN.md 3 C08")
claim('C06',
      "ClassObject._attrs and InstanceValue._attrs/_assigned_attrs are proved, at an arbitrary attribute name and for any number of bases "
      "(loop invariants), to select by the lookup order of the data model: own self-assignments, the bases' self-assignments in order, the class's "
      "own body, the bases' class tables in order; the merge objects (first non-None / union), the grouping of attribute assignments "
      "(loop invariant) and the binding of a method's first parameter are proved against their contracts.",
      "Induction over the hierarchy depth is stated; hierarchies without repeated ancestors (C3 == depth-first left-to-right), as the property "
      "says; that the evaluator yields the right kind of value for each expression form is assumed (only its guards are verified); one known "
      "finding (D36: the value of a method that returns self is an instance of the defining class, not of the receiver's class).",
      "contract-based deductive verification: layered-table abstraction of the real merge functions with loop invariants", "DESIGN.md 3 C06")
claim('C07',
      "norm_package is proved over an abstract directory chain (loop invariants for the climb and for the collection of package ancestors) "
      "against importlib.util.resolve_name; get_module is proved over an abstract file system with any number of roots (loop invariant: no "
      "candidate in the earlier roots) against importlib's path finder, including the source/compiled/loaded case split, ImportError "
      "exactly when nothing is found, and the cache branches; split_pkg/join_pkg over symbolic strings; ImportedName.resolve's order.",
      "os.path / os.listdir as functions of an abstract file system; at most one candidate per root for a name (the property's domain); "
      "list_packages is a BOUNDED stand-in (directory configurations against pkgutil, reported under `bounded`, not counted as proved); the "
      "two defects recorded at first (a relative import climbing through a directory that is no package, a dotted name found under a later "
      "root) were repaired later and their obligations hold.",
      "contract-based deductive verification: loop invariants over an abstract file system on the real functions; bounded stand-in for list_packages",
      "DESIGN.md 3 C07")
claim('C09',
      "Inv_cache: get_module over an abstract module store (symbolic `file changed` flags and dependency edge) serves a cached module only when "
      "its own file is unchanged; check_changes empties the per-request cache; SourceModule.changed/scope contracts; the server wraps every "
      "request in check_changes, and assist / location / lint enter one themselves (supp.project.request, under contract). The "
      "dependency-closure obligation, which failed on the pinned tree (D19), holds since the repair (a module is as old as the modules it "
      "star-imports; imported names are resolved once per request).",
      "Dependency-closure lemma stated (frame scan of file-system reads and cross-module references); histories are covered by induction on "
      "the invariant, not enumerated; deleting files / shadowing from an earlier root are outside the domain.",
      "contract-based deductive verification: ghost-state (valid / deps) invariant on the real cache functions", "DESIGN.md 3 C09")
