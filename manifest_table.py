# table of claimed checks; executed by tools_manifest.py
claim('C14',
      "Every _pack_* function of supp/umsgpack.py is verified, for all inputs, against the encoder the MessagePack "
      "specification prescribes (smallest format), with loop invariants for arrays/maps and pack() as a modular call; "
      "obligations are generated from the real code objects on every run and discharged by z3.",
      "Trusted: struct.pack/unpack, str.encode/bytes.decode and io.BytesIO as stated contracts (evidence trusted_base); "
      "CPython ints are mathematical; floats are moved not interpreted.",
      "contract-based deductive verification: path-exhaustive symbolic execution of the real functions over z3 proxies, "
      "sidecar contracts, loop invariants, z3/cvc5 discharge", "DESIGN.md 3 C14")
