# table of claimed checks; executed by tools_manifest.py
claim('C14',
      "Every _pack_* function of supp/umsgpack.py is verified, for all inputs, against the encoder the MessagePack "
      "specification prescribes (smallest format), with loop invariants for arrays/maps and pack() as a modular call; "
      "obligations are generated from the real code objects on every run and discharged by z3.",
      "Trusted: struct.pack/unpack, str.encode/bytes.decode and io.BytesIO as stated contracts (evidence trusted_base); "
      "CPython ints are mathematical; floats are moved not interpreted.",
      "contract-based deductive verification: path-exhaustive symbolic execution of the real functions over z3 proxies, "
      "sidecar contracts, loop invariants, z3/cvc5 discharge", "DESIGN.md 3 C14")
claim('C12',
      "The real assist() is executed over an arbitrary ASCII cursor line (index-quantified string model): on every return site "
      "the prefix is proved to be the longest identifier run left of the cursor; an arbitrary table key is followed to the "
      "proposal list (sorted, marker-free); unmark/marked/split_pkg/join_pkg/Source.__init__ are proved against their contracts.",
      "ASCII lines; `re` through a translator for single-character-class patterns; str methods by their documented semantics; "
      "the parser relates the marked identifier to the cursor line (assumed); whole-pipeline mark transparency for the attribute "
      "case is not decided (DESIGN 7).",
      "contract-based deductive verification: symbolic execution of the real functions over index-quantified strings, z3 (E-matching + MBQI)",
      "DESIGN.md 3 C12")
claim('C11',
      "SourceScope.find_id_loc is proved, for every window text, identifier, start column, shift and delimiter mode, to return "
      "the line/column of the first admissible occurrence (loop invariant) or `start`; at every call site the NAME token is "
      "proved admissible in every token context of the lexical grammar and the window is proved to cover the statement.",
      "ASCII lines; ast positions of Name/arg nodes equal string indices (parser assumption, so np(node) sites are trusted); "
      "the token-context table is transcribed from the language reference; `except ... as` uses the clause position by the "
      "property's own rule.",
      "contract-based deductive verification: loop-invariant cut on the real find_id_loc over index-quantified strings; ground call-site obligations",
      "DESIGN.md 3 C11")
claim('C10',
      "The report loop of the real lint() is cut by a loop invariant (result == reports of the first k bindings) and its body is "
      "proved, for an arbitrary binding of every binding class in every scope kind with an arbitrary identifier text, to append "
      "exactly what the statement's exemption table prescribes (code, own name, declared_at, at most once).",
      "That a binding whose identifier is never read is never marked `used` is the usage-loop contract (C02); that all_names "
      "enumerates every binding once is a stated lemma; `locals()` programs are treated as the code treats them.",
      "contract-based deductive verification: loop-invariant cut on the real lint(), case product over the real binding/scope classes",
      "DESIGN.md 3 C10")
