"""check driver: runs every harness of a property, aggregates obligations, applies the
known-findings file, writes evidence and replay files, prints VIOLATION lines.

exit 0  every obligation discharged (known findings printed as KNOWN-FINDING)
exit 1  some obligation failed and is not a listed finding
exit 2  undecided (solver unknown / engine escape / function not found)
exit 3  the checker is broken (vacuity guard, crashed harness)
"""
import argparse
import fnmatch
import hashlib
import importlib
import json
import multiprocessing
import os
import re
import subprocess
import sys
import time

HERE = os.path.dirname(os.path.dirname(os.path.abspath(__file__)))
REPO = os.environ.get('SUPP_REPO', '/repo')
sys.path.insert(0, HERE)
sys.path.insert(0, REPO)
os.environ.setdefault('SUPP_VERIF', '1')
sys.dont_write_bytecode = True

NATIVE_PY = '/venv/bin/python'


def load_known():
    out = []
    fn = os.path.join(HERE, 'known_findings.jsonl')
    if os.path.exists(fn):
        for line in open(fn):
            line = line.strip()
            if line and not line.startswith('#') and not line.startswith('fixed:'):
                out.append(json.loads(line))
    return out


def _star_match(name, pattern):
    """`*` is the only wildcard (obligation names contain brackets)"""
    parts = pattern.split('*')
    if not name.startswith(parts[0]):
        return False
    pos = len(parts[0])
    for seg in parts[1:-1]:
        i = name.find(seg, pos)
        if i < 0:
            return False
        pos = i + len(seg)
    last = parts[-1]
    return len(parts) == 1 and name == pattern or (len(parts) > 1 and name.endswith(last) and len(name) - len(last) >= pos)


def match_known(known, prop, ob):
    for k in known:
        if k['property'] != prop:
            continue
        if _star_match(ob['name'], k['obligation']):
            return k
    return None


def write_replay(prop, rec, ob):
    d = os.path.join(HERE, 'replays', prop)
    os.makedirs(d, exist_ok=True)
    h = hashlib.sha256(ob['name'].encode()).hexdigest()[:12]
    base = os.path.join(d, h)
    rp = ob.get('replay') or {}
    script = rp.get('script')
    reproduced = None
    output = None
    if script:
        with open(base + '.py', 'w') as f:
            f.write(script)
        try:
            r = subprocess.run([NATIVE_PY if os.path.exists(NATIVE_PY) else sys.executable, base + '.py'],
                               capture_output=True, text=True, timeout=120,
                               env=dict(os.environ, PYTHONPATH=REPO, PYTHONDONTWRITEBYTECODE='1'))
            output = (r.stdout + r.stderr)[-4000:]
            reproduced = 'REPRODUCED' in r.stdout
            if 'PROPERTY-HOLDS-ON-THE-COUNTEREXAMPLE' in r.stdout and not reproduced:
                # the clause that failed is a strengthening of the property (a contract as strong as the verifier bears): on the solver's
                # own counterexample the replay found the property itself to hold
                reproduced = 'property-holds'
        except Exception as e:
            output = 'replay could not run: %r' % (e,)
    doc = {'property': prop, 'obligation': ob['name'], 'clause': ob['clause'], 'kind': ob['kind'],
           'function': rec['function'], 'source_sha': rec['source_sha'], 'backend': ob['backend'],
           'solver_model': ob['model'], 'input': rp.get('input'), 'replay_script': (base + '.py') if script else None,
           'reproduced_on_real_code': reproduced, 'replay_output': output, 'note': ob.get('note'),
           'repo': REPO}
    with open(base + '.json', 'w') as f:
        json.dump(doc, f, indent=1, default=str)
    return base + '.json', reproduced


def do_replay(path):
    doc = json.load(open(path))
    print('obligation:', doc['obligation'])
    print('clause    :', doc['clause'])
    print('model     :', json.dumps(doc['solver_model']))
    s = doc.get('replay_script')
    if s and os.path.exists(s):
        r = subprocess.run([NATIVE_PY, s], capture_output=True, text=True, env=dict(os.environ, PYTHONPATH=REPO))
        print(r.stdout + r.stderr)
        return 1 if 'REPRODUCED' in r.stdout else 0
    print('no concrete input was produced for this obligation (no-failing-input-found); solver output above')
    return 1


def self_tests(prop):
    """thorough tier: is the check still able to see what it is there for?  Every deliberately broken tree kept for this property - the mutants
    of mutants/<id>.json, every `fix:` commit of known_findings.jsonl undone alone, every seeded change of seeded/<id>-* - is built in a scratch
    copy / worktree outside /repo and /verif (removed afterwards) and the quick check is run against it; each must be reported with exit 1.
    A miss is printed as SELFTEST-MISS and recorded; it does not change the verdict on /repo."""
    out = {}
    env = dict(os.environ, SUPP_VERIF_NO_SELFTEST='1', VERIF_TIER='quick')
    env.pop('SUPP_REPO', None)
    jobs = []
    if os.path.exists(os.path.join(HERE, 'mutants', prop.lower() + '.json')):
        jobs.append(('mutants', [sys.executable, os.path.join(HERE, 'tools', 'selftest.py'), prop]))
    jobs.append(('reverted_fixes', [sys.executable, os.path.join(HERE, 'tools', 'revert_selftest.py'), prop]))
    jobs.append(('seeded_changes', [sys.executable, os.path.join(HERE, 'tools', 'seed_recheck.py'), '--scratch', '--no-write', prop + '-']))
    for name, cmd in jobs:
        try:
            r = subprocess.run(cmd, cwd=HERE, capture_output=True, text=True, env=env, timeout=6 * 3600)
            lines = [l for l in r.stdout.splitlines() if l.strip()]
        except Exception as e:
            lines = ['self-test did not run: %r' % (e,)]
        caught = sum(('CAUGHT' in l) or (' caught ' in l) for l in lines)
        missed = [l[:200] for l in lines if 'MISSED' in l]
        skipped = sum('SKIP' in l for l in lines)
        out[name] = {'caught': caught, 'missed': missed, 'skipped': skipped}
        for l in missed:
            print('SELFTEST-MISS property=%s %s: %s' % (prop, name, l))
    return out


def main():
    ap = argparse.ArgumentParser()
    ap.add_argument('prop')
    ap.add_argument('--tier', default=os.environ.get('VERIF_TIER', 'quick'))
    ap.add_argument('--replay')
    ap.add_argument('--jobs', type=int, default=int(os.environ.get('VERIF_JOBS', '16')))
    ap.add_argument('--only', help='run only harnesses whose id matches this glob (debugging; no evidence written)')
    ap.add_argument('--verbose', '-v', action='store_true')
    a = ap.parse_args()
    if a.replay:
        sys.exit(do_replay(a.replay))
    prop = a.prop
    seed = int(os.environ.get('VERIF_SEED', '0') or 0)
    t0 = time.time()

    from pysym import harness as H
    try:
        mod = importlib.import_module('props.' + prop.lower())
    except ImportError as e:
        print('checker broken: cannot load props/%s.py: %r' % (prop.lower(), e))
        sys.exit(3)
    hs = [h for h in H.REGISTRY.get(prop, []) if h.tier == 'quick' or a.tier == 'thorough']
    if a.only:
        hs = [h for h in hs if fnmatch.fnmatch(h.id, a.only)]
    if not hs:
        print('checker broken: no harness registered for %s' % prop)
        sys.exit(3)

    ctx = multiprocessing.get_context('fork')
    with ctx.Pool(min(a.jobs, len(hs)), maxtasksperchild=1) as pool:
        recs = pool.map(H.run_harness, [((prop, h.id), a.tier) for h in hs], chunksize=1)

    extra = getattr(mod, 'post_run', None)
    extra_info = extra(recs, a.tier, seed) if extra else {}

    known = load_known()
    n_obl = n_dis = 0
    n_bounded = 0
    failed, undecided, broken = [], [], []
    known_hits = {}
    backends = {}
    solver_time = 0.0
    functions = []
    trusted = []
    bounded = []
    slow = []
    for rec in recs:
        solver_time += rec['solver_time']
        for t in rec['trusted']:
            if t not in trusted:
                trusted.append(t)
        nf = sum(o['verdict'] == 'failed' for o in rec['obligations'])
        functions.append({'harness': rec['harness'], 'function': rec['function'], 'source_sha256_16': rec['source_sha'],
                          'paths': rec['paths'], 'obligations': len(rec['obligations']),
                          'discharged': sum(o['verdict'] == 'discharged' for o in rec['obligations']),
                          'rewritten_nodes': rec['rewritten'], 'bounded': rec['bounded'], 'status': rec['status'],
                          'wall_s': rec['wall'], 'contract': rec['doc'][:300]})
        if rec['status'] == 'crash':
            broken.append('%s crashed: %s' % (rec['harness'], rec['error']))
        elif rec['status'] in ('escape', 'pathcap'):
            undecided.append({'name': rec['harness'], 'reason': '%s: %s' % (rec['status'], rec['error'])})
        if rec['status'] == 'ok' and not rec['obligations']:
            broken.append('%s generated no obligation (vacuity guard)' % rec['harness'])
        if rec['status'] == 'ok' and rec['paths'] == 0:
            broken.append('%s explored no feasible path (contradictory precondition?)' % rec['harness'])
        for lab, ok in rec['covers']:
            if not ok:
                broken.append('%s: cover %s unreachable (vacuity guard)' % (rec['harness'], lab))
        for tw in rec['twins']:
            if tw['status'] == 'ok' and tw['failed'] == 0:
                broken.append('%s: must-fail twin %r was fully discharged (the contract does not constrain the code)'
                              % (rec['harness'], tw['twin']))
            elif tw['status'] not in ('ok',) and tw['failed'] == 0:
                if rec['status'] in ('escape', 'pathcap') and tw['status'] == rec['status']:
                    # the code left the engine's fragment in the contract run already (undecided, reported above): the twin escapes with it
                    continue
                broken.append('%s: must-fail twin %r did not run: %s %s' % (rec['harness'], tw['twin'], tw['status'], tw['error']))
        if rec['bounded']:
            bounded.append({'harness': rec['harness'], 'bound': rec['bounded'], 'cases': len(rec['obligations'])})
        for o in rec['obligations']:
            if rec['bounded']:
                n_bounded += 1
            else:
                n_obl += 1
            if o['verdict'] == 'discharged':
                if not rec['bounded']:
                    n_dis += 1
                backends[o['backend']] = backends.get(o['backend'], 0) + 1
                if o['time'] > 0.25 * (10 if a.tier == 'quick' else 60):
                    slow.append({'name': o['name'], 's': o['time']})
            elif o['verdict'] == 'failed':
                k = match_known(known, prop, o)
                if k:
                    known_hits.setdefault(k['id'], (k, []))[1].append(o['name'])
                    # a known finding is not a discharged obligation: it stays out of both counts
                    if not rec['bounded']:
                        n_obl -= 1
                else:
                    failed.append((rec, o))
            else:
                undecided.append({'name': o['name'], 'reason': o.get('note') or 'solver returned unknown'})

    # ---- report
    violations = []
    groups = {}
    for rec, o in failed:
        groups.setdefault((rec['harness'], o['name'].split('@')[0]), []).append((rec, o))
    for grp, items in groups.items():
        best = None
        for rec, o in items[:6]:
            path, reproduced = write_replay(prop, rec, o)
            if o['backend'] == 'z3-bounded-instantiation' and not reproduced:
                # a candidate that does not replay on the real code is no counterexample: the obligation stays undecided
                undecided.append({'name': o['name'], 'reason': 'solver gave up; bounded candidate did not reproduce'})
                continue
            if reproduced == 'property-holds':
                # never an alarm on code where the property holds: the stronger clause is undecided, not violated
                undecided.append({'name': o['name'], 'reason': 'the contract clause (a strengthening of the property) fails, but on the counterexample the '
                                                               'property itself holds - see %s' % path})
                continue
            if best is None or (reproduced and not best[2]):
                best = (path, o, reproduced)
        if best is None:
            continue
        path, o, reproduced = best
        tail = '' if reproduced else ' no-failing-input-found'
        violations.append(best)
        print('FAILED obligation %s  (%d path(s))\n   clause: %s\n   model: %s'
              % (o['name'], len(items), o['clause'], json.dumps(o['model'])[:400]))
        print('VIOLATION property=%s replay=%s%s' % (prop, path, tail))
    for kid, (k, names) in known_hits.items():
        print('KNOWN-FINDING: property=%s %s [%s; %d obligation(s)]' % (prop, k['what'], kid, len(names)))
    for u in undecided:
        print('UNDECIDED property=%s obligation=%s reason=%s' % (prop, u['name'], str(u['reason'])[:300]))
    for b in broken:
        print('CHECKER-BROKEN property=%s %s' % (prop, b))

    samples = []
    for rec in recs:
        for o in rec['obligations'][:1]:
            samples.append({'name': o['name'], 'kind': o['kind'], 'clause': o['clause'], 'verdict': o['verdict'],
                            'backend': o['backend'], 'time_s': o['time']})
    samples = samples[:6]
    info = getattr(mod, 'INFO', {})
    ev = {
        'property_id': prop, 'tier': a.tier if a.tier in ('quick', 'thorough') else 'quick', 'seed': seed,
        'level': 'proof',
        'coverage': {
            'obligations': n_obl, 'discharged': n_dis,
            'checker_cmd': './check %s --tier %s' % (prop, a.tier),
            'trusted_base': trusted + info.get('trusted', []),
            'functions_under_contract': functions,
            'backends': backends, 'solver_time_s': round(solver_time, 2),
            'slow_obligations': slow[:20],
            'bounded': bounded, 'bounded_cases_not_counted_as_proved': n_bounded,
            'not_decided': info.get('not_decided', []),
            'stated_lemmas_not_machine_checked': info.get('stated_lemmas', []),
            'known_findings_matched': [{'id': kid, 'what': k['what'], 'obligations': names[:5], 'count': len(names)}
                                       for kid, (k, names) in known_hits.items()],
            'undecided': undecided[:20],
            'vacuity': {'harnesses': len(recs), 'paths': sum(r['paths'] for r in recs),
                        'must_fail_twins': [{'harness': r['harness'], **tw} for r in recs for tw in r['twins']],
                        'covers': sum(len(r['covers']) for r in recs)},
            'samples': samples,
            'repo': REPO,
        },
        'assumptions': trusted + info.get('assumptions', []),
        'wall_s': round(time.time() - t0, 2),
        'violations': len(violations),
    }
    ev['coverage'].update(extra_info or {})
    if a.tier == 'thorough' and REPO == '/repo' and not os.environ.get('SUPP_REPO') and not a.only and not os.environ.get('SUPP_VERIF_NO_SELFTEST'):
        ev['coverage']['self_tests'] = self_tests(prop)
        ev['wall_s'] = round(time.time() - t0, 2)
    if not a.only and REPO == '/repo' and not os.environ.get('SUPP_VERIF_KEEP_EVIDENCE'):   # (set by tools/seed_*.py)
        os.makedirs(os.path.join(HERE, 'evidence'), exist_ok=True)
        with open(os.path.join(HERE, 'evidence', prop + '.json'), 'w') as f:
            json.dump(ev, f, indent=1, default=str)
    print('%s: %d harnesses, %d paths, %d obligations, %d discharged, %d failed, %d known, %d undecided, %d bounded cases; '
          'solver %.1fs wall %.1fs'
          % (prop, len(recs), sum(r['paths'] for r in recs), n_obl, n_dis, len(failed), len(known_hits), len(undecided),
             n_bounded, solver_time, time.time() - t0))
    if a.verbose:
        for fn in functions:
            print('   %-60s paths=%-4d obl=%-4d %s %.1fs' % (fn['harness'], fn['paths'], fn['obligations'], fn['status'], fn['wall_s']))
    if violations:
        sys.exit(1)
    if broken:
        sys.exit(3)
    if undecided:
        sys.exit(2)
    sys.exit(0)


if __name__ == '__main__':
    main()
