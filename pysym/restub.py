"""Assumed contract of `re` for the pattern subset supp uses on the cursor line:
a single-character class C given as an alternation / bracket class of literals and
\\s \\w \\d, used as   re.split('(C)', s)[-1]   or   re.search('C*$', s).group()   /
re.findall / re.match are not modelled.  Anything else -> EngineEscape (UNDECIDED).
str patterns are Unicode patterns: \\s and \\w are the ASCII sets plus uninterpreted predicates of the non-ASCII code points
(pysym/strings.py: is_space_char, is_ident_char)."""
import re as _re

import z3

from . import core
from .core import EngineEscape
from .strings import SStr, is_s, Int

WS_ASCII = (9, 10, 11, 12, 13, 28, 29, 30, 31, 32)


def _atom(p, i):
    """parse one single-character atom at p[i:]; returns (predicate builder, next index)"""
    c = p[i]
    if c == '\\':
        d = p[i + 1]
        if d == 's':
            from .strings import is_space_char
            return is_space_char, i + 2
        if d == 'w':
            # str patterns are Unicode patterns: \w is [A-Za-z0-9_] plus the non-ASCII word characters (same predicate as the spec's)
            from .strings import is_ident_char
            return is_ident_char, i + 2
        if d == 'd':
            return (lambda t: z3.And(t >= 48, t <= 57)), i + 2
        if d in '.()[]{}|*+?^$\\-':
            return (lambda t, d=d: t == ord(d)), i + 2
        if d in 'tnrfv':
            # the escapes of single control characters mean in a pattern what they mean in a string literal
            return (lambda t, ch={'t': 9, 'n': 10, 'r': 13, 'f': 12, 'v': 11}[d]: t == ch), i + 2
        raise EngineEscape('regex escape \\%s' % d)
    if c == '[':
        j = i + 1
        neg = p[j] == '^'
        if neg:
            j += 1
        preds = []
        while p[j] != ']':
            if p[j] == '\\':
                f, j = _atom(p, j)
                preds.append(f)
            elif j + 2 < len(p) and p[j + 1] == '-' and p[j + 2] != ']':
                lo, hi = ord(p[j]), ord(p[j + 2])
                preds.append(lambda t, lo=lo, hi=hi: z3.And(t >= lo, t <= hi))
                j += 3
            else:
                preds.append(lambda t, ch=p[j]: t == ord(ch))
                j += 1
        f = lambda t: z3.Or(*[q(t) for q in preds])
        if neg:
            return (lambda t: z3.Not(f(t))), j + 1
        return f, j + 1
    if c in '.^$*+?(){}|':
        raise EngineEscape('regex metacharacter %r where a single-character atom is expected' % c)
    return (lambda t: t == ord(c)), i + 1


def char_class(p):
    """pattern that matches exactly one character: atom ( '|' atom )*"""
    preds = []
    i = 0
    while True:
        f, i = _atom(p, i)
        preds.append(f)
        if i == len(p):
            break
        if p[i] != '|':
            raise EngineEscape('regex %r is not a single-character class' % p)
        i += 1
    return lambda t: z3.Or(*[q(t) for q in preds])


class SplitResult(object):
    def __init__(self, s, cls):
        self.s, self.cls = s, cls

    def __getitem__(self, k):
        if k != -1:
            raise EngineEscape('only the last piece of re.split is modelled')
        s, cls = self.s, self.cls
        if type(s) is str:
            raise EngineEscape('re.split on a concrete string: use the real re')
        n = s.n()
        i = core.fresh('split', Int)
        j = core.fresh('sj', Int)
        core.assume(z3.And(i >= 0, i <= n, z3.Or(i == 0, cls(s.at(i - 1)))))
        core.axiom(z3.ForAll([j], z3.Implies(z3.And(j >= s.lo + i, j < s.hi), z3.Not(cls(s.base.ch(j))))))
        return SStr(s.base, z3.simplify(s.lo + i), s.hi)


class MatchSuffix(object):
    def __init__(self, s, i):
        self.s, self.i = s, i

    def group(self, g=0):
        if g != 0:
            raise EngineEscape('group(%r)' % g)
        return SStr(self.s.base, z3.simplify(self.s.lo + self.i), self.s.hi)

    def start(self, g=0):
        from .proxies import SInt
        return SInt(self.i)


class ReStub(object):
    error = _re.error
    UNICODE = _re.UNICODE
    ASCII = _re.ASCII

    def __init__(self):
        core.RUN.trust('re: single-character-class patterns translated from the literal pattern text '
                       '(literals, classes, \\s \\w \\d, alternation, C*$); non-ASCII members of \\w / \\s are uninterpreted predicates, '
                       '\\w assumed to coincide with the characters that may continue a Python identifier')

    def split(self, pattern, s, *a, **k):
        if type(pattern) is not str or a or k:
            raise EngineEscape('re.split arguments')
        if not is_s(s):
            return _re.split(pattern, s)
        p = pattern
        if not (p.startswith('(') and p.endswith(')')):
            raise EngineEscape('re.split pattern %r: only a captured single-character class is modelled' % p)
        return SplitResult(s, char_class(p[1:-1]))

    def search(self, pattern, s, *a, **k):
        if type(pattern) is not str or a or k:
            raise EngineEscape('re.search arguments')
        if not is_s(s):
            return _re.search(pattern, s)
        if not pattern.endswith('*$'):
            raise EngineEscape('re.search pattern %r: only C*$ is modelled' % pattern)
        body = pattern[:-2]
        if body.startswith('(') and body.endswith(')'):
            body = body[1:-1]
            if body.startswith('?:'):
                body = body[2:]
        cls = char_class(body)
        n = s.n()
        i = core.fresh('sfx', Int)
        j = core.fresh('xj', Int)
        core.assume(z3.And(i >= 0, i <= n, z3.Or(i == 0, z3.Not(cls(s.at(i - 1))))))
        core.axiom(z3.ForAll([j], z3.Implies(z3.And(j >= s.lo + i, j < s.hi), cls(s.base.ch(j)))))
        return MatchSuffix(s, i)

    def compile(self, pattern, flags=0):
        if type(pattern) is not str or flags:
            raise EngineEscape('re.compile(%r, %r)' % (pattern, flags))
        return CompiledStub(self, pattern)


class CompiledStub(object):
    """re.compile(p): p.search(s) / p.split(s) are re.search(p, s) / re.split(p, s)"""
    def __init__(self, stub, pattern):
        self.stub, self.pattern = stub, pattern

    def search(self, s, *a, **k):
        return self.stub.search(self.pattern, s, *a, **k)

    def split(self, s, *a, **k):
        return self.stub.split(self.pattern, s, *a, **k)
