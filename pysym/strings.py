"""SStr: Python `str` by index.  A string is a view [lo, hi) of a base = (length n,
uninterpreted char function Int -> Int of code points).  Slices are views; operations
that build new content (concatenation, join) introduce a fresh base with quantified
defining axioms (kept in path.axioms, used only when discharging).  Searches
(find / rfind / in / partition / strip) fork on the outcome and record the
index-quantified facts the documented semantics gives.
"""
import z3

from . import core
from .core import EngineEscape
from .proxies import Proxy, SInt, SBool, lift

Int = z3.IntSort()
_n = [0]


class Base(object):
    def __init__(self, name, n=None, ch=None):
        self.name = name
        self.ch = ch if ch is not None else z3.Function(name, Int, Int)
        self.n = n if n is not None else z3.Int(name + '.len')


def fresh_base(prefix):
    _n[0] += 1
    return Base('%s!s%d' % (prefix, _n[0]))


def is_s(x):
    return isinstance(x, SStr)


def is_str(x):
    return isinstance(x, SStr) or type(x) is str


class SStr(Proxy):
    _pyclass = str

    def __init__(self, base, lo=None, hi=None):
        self.base = base
        self.lo = z3.IntVal(0) if lo is None else lo
        self.hi = base.n if hi is None else hi

    @staticmethod
    def sym(name):
        """an arbitrary string (length >= 0 assumed)"""
        b = Base(name)
        core.assume(b.n >= 0)
        return SStr(b)

    # -- primitive observations ------------------------------------------
    def n(self):
        return z3.simplify(self.hi - self.lo)

    def at(self, i):
        """code point at view index i (Int term or int)"""
        return self.base.ch(z3.simplify(self.lo + lift(i)))

    def slen(self):
        return SInt(self.n())

    def sbool(self):
        return SBool(self.n() > 0)

    def __bool__(self):
        return core.CUR.branch(self.n() > 0)

    def __repr__(self):
        return '<SStr %s[%s:%s]>' % (self.base.name, self.lo, self.hi)

    # -- slicing / indexing -----------------------------------------------
    def _clip(self, i, default):
        """Python slice bound -> view offset in [0, n] (forks on sign / overflow)"""
        if i is None:
            return default
        t = lift(i)
        n = self.n()
        if core.CUR.branch(t < 0):
            t = t + n
            if core.CUR.branch(t < 0):
                return z3.IntVal(0)
            return z3.simplify(t)
        if core.CUR.branch(t > n):
            return n
        return z3.simplify(t)

    def __getitem__(self, k):
        if isinstance(k, slice):
            if k.step not in (None, 1):
                raise EngineEscape('slice step')
            a = self._clip(k.start, z3.IntVal(0))
            b = self._clip(k.stop, self.n())
            if core.CUR.branch(b < a):
                b = a
            return SStr(self.base, z3.simplify(self.lo + a), z3.simplify(self.lo + b))
        t = lift(k)
        n = self.n()
        if core.CUR.branch(t < 0):
            t = t + n
        if not core.CUR.branch(z3.And(t >= 0, t < n)):
            raise IndexError('string index out of range')
        return SStr(self.base, z3.simplify(self.lo + t), z3.simplify(self.lo + t + 1))

    # -- equality ------------------------------------------------------------
    def eq_term(self, o):
        """z3 Bool: same content (quantified when neither side is a literal)"""
        if type(o) is str:
            return z3.And(self.n() == len(o), *[self.at(i) == ord(c) for i, c in enumerate(o)])
        if not is_s(o):
            return z3.BoolVal(False)
        if o.base is self.base and z3.eq(z3.simplify(o.lo), z3.simplify(self.lo)):
            return self.n() == o.n()
        k = core.fresh('eqk', Int)
        return z3.And(self.n() == o.n(),
                      z3.ForAll([k], z3.Implies(z3.And(k >= self.lo, k < self.hi), self.base.ch(k) == o.base.ch(k - self.lo + o.lo))))

    def __eq__(self, o):
        if not is_str(o):
            return False
        if type(o) is str:
            return SBool(self.eq_term(o))
        # symbolic == symbolic: decide through a fork with index witness
        return SBool(self._eq_fork(o))

    def _eq_fork(self, o):
        if o.base is self.base and z3.eq(z3.simplify(o.lo), z3.simplify(self.lo)):
            return self.n() == o.n()
        if core.choice(2) == 0:
            k = core.fresh('eqk', Int)
            core.axiom(z3.ForAll([k], z3.Implies(z3.And(k >= self.lo, k < self.hi), self.base.ch(k) == o.base.ch(k - self.lo + o.lo))))
            core.axiom(z3.ForAll([k], z3.Implies(z3.And(k >= o.lo, k < o.hi), o.base.ch(k) == self.base.ch(k - o.lo + self.lo))))
            core.assume(self.n() == o.n())
            return z3.BoolVal(True)
        w = core.fresh('neqw', Int)
        core.assume(z3.Or(self.n() != o.n(), z3.And(w >= 0, w < self.n(), self.at(w) != o.at(w))))
        return z3.BoolVal(False)

    def __ne__(self, o):
        r = self.__eq__(o)
        if isinstance(r, SBool):
            return SBool(z3.Not(r.t))
        return not r

    # -- matching helpers ------------------------------------------------------
    # Quantified facts always range over ABSOLUTE base indices J, so that their patterns are
    # ch(J) and E-matching fires on every character term of the base.
    def match_abs(self, J, needle):
        ch = self.base.ch
        if type(needle) is str:
            return z3.And(*[ch(J + i) == ord(c) for i, c in enumerate(needle)]) if needle else z3.BoolVal(True)
        k = core.fresh('mk', Int)
        return z3.ForAll([k], z3.Implies(z3.And(k >= needle.lo, k < needle.hi), ch(J + k - needle.lo) == needle.base.ch(k)))

    def match_at(self, j, needle):
        """z3 Bool: needle occurs at view index j (needle: str or SStr)"""
        if type(needle) is str:
            return z3.And(*[self.at(j + i) == ord(c) for i, c in enumerate(needle)]) if needle else z3.BoolVal(True)
        k = core.fresh('mk', Int)
        return z3.ForAll([k], z3.Implies(z3.And(k >= 0, k < needle.n()), self.at(j + k) == needle.at(k)))

    @staticmethod
    def nlen(needle):
        return z3.IntVal(len(needle)) if type(needle) is str else needle.n()

    def startswith(self, p):
        if not is_str(p):
            raise EngineEscape('startswith(%r)' % (p,))
        if type(p) is not str:
            raise EngineEscape('startswith of a symbolic prefix')
        return SBool(z3.And(self.n() >= len(p), self.match_at(0, p)))

    def endswith(self, p):
        if type(p) is not str:
            raise EngineEscape('endswith of a symbolic suffix')
        return SBool(z3.And(self.n() >= len(p), self.match_at(self.n() - len(p), p)))

    def _range(self, start, end):
        n = self.n()
        a = self._clip(start, z3.IntVal(0))
        b = self._clip(end, n)
        return a, b

    def find(self, needle, start=None, end=None):
        """documented semantics: lowest index in [start, end-len] where needle occurs, else -1"""
        if not is_str(needle):
            raise TypeError('must be str')
        a, b = self._range(start, end)
        m = self.nlen(needle)
        j = core.fresh('fj', Int)
        if core.choice(2) == 0:
            r = core.fresh('find', Int)
            core.assume(z3.And(r >= a, r + m <= b))
            if type(needle) is str:
                core.assume(self.match_at(r, needle))
            else:
                core.axiom(self.match_at(r, needle))
            core.axiom(z3.ForAll([j], z3.Implies(z3.And(j >= self.lo + a, j < self.lo + r), z3.Not(self.match_abs(j, needle)))))
            return SInt(r)
        core.axiom(z3.ForAll([j], z3.Implies(z3.And(j >= self.lo + a, j + m <= self.lo + b), z3.Not(self.match_abs(j, needle)))))
        return -1

    def rfind(self, needle, start=None, end=None):
        if not is_str(needle):
            raise TypeError('must be str')
        a, b = self._range(start, end)
        m = self.nlen(needle)
        j = core.fresh('rj', Int)
        if core.choice(2) == 0:
            r = core.fresh('rfind', Int)
            core.assume(z3.And(r >= a, r + m <= b))
            if type(needle) is str:
                core.assume(self.match_at(r, needle))
            else:
                core.axiom(self.match_at(r, needle))
            core.axiom(z3.ForAll([j], z3.Implies(z3.And(j > self.lo + r, j + m <= self.lo + b), z3.Not(self.match_abs(j, needle)))))
            return SInt(r)
        core.axiom(z3.ForAll([j], z3.Implies(z3.And(j >= self.lo + a, j + m <= self.lo + b), z3.Not(self.match_abs(j, needle)))))
        return -1

    def contains(self, needle):
        r = self.find(needle)
        return not (type(r) is int and r == -1)

    def __contains__(self, needle):
        r = self.find(needle)
        return not (type(r) is int and r == -1)

    def count_char(self, c, start, end):
        """count of a single character in [start, end): an uninterpreted prefix-count function
        cnt(k) = number of c in [0, k) with its recursive definition as axiom"""
        if type(c) is not str or len(c) != 1:
            raise EngineEscape('count of a non-single-character needle')
        a, b = self._range(start, end)
        cnt = z3.Function('cnt_%d_%s' % (ord(c), self.base.name), Int, Int)
        k = core.fresh('ck', Int)
        core.axiom(z3.And(cnt(0) == 0, z3.ForAll([k], z3.Implies(k >= 0, cnt(k + 1) == cnt(k) + z3.If(self.base.ch(k) == ord(c), 1, 0)),
                                                 patterns=[cnt(k + 1)])))
        self.base.cnt = getattr(self.base, 'cnt', {})
        self.base.cnt[c] = cnt
        return SInt(cnt(self.lo + b) - cnt(self.lo + a))

    def count(self, c, start=None, end=None):
        return self.count_char(c, start, end)

    # -- partition family --------------------------------------------------------
    def rpartition(self, sep):
        if type(sep) is not str or not sep:
            raise EngineEscape('rpartition by a symbolic separator')
        r = self.rfind(sep)
        if type(r) is int:
            return ('', '', self)
        return (SStr(self.base, self.lo, z3.simplify(self.lo + r.t)), sep,
                SStr(self.base, z3.simplify(self.lo + r.t + len(sep)), self.hi))

    def partition(self, sep):
        if type(sep) is not str or not sep:
            raise EngineEscape('partition by a symbolic separator')
        r = self.find(sep)
        if type(r) is int:
            return (self, '', '')
        return (SStr(self.base, self.lo, z3.simplify(self.lo + r.t)), sep,
                SStr(self.base, z3.simplify(self.lo + r.t + len(sep)), self.hi))

    # -- strip family ---------------------------------------------------------------
    WS = (9, 10, 11, 12, 13, 28, 29, 30, 31, 32, 133, 160)

    @classmethod
    def in_set(cls, ct, chars):
        if chars is None:
            return is_space_char(ct)
        return z3.Or(*[ct == ord(c) for c in chars]) if chars else z3.BoolVal(False)

    def lstrip(self, chars=None):
        if chars is not None and type(chars) is not str:
            raise EngineEscape('lstrip of symbolic chars')
        i = core.fresh('ls', Int)
        j = core.fresh('lj', Int)
        n = self.n()
        core.assume(z3.And(i >= 0, i <= n, z3.Or(i == n, z3.Not(self.in_set(self.at(i), chars)))))
        core.axiom(z3.ForAll([j], z3.Implies(z3.And(j >= self.lo, j < self.lo + i), self.in_set(self.base.ch(j), chars))))
        return SStr(self.base, z3.simplify(self.lo + i), self.hi)

    def rstrip(self, chars=None):
        if chars is not None and type(chars) is not str:
            raise EngineEscape('rstrip of symbolic chars')
        i = core.fresh('rs', Int)
        j = core.fresh('rj', Int)
        n = self.n()
        core.assume(z3.And(i >= 0, i <= n, z3.Or(i == 0, z3.Not(self.in_set(self.at(i - 1), chars)))))
        core.axiom(z3.ForAll([j], z3.Implies(z3.And(j >= self.lo + i, j < self.hi), self.in_set(self.base.ch(j), chars))))
        return SStr(self.base, self.lo, z3.simplify(self.lo + i))

    def strip(self, chars=None):
        return self.lstrip(chars).rstrip(chars)

    # -- building --------------------------------------------------------------------
    def __add__(self, o):
        if not is_str(o):
            return NotImplemented
        return concat([self, o])

    def __radd__(self, o):
        if not is_str(o):
            return NotImplemented
        return concat([o, self])


def concat(parts):
    """fresh base whose content is the concatenation (defining axioms quantified per part)"""
    parts = [p for p in parts if not (type(p) is str and p == '')]
    if len(parts) == 1 and is_s(parts[0]):
        return parts[0]
    if all(type(p) is str for p in parts):
        return ''.join(parts)
    b = fresh_base('cat')
    off = z3.IntVal(0)
    k = core.fresh('ck', Int)
    for p in parts:
        if type(p) is str:
            for i, c in enumerate(p):
                core.assume(b.ch(z3.simplify(off + i)) == ord(c))
            off = z3.simplify(off + len(p))
        else:
            core.axiom(z3.ForAll([k], z3.Implies(z3.And(k >= p.lo, k < p.hi), b.ch(off + k - p.lo) == p.base.ch(k))))
            core.axiom(z3.ForAll([k], z3.Implies(z3.And(k >= off, k < off + p.n()), b.ch(k) == p.base.ch(k - off + p.lo))))
            off = z3.simplify(off + p.n())
    core.assume(b.n == off)
    r = SStr(b)
    r.parts = [(p) for p in parts]
    return r


# character classes -----------------------------------------------------------------
uni_word = z3.Function('non_ascii_word_char', Int, z3.BoolSort())
_uni_space = z3.Function('non_ascii_space_char', Int, z3.BoolSort())
WS_ASCII = (9, 10, 11, 12, 13, 28, 29, 30, 31, 32)


def uni_space(ct):
    return z3.And(_uni_space(ct), z3.Not(uni_word(ct)))      # no code point is both whitespace and a word character


def is_space_char(ct):
    """str.isspace() / the regex class \\s of a str pattern: the ASCII set and, uninterpreted, the non-ASCII whitespace"""
    return z3.Or(*([ct == w for w in WS_ASCII] + [z3.And(ct >= 128, uni_space(ct))]))


def is_ident_char(ct):
    """identifier characters: [A-Za-z0-9_], and for a non-ASCII code point an uninterpreted predicate (the letters / digits of
    Unicode).  Assumed: for non-ASCII code points the regex class \\w and "may continue a Python identifier" are the same set."""
    return z3.Or(z3.And(ct >= 48, ct <= 57), z3.And(ct >= 65, ct <= 90), z3.And(ct >= 97, ct <= 122), ct == 95,
                 z3.And(ct >= 128, uni_word(ct)))


def is_code_point(ct):
    return z3.And(ct >= 0, ct < 0x110000)


def is_ascii(ct):
    return z3.And(ct >= 0, ct < 128)


# builtin models --------------------------------------------------------------------
def m_str_len(x):
    return x.slen()


class Formatted(Proxy):
    """result of '<literal>'.format(proxies): an opaque message text (never inspected by contracts)"""
    _pyclass = str

    def __init__(self, fmt, args):
        self.fmt, self.args = fmt, args
