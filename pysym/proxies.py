"""Proxy values.  Rules (DESIGN 1.2): no silent concretisation — every dunder
through which CPython could turn a proxy into a concrete value raises
EngineEscape; proxies are unhashable."""
import z3

from . import core
from .core import EngineEscape

B8 = z3.BitVecSort(8)
Int = z3.IntSort()


def proxy_class_names():
    out = set()
    def rec(c):
        out.add(c.__name__)
        for k in c.__subclasses__():
            rec(k)
    rec(Proxy)
    return out


def _esc(what):
    def f(self, *a, **k):
        raise EngineEscape('%s on %s' % (what, type(self).__name__))
    return f


class Proxy(object):
    __hash__ = None

    # the REAL builtin isinstance() falls back to obj.__class__ when type(obj) does not
    # match, so code that runs outside a namespace copy (real classes of other modules)
    # still sees an SInt as an int, an SBytes as bytes, ...
    @property
    def __class__(self):
        return getattr(type(self), '_pyclass', None) or self.__dict__.get('_pyclass') or type(self)

    __index__ = _esc('__index__')
    __int__ = _esc('__int__')
    __len__ = _esc('__len__ (use the len model)')
    __iter__ = _esc('__iter__')
    __str__ = _esc('__str__')
    __format__ = _esc('__format__')
    __bytes__ = _esc('__bytes__')
    __contains__ = _esc('__contains__')
    __float__ = _esc('__float__')

    def __repr__(self):
        return '<%s %s>' % (type(self).__name__, getattr(self, 't', ''))


class SBool(Proxy):
    def __init__(self, t):
        self.t = t

    def __bool__(self):
        return core.CUR.branch(self.t)

    def __and__(self, o):
        return SBool(z3.And(self.t, lbool(o)))

    def __or__(self, o):
        return SBool(z3.Or(self.t, lbool(o)))

    def __invert__(self):
        return SBool(z3.Not(self.t))

    def __eq__(self, o):
        return SBool(self.t == lbool(o))


def lbool(x):
    if isinstance(x, SBool):
        return x.t
    if type(x) is bool:
        return z3.BoolVal(x)
    if z3.is_expr(x):
        return x
    raise EngineEscape('lbool %r' % (x,))


def lift(x):
    """Python int / SInt -> z3 Int term"""
    if isinstance(x, SInt):
        return x.t
    if type(x) is bool:
        return z3.IntVal(int(x))
    if type(x) is int:
        return z3.IntVal(x)
    if z3.is_expr(x) and x.sort() == Int:
        return x
    raise EngineEscape('lift %r' % (x,))


def _liftable(x):
    return isinstance(x, SInt) or type(x) in (int, bool)


def _width_for(t, cands=(8, 16, 32, 64)):
    """smallest W with pc => 0 <= t < 2**W (proved here; EngineEscape if none)"""
    p = core.CUR
    for w in cands:
        if not p.feasible(z3.Not(z3.And(t >= 0, t < 2 ** w))):
            return w
    raise EngineEscape('bit operation on an integer not provably in [0, 2**64)')


class SInt(Proxy):
    def __init__(self, t):
        self.t = t

    def _cmp(op):
        def f(self, o):
            if not _liftable(o):
                return NotImplemented
            return SBool(op(self.t, lift(o)))
        return f
    __lt__ = _cmp(lambda a, b: a < b)
    __le__ = _cmp(lambda a, b: a <= b)
    __gt__ = _cmp(lambda a, b: a > b)
    __ge__ = _cmp(lambda a, b: a >= b)

    def __eq__(self, o):
        if not _liftable(o):
            return False
        return SBool(self.t == lift(o))

    def __ne__(self, o):
        if not _liftable(o):
            return True
        return SBool(self.t != lift(o))

    def _arith(op, swap=False):
        def f(self, o):
            if not _liftable(o):
                return NotImplemented
            a, b = self.t, lift(o)
            if swap:
                a, b = b, a
            return SInt(z3.simplify(op(a, b)))
        return f
    __add__ = _arith(lambda a, b: a + b)
    __radd__ = _arith(lambda a, b: a + b, True)
    __sub__ = _arith(lambda a, b: a - b)
    __rsub__ = _arith(lambda a, b: a - b, True)
    __mul__ = _arith(lambda a, b: a * b)
    __rmul__ = _arith(lambda a, b: a * b, True)

    def __neg__(self):
        return SInt(-self.t)

    def __pos__(self):
        return self

    def __floordiv__(self, o):
        if type(o) is int and o > 0:
            return SInt(self.t / o)      # z3 Int division with positive divisor == floor division
        raise EngineEscape('// by non-constant or non-positive')

    def __mod__(self, o):
        if type(o) is int and o > 0:
            return SInt(self.t % o)
        raise EngineEscape('% by non-constant or non-positive')

    def __and__(self, o):
        if type(o) is int:
            if o >= 0:
                if o & (o + 1) == 0:                       # 2**k - 1
                    return SInt(self.t % (o + 1))
                w = o.bit_length()
                # low w bits of the infinite two's complement of x are x mod 2**w
                return SInt(z3.BV2Int(z3.Int2BV(self.t, w) & z3.BitVecVal(o, w)))
            # negative mask: x & m == x - (x & ~m)
            r = self & (~o)
            return SInt(self.t - r.t)
        if isinstance(o, SInt):
            w = max(_width_for(self.t), _width_for(o.t))
            return SInt(z3.BV2Int(z3.Int2BV(self.t, w) & z3.Int2BV(o.t, w)))
        return NotImplemented
    __rand__ = __and__

    def __or__(self, o):
        if not _liftable(o):
            return NotImplemented
        ot = lift(o)
        w = _width_for(self.t)
        if type(o) is int:
            if o < 0:
                raise EngineEscape('| with negative constant')
            w = max(w, o.bit_length())
        else:
            w = max(w, _width_for(ot))
        return SInt(z3.BV2Int(z3.Int2BV(self.t, w) | z3.Int2BV(ot, w)))
    __ror__ = __or__

    def __xor__(self, o):
        raise EngineEscape('^')

    def __lshift__(self, o):
        if type(o) is int and o >= 0:
            return SInt(self.t * (2 ** o))
        raise EngineEscape('<< by non-constant')

    def __rshift__(self, o):
        if type(o) is int and o >= 0:
            return SInt(self.t / (2 ** o))
        raise EngineEscape('>> by non-constant')

    def __bool__(self):
        return core.CUR.branch(self.t != 0)


BlobSort = z3.DeclareSort('Blob')
blob_byte = z3.Function('blob_byte', BlobSort, Int, B8)        # content of an opaque blob
slice_of = z3.Function('slice', BlobSort, Int, Int, BlobSort)  # slice(b, start, len)


def lit(c):
    return ('b', z3.BitVecVal(c, 8) if type(c) is int else c)


def blob(idt, length):
    return ('blob', idt, z3.IntVal(length) if type(length) is int else length)


def chunks_of(x):
    """bytes / SBytes / chunk tuple -> chunk tuple"""
    if isinstance(x, SBytes):
        return x.chunks
    if type(x) in (bytes, bytearray):
        return tuple(lit(c) for c in bytes(x))
    if isinstance(x, tuple):
        return x
    raise EngineEscape('not a bytes value: %r' % (x,))


lb = chunks_of


def cat(*xs):
    out = []
    for x in xs:
        out.extend(chunks_of(x))
    return tuple(out)


def chunks_len(ch):
    n = 0
    t = []
    for c in ch:
        if c[0] == 'b':
            n += 1
        elif c[0] == 'rep':
            t.append(REP[c[1]][1](c[2]))
        else:
            t.append(c[2])
    r = z3.IntVal(n)
    for x in t:
        r = r + x
    return z3.simplify(r)


REP = {}     # key -> (elems(j) -> chunk tuple, total_len(k) -> Int term): "concatenation of elems(j) for j < k"


def rep(key, k):
    return ('rep', key, z3.simplify(k if z3.is_expr(k) else z3.IntVal(k)))


def _chunk_same(x, y):
    if x[0] != y[0]:
        return False
    if x[0] == 'b':
        return z3.simplify(x[1]).eq(z3.simplify(y[1]))
    if x[0] == 'blob':
        return z3.simplify(x[1]).eq(z3.simplify(y[1])) and z3.simplify(x[2]).eq(z3.simplify(y[2]))
    return x[1] == y[1] and x[2].eq(y[2])


def byte_of_blob(idt, i):
    """BV8 term of byte i of a blob; slices are resolved to the blob they are cut from"""
    i = z3.IntVal(i) if type(i) is int else i
    while z3.is_app(idt) and idt.decl().eq(slice_of):
        i = z3.simplify(idt.arg(1) + i)
        idt = idt.arg(0)
    return blob_byte(idt, i)


def norm_chunks(ch):
    """drop empty chunks; expand blobs of small concrete length into their bytes; fold
    rep(key,k) ++ elems(k)  into  rep(key,k+1)  (definition of rep)"""
    out = []
    ch = list(ch)
    i = 0
    while i < len(ch):
        c = ch[i]
        if c[0] == 'blob' and z3.is_int_value(z3.simplify(c[2])):
            n = z3.simplify(c[2]).as_long()
            if n <= 16:
                out.extend(lit(byte_of_blob(c[1], j)) for j in range(n))
                i += 1
                continue
        if c[0] == 'rep' and z3.is_int_value(c[2]) and c[2].as_long() == 0:
            i += 1
            continue
        out.append(c)
        i += 1
    changed = True
    while changed:
        changed = False
        for i, c in enumerate(out):
            if c[0] == 'rep':
                el = REP[c[1]][0](c[2])
                nxt = out[i + 1:i + 1 + len(el)]
                if len(nxt) == len(el) and all(_chunk_same(a, b) for a, b in zip(nxt, el)):
                    out[i:i + 1 + len(el)] = [rep(c[1], c[2] + 1)]
                    changed = True
                    break
    return tuple(out)


def _kind(c):
    return c[0] if c[0] != 'rep' else 'rep:%s' % (c[1],)


def beq(a, b):
    """equality of two byte strings given as chunk lists.  Returns a z3 Bool when
    the shapes (literal byte / opaque blob / repetition sequence) agree, None when
    they do not (then equality is not expressible structurally)."""
    a, b = norm_chunks(chunks_of(a)), norm_chunks(chunks_of(b))
    if [_kind(c) for c in a] != [_kind(c) for c in b]:
        return None
    cs = []
    for x, y in zip(a, b):
        if x[0] == 'b':
            cs.append(x[1] == y[1])
        elif x[0] == 'blob':
            cs.append(z3.And(x[1] == y[1], x[2] == y[2]))
        else:
            cs.append(x[2] == y[2])
    return z3.And(*cs) if cs else z3.BoolVal(True)


def mk_bytes(ch):
    """a bytes value: concrete `bytes` if every chunk is a constant byte, else SBytes"""
    ch = norm_chunks(chunks_of(ch))
    out = []
    for c in ch:
        if c[0] != 'b':
            return SBytes(ch)
        v = z3.simplify(c[1])
        if not z3.is_bv_value(v):
            return SBytes(ch)
        out.append(v.as_long())
    return bytes(out)


class SBytes(Proxy):
    """an immutable `bytes` value: a sequence of chunks, each one byte (BV8 term) or
    an opaque blob (identity term of sort Blob + length term)"""
    _pyclass = bytes

    def __init__(self, chunks):
        self.chunks = tuple(chunks)

    def __repr__(self):
        return '<SBytes %d chunks>' % len(self.chunks)

    def __add__(self, o):
        if not (isinstance(o, SBytes) or type(o) is bytes):
            return NotImplemented
        return mk_bytes(cat(self, o))

    def __radd__(self, o):
        if not (isinstance(o, SBytes) or type(o) is bytes):
            return NotImplemented
        return mk_bytes(cat(o, self))

    def _eq(self, o):
        r = beq(self, o)
        if r is None:
            # different shapes: decided only when the lengths provably differ
            la, lo = chunks_len(self.chunks), chunks_len(chunks_of(o))
            if not core.CUR.feasible(la == lo):
                return z3.BoolVal(False)
            raise EngineEscape('comparison of byte strings of different shapes')
        return r

    def __eq__(self, o):
        if not (isinstance(o, SBytes) or type(o) is bytes):
            return False
        return SBool(self._eq(o))

    def __ne__(self, o):
        if not (isinstance(o, SBytes) or type(o) is bytes):
            return True
        return SBool(z3.Not(self._eq(o)))

    def slen(self):
        return SInt(chunks_len(self.chunks))

    def _split(self, a):
        """(first a bytes, the rest) for a concrete a >= 0; forks when a blob of symbolic length is cut"""
        first, rest = [], list(norm_chunks(self.chunks))
        need = a
        while need > 0 and rest:
            c = rest[0]
            if c[0] == 'b':
                first.append(c)
                rest.pop(0)
                need -= 1
                continue
            if c[0] != 'blob':
                raise EngineEscape('slice through a repetition chunk')
            n = z3.simplify(c[2])
            if core.CUR.branch(n >= need):
                first.extend(lit(byte_of_blob(c[1], j)) for j in range(need))
                rest[0] = blob(slice_of(c[1], z3.IntVal(need), z3.simplify(n - need)), z3.simplify(n - need))
                need = 0
            else:
                # the blob is shorter than what is asked for: it goes to `first` entirely
                if len(rest) > 1:
                    raise EngineEscape('slice across a short blob followed by more data')
                first.append(c)
                rest.pop(0)
                need = 0
        return tuple(first), tuple(rest)

    def __getitem__(self, k):
        if isinstance(k, slice):
            if k.step not in (None, 1):
                raise EngineEscape('bytes slice step')
            a = 0 if k.start is None else k.start
            if type(a) is not int or a < 0 or (k.stop is not None and (type(k.stop) is not int or k.stop < a)):
                raise EngineEscape('bytes slice with symbolic or negative bounds')
            _, rest = self._split(a)
            if k.stop is None:
                return mk_bytes(rest)
            first, _ = SBytes(rest)._split(k.stop - a)
            return mk_bytes(first)
        raise EngineEscape('bytes indexing')

    def byte_at(self, i):
        """BV8 term of byte i (concrete i); valid when i < len"""
        off = 0
        for c in self.chunks:
            if c[0] == 'b':
                if off == i:
                    return c[1]
                off += 1
            else:
                ln = z3.simplify(c[2])
                if z3.is_int_value(ln):
                    if i < off + ln.as_long():
                        return byte_of_blob(c[1], i - off)
                    off += ln.as_long()
                else:
                    # symbolic-length blob: only its own bytes can be addressed if it is the last chunk reached
                    return byte_of_blob(c[1], i - off)
        raise EngineEscape('byte_at(%d) beyond the shape' % i)

    def sord(self):
        core.prove('ord-arg-length-1', chunks_len(self.chunks) == 1, kind='pre')
        return SInt(z3.BV2Int(self.byte_at(0)))


BV_ALIAS = {}    # (ast id of an Int term, width) -> BV constant standing for Int2BV(term, width) (spec lemmas only)


def be(t, n):
    """big-endian n-byte two's-complement image of Int term t: n literal chunks"""
    t = z3.IntVal(t) if type(t) is int else t
    bv = BV_ALIAS.get((t.get_id(), 8 * n))
    if bv is None:
        bv = z3.Int2BV(t, 8 * n)
    return tuple(lit(z3.simplify(z3.Extract(8 * (n - 1 - i) + 7, 8 * (n - 1 - i), bv))) for i in range(n))


def be_val(bvs, signed):
    """Int value of a list of BV8 terms (big endian)"""
    bv = bvs[0] if len(bvs) == 1 else z3.Concat(*bvs)
    return z3.BV2Int(bv, is_signed=signed)


# ---------------------------------------------------------------------------
# builtin models (installed into the namespace copy the function runs in)

import builtins as _b


def m_len(x):
    if hasattr(x, 'slen'):
        return x.slen()
    if isinstance(x, Proxy):
        raise EngineEscape('len of %s' % type(x).__name__)
    return _b.len(x)


def m_ord(x):
    if hasattr(x, 'sord'):
        return x.sord()
    return _b.ord(x)


def m_isinstance(x, cls):
    pc = getattr(x, '_pyclass', None)
    if pc is not None:
        if isinstance(cls, tuple):
            return any(issubclass(pc, c) for c in cls)
        return issubclass(pc, cls)
    if isinstance(x, Proxy) and not hasattr(x, '_isinstance'):
        raise EngineEscape('isinstance on %s' % type(x).__name__)
    if hasattr(x, '_isinstance'):
        return x._isinstance(cls)
    return _b.isinstance(x, cls)


SInt._pyclass = int


def m_range(*a):
    if any(isinstance(x, Proxy) for x in a):
        raise EngineEscape('range over a symbolic bound must be cut by a loop invariant')
    return _b.range(*a)


def _pair(x):
    return type(x) is tuple and len(x) == 2 and all(isinstance(c, SInt) or type(c) is int for c in x)


def m_max(*a, **k):
    if not k and len(a) == 2 and _pair(a[0]) and _pair(a[1]) and any(isinstance(c, Proxy) for c in a[0] + a[1]):
        # lexicographic maximum of two (line, col) pairs, without forking
        (l1, c1), (l2, c2) = (lift(a[0][0]), lift(a[0][1])), (lift(a[1][0]), lift(a[1][1]))
        first_less = z3.Or(l1 < l2, z3.And(l1 == l2, c1 < c2))
        return (SInt(z3.If(first_less, l2, l1)), SInt(z3.If(first_less, c2, c1)))
    if k or len(a) < 2 or not any(isinstance(x, Proxy) for x in a):
        return _b.max(*a, **k)
    r = a[0]
    for x in a[1:]:
        if x > r:
            r = x
    return r


def m_min(*a, **k):
    if k or len(a) < 2 or not any(isinstance(x, Proxy) for x in a):
        return _b.min(*a, **k)
    r = a[0]
    for x in a[1:]:
        if x < r:
            r = x
    return r


def m_bool(x=False):
    if isinstance(x, SBool):
        return x
    if isinstance(x, SInt):
        return SBool(x.t != 0)
    if isinstance(x, Proxy):
        if hasattr(x, 'sbool'):
            return x.sbool()
        raise EngineEscape('bool() of %s' % type(x).__name__)
    return _b.bool(x)


class _TypeModelMeta(type):
    def __instancecheck__(cls, x):
        return _b.isinstance(x, cls._real)

    def __subclasscheck__(cls, c):
        return _b.issubclass(c, cls._real)

    def __eq__(cls, o):
        return o is cls or o is cls._real

    def __hash__(cls):
        return hash(cls._real)


class BoolModel(metaclass=_TypeModelMeta):
    """stands for the builtin `bool` in a namespace copy: isinstance(x, bool) and bool(x)"""
    _real = _b.bool

    def __new__(cls, x=False):
        return m_bool(x)


def guard_builtin(name, f):
    def g(*a, **k):
        for x in list(a) + list(k.values()):
            if isinstance(x, Proxy):
                raise EngineEscape('builtin %s applied to %s has no model' % (name, type(x).__name__))
        return f(*a, **k)
    g.__name__ = name
    return g


MODELS = {'len': m_len, 'ord': m_ord, 'isinstance': m_isinstance, 'range': m_range, 'bool': BoolModel, 'max': m_max, 'min': m_min}
# builtins that are safe on proxies without a model (they only store / compare by identity / dispatch)
PASS = {'type', 'id', 'getattr', 'setattr', 'hasattr', 'callable', 'super', 'object', 'property',
        'staticmethod', 'classmethod', 'issubclass', 'print', '__build_class__', '__import__',
        'tuple', 'list', 'dict', 'set', 'frozenset', 'reversed', 'enumerate', 'zip', 'iter', 'next',
        'any', 'all', 'filter', 'map', 'vars', 'dir', 'globals', 'locals', 'slice'}


def guarded_builtins(extra=None):
    d = {}
    for k in dir(_b):
        v = getattr(_b, k)
        if k in MODELS:
            d[k] = MODELS[k]
        elif callable(v) and not isinstance(v, type) and k not in PASS:
            d[k] = guard_builtin(k, v)
        else:
            d[k] = v
    if extra:
        d.update(extra)
    return d
