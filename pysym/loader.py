"""Loading the code under verification from /repo, every run.

* a function without loops to cut is the REAL code object, re-bound to a copy of
  its module namespace in which builtins are guarded and the callees/libraries
  named by the harness are replaced by contract stubs;
* a function with a loop or comprehension to cut is re-read from the source file
  and rewritten mechanically (see `Cutter`): only `for`/`while` statements and
  comprehensions named by ordinal are replaced, everything else is verbatim and
  keeps its line numbers.  The list of rewritten nodes and the SHA-256 of the
  original source segment go into the evidence.
"""
import ast
import hashlib
import importlib
import inspect
import sys
import types

import z3

from . import core
from .core import EngineEscape, PathEnd
from . import proxies as P


class LoopContinue(BaseException):
    pass


class LoopBreak(BaseException):
    pass


class Undefined(object):
    """value of a loop-local temporary after a havoc: any use is an engine escape"""
    def __getattr__(self, n):
        raise EngineEscape('use of a loop temporary that the cut declared dead')
    __bool__ = __eq__ = __call__ = __iter__ = lambda self, *a: (_ for _ in ()).throw(
        EngineEscape('use of a loop temporary that the cut declared dead'))
    __hash__ = None


class Mutable(P.Proxy):
    """base of proxies with mutable state: version counter for the dynamic frame check"""
    _ver = 0
    _hav = None

    def touched(self):
        self._ver += 1


def _reachable_mutables(st):
    seen = {}
    def add(o, d):
        if isinstance(o, Mutable):
            seen[id(o)] = o
        elif isinstance(o, P.Proxy):
            pass
        elif d > 0:
            if isinstance(o, (list, tuple)):
                for x in o:
                    add(x, d - 1)
            elif isinstance(o, dict):
                for x in o.values():
                    add(x, d - 1)
            elif hasattr(o, '__dict__') and not isinstance(o, (type, types.ModuleType, types.FunctionType)):
                for x in vars(o).values():
                    add(x, d - 1)
    for v in st.values():
        add(v, 2)
    return list(seen.values())


def init_defaults(cls):
    """{attribute: value} for every `self.X = <literal>` of the __init__ methods along cls.__mro__ (constants, empty displays, set() / list() /
    dict() calls without arguments): what every instance starts with whatever the constructor is given"""
    out = {}
    for k in reversed(cls.__mro__):
        fn = k.__dict__.get('__init__')
        if not isinstance(fn, types.FunctionType):
            continue
        try:
            src = inspect.getsource(fn)
            import textwrap
            tree = ast.parse(textwrap.dedent(src))
        except (OSError, TypeError, SyntaxError):
            continue
        fdef = tree.body[0]
        if not fdef.args.args:
            continue
        me = fdef.args.args[0].arg
        for st in ast.walk(fdef):
            if isinstance(st, ast.Assign) and len(st.targets) == 1:
                t, v = st.targets[0], st.value
            elif isinstance(st, ast.AnnAssign) and st.value is not None:
                t, v = st.target, st.value
            else:
                continue
            if not (isinstance(t, ast.Attribute) and isinstance(t.value, ast.Name) and t.value.id == me):
                continue
            if isinstance(v, ast.Constant):
                out[t.attr] = ('const', v.value)
            elif isinstance(v, (ast.List, ast.Tuple)) and not v.elts:
                out[t.attr] = ('new', list if isinstance(v, ast.List) else tuple)
            elif isinstance(v, ast.Dict) and not v.keys:
                out[t.attr] = ('new', dict)
            elif isinstance(v, ast.Call) and isinstance(v.func, ast.Name) and v.func.id in ('set', 'list', 'dict') and not v.args and not v.keywords:
                out[t.attr] = ('new', {'set': set, 'list': list, 'dict': dict}[v.func.id])
    return out


def bare_instance(cls, **attrs):
    """an object of the real class without running its constructor (the harness supplies the state the contract talks about), but WITH the
    constant defaults the real __init__ gives every instance - so that an attribute a later version adds there exists"""
    o = cls.__new__(cls)
    for k, (kind, v) in init_defaults(cls).items():
        try:
            setattr(o, k, v if kind == 'const' else v())
        except (AttributeError, TypeError):
            pass
    for k, v in attrs.items():
        setattr(o, k, v)
    return o


class LoopSpec(object):
    """supplied by the sidecar, keyed by function qualname + loop ordinal.
    invariant(L, st) -> z3 Bool / bool ; havoc(L, st) -> dict of new local values
    (and havocs heap proxies through their .havoc()); temps: locals dead at the
    loop head (assigned before use in every iteration, not used after the loop)."""

    def __init__(self, invariant, havoc=None, temps=(), length=None, element=None, name=None, decreases=None):
        self.invariant = invariant
        self.havoc = havoc or (lambda L, st: {})
        self.temps = tuple(temps)
        self.length = length
        self.element = element
        self.name = name


class CutState(dict):
    """the locals a cut (invariant / havoc / snapshot) may look at; a local the function no longer has means the cut no longer fits the code:
    that is an engine escape (UNDECIDED), never an exception of the function under contract"""
    def __missing__(self, k):
        raise EngineEscape('the loop cut refers to a local variable %r that the function does not have (the code changed shape)' % (k,))


class LoopCtx(object):
    def __init__(self, cutter, ordinal, spec, iterable, st, assigned):
        self.ordinal = ordinal
        self.spec = spec
        self.iterable = iterable
        self.assigned = assigned
        self.pre = dict(st)            # locals at loop entry (old state for the invariant)
        self.k = None
        if iterable is not None:
            self.n = spec.length(iterable) if spec.length else P.lift(P.m_len(iterable))
        else:
            self.n = None
        self.tag = 'loop%d' % ordinal
        if hasattr(spec, 'snapshot'):
            spec.snapshot(self, CutState(st))
        core.prove('%s-inv-entry' % self.tag, self._inv(0 if self.n is not None else None, st), kind='loop')

    def _inv(self, k, st):
        self.k = z3.IntVal(k) if isinstance(k, int) else k
        return self.spec.invariant(self, CutState(st))

    def mode(self):
        return core.choice(2)

    def _havoc(self, st, k):
        self.k = k
        new = self.spec.havoc(self, CutState(st)) or {}
        out = []
        for nm in self.assigned:
            if nm in new:
                out.append(new[nm])
            else:
                # a declared temporary, or a local the cut does not know (the body changed): dead at the loop head as far as the cut is
                # concerned - any use before it is assigned again is an engine escape (sound: Undefined answers nothing)
                out.append(Undefined())
        st2 = CutState(st)
        st2.update(zip(self.assigned, out))
        core.assume(self.spec.invariant(self, st2))
        self._mut = [(m, m._ver) for m in _reachable_mutables(st2)]
        return tuple(out)

    def havoc_iter(self, st):
        k = core.fresh('k', z3.IntSort())
        if self.n is not None:
            core.assume(z3.And(k >= 0, k < self.n))
        else:
            core.assume(k >= 0)
        return self._havoc(st, k)

    def havoc_exit(self, st):
        k = self.n if self.n is not None else core.fresh('kexit', z3.IntSort())
        if self.n is None:
            core.assume(k >= 0)
        return self._havoc(st, k)

    def element(self):
        if self.spec.element:
            return self.spec.element(self.iterable, self.k)
        return self.iterable.elem_at(self.k)

    def guard(self, c):
        """while-loop guard in iteration mode: paths on which it is false are not iterations"""
        if not c:
            raise PathEnd()

    def exit_guard(self, c):
        if c:
            raise PathEnd()

    def preserved(self, st):
        for m, v in self._mut:
            if m._ver != v and m._hav is not self:
                raise EngineEscape('frame: %r is mutated by the body of loop %d but not havocked by its cut'
                                   % (m, self.ordinal))
        k1 = self.k + 1
        core.prove('%s-inv-preserved' % self.tag, self._inv(k1, st), kind='loop')
        raise PathEnd()


class Cutter(ast.NodeTransformer):
    """mechanical rewrite; `cuts` maps loop ordinal -> LoopSpec, `comps` maps
    comprehension ordinal -> schema callable"""

    def __init__(self, cuts, comps, strlit=False, displays=None):
        self.cuts = cuts
        self.comps = comps
        self.strlit = strlit
        self.displays = displays
        self.loop_no = -1
        self.comp_no = -1
        self.rewritten = []
        self.depth = 0

    # assigned locals of a statement list (names only; attribute / item writes are heap)
    @staticmethod
    def assigned_names(stmts, extra_targets=()):
        names = []
        class V(ast.NodeVisitor):
            def visit_Name(s, n):
                if isinstance(n.ctx, (ast.Store, ast.Del)) and n.id not in names:
                    names.append(n.id)
            def visit_FunctionDef(s, n):
                if n.name not in names:
                    names.append(n.name)
            visit_ClassDef = visit_AsyncFunctionDef = visit_FunctionDef
            def visit_Lambda(s, n):
                pass
            def visit_ListComp(s, n):
                for g in n.generators:
                    s.visit(g.iter)
            visit_SetComp = visit_DictComp = visit_GeneratorExp = visit_ListComp
            def visit_ExceptHandler(s, n):
                if n.name and n.name not in names:
                    names.append(n.name)
                s.generic_visit(n)
        v = V()
        for t in extra_targets:
            v.visit(t)
        for s in stmts:
            v.visit(s)
        return sorted(names)

    def _jumps(self, body):
        """replace break/continue that belong to THIS loop by raises"""
        class J(ast.NodeTransformer):
            def visit_For(s, n):
                # break / continue inside a nested loop's body belong to that loop; inside its `else` to this one
                n.orelse = [s.visit(x) for x in n.orelse]
                return n
            visit_While = visit_AsyncFor = visit_For

            def visit_FunctionDef(s, n):
                return n
            visit_Lambda = visit_ClassDef = visit_AsyncFunctionDef = visit_FunctionDef
            def visit_Break(s, n):
                return ast.copy_location(ast.Raise(exc=ast.Call(ast.Name('__LoopBreak', ast.Load()), [], []), cause=None), n)
            def visit_Continue(s, n):
                return ast.copy_location(ast.Raise(exc=ast.Call(ast.Name('__LoopContinue', ast.Load()), [], []), cause=None), n)
        return [J().visit(s) for s in body]

    def _cut(self, node, is_for):
        self.loop_no += 1
        ordinal = self.loop_no
        # inner loops are numbered in source order after the outer one
        node.body = [self.visit(s) for s in node.body]
        node.orelse = [self.visit(s) for s in node.orelse]
        if ordinal not in self.cuts:
            return node
        self.rewritten.append('%d:%d %s#%d' % (node.lineno, node.col_offset, 'for' if is_for else 'while', ordinal))
        L = '__L%d' % ordinal
        ld = lambda n: ast.Name(n, ast.Load())
        call = lambda obj, meth, *a: ast.Call(ast.Attribute(ld(obj), meth, ast.Load()), list(a), [])
        loc = ast.Call(ld('locals'), [], [])
        assigned = self.assigned_names(node.body, [node.target] if is_for else [])
        tgt_names = self.assigned_names([], [node.target]) if is_for else []
        hav_names = [n for n in assigned if not n.startswith('__L')]
        def assign_vars(meth):
            c = call(L, meth, loc)
            if not hav_names:
                return ast.Expr(c)
            return ast.Assign([ast.Tuple([ast.Name(n, ast.Store()) for n in hav_names], ast.Store())], c)
        enter = ast.Assign([ast.Name(L, ast.Store())],
                           ast.Call(ld('__cut__'), [ast.Constant(ordinal), node.iter if is_for else ast.Constant(None), loc,
                                                    ast.Constant(tuple(hav_names))], []))
        it = [assign_vars('havoc_iter')]
        if is_for:
            it.append(ast.Assign([node.target], call(L, 'element')))
        else:
            it.append(ast.Expr(call(L, 'guard', node.test)))
        body = self._jumps(node.body)
        pres = ast.Expr(call(L, 'preserved', loc))
        tr = ast.Try(body=body + [pres],
                     handlers=[ast.ExceptHandler(ld('__LoopContinue'), None, [pres]),
                               ast.ExceptHandler(ld('__LoopBreak'), None, [ast.Pass()])],
                     orelse=[], finalbody=[])
        it.append(tr)
        ex = [assign_vars('havoc_exit')]
        if not is_for:
            ex.append(ast.Expr(call(L, 'exit_guard', node.test)))
        ex.extend(node.orelse)
        sel = ast.If(ast.Compare(call(L, 'mode'), [ast.Eq()], [ast.Constant(0)]), it, ex)
        out = [enter, sel]
        for n in out:
            ast.copy_location(n, node)
            for c in ast.walk(n):
                if not hasattr(c, 'lineno'):
                    ast.copy_location(c, node)
        return out

    def visit_For(self, node):
        return self._cut(node, True)

    def visit_While(self, node):
        return self._cut(node, False)

    def _comp(self, node, kind):
        self.comp_no += 1
        ordinal = self.comp_no
        self.generic_visit(node)
        if ordinal not in self.comps:
            return node
        if len(node.generators) != 1 or node.generators[0].is_async:
            raise EngineEscape('comprehension #%d: only single-generator comprehensions are cut' % ordinal)
        g = node.generators[0]
        self.rewritten.append('%d:%d %s#%d' % (node.lineno, node.col_offset, kind, ordinal))
        def lam(body):
            args = ast.arguments(posonlyargs=[], args=[ast.arg('__x')], kwonlyargs=[], kw_defaults=[], defaults=[])
            # bind the comprehension target(s) from __x without assignment statements
            inner = ast.Lambda(ast.arguments(posonlyargs=[], args=[ast.arg(n) for n in self.assigned_names([], [g.target])],
                                             kwonlyargs=[], kw_defaults=[], defaults=[]), body)
            if isinstance(g.target, ast.Name):
                return ast.Lambda(args, ast.Call(inner, [ast.Name('__x', ast.Load())], []))
            return ast.Lambda(args, ast.Call(inner, [ast.Starred(ast.Call(ast.Name('__flatten_target', ast.Load()),
                                                                          [ast.Name('__x', ast.Load())], []), ast.Load())], []))
        if kind == 'dict':
            elt = ast.Tuple([node.key, node.value], ast.Load())
        else:
            elt = node.elt
        new = ast.Call(ast.Name('__comp__', ast.Load()),
                       [ast.Constant(ordinal), ast.Constant(kind), g.iter, lam(elt),
                        ast.List([lam(c) for c in g.ifs], ast.Load())], [])
        ast.copy_location(new, node)
        for c in ast.walk(new):
            if not hasattr(c, 'lineno'):
                ast.copy_location(c, node)
        return new

    def visit_Call(self, node):
        """'<literal>'.method(args)  ->  __strlit__('<literal>', 'method', args): a method of a string literal cannot
        be intercepted otherwise; the helper calls the real method unless an argument is a proxy"""
        self.generic_visit(node)
        f = node.func
        if self.strlit and isinstance(f, ast.Attribute) and not node.keywords and (
                (isinstance(f.value, ast.Constant) and type(f.value.value) is str) or f.attr in ('format', 'join')):
            self.rewritten.append('%d:%d strlit.%s' % (node.lineno, node.col_offset, f.attr))
            new = ast.Call(ast.Name('__strlit__', ast.Load()), [f.value, ast.Constant(f.attr)] + node.args, [])
            ast.copy_location(new, node)
            for c in ast.walk(new):
                if not hasattr(c, 'lineno'):
                    ast.copy_location(c, node)
            return new
        return node

    def visit_List(self, node):
        self.generic_visit(node)
        if self.displays and 'list' in self.displays and not node.elts and isinstance(node.ctx, ast.Load):
            self.rewritten.append('%d:%d empty-list-display' % (node.lineno, node.col_offset))
            return ast.copy_location(ast.Call(ast.copy_location(ast.Name('__mklist__', ast.Load()), node), [], []), node)
        return node

    def visit_Dict(self, node):
        self.generic_visit(node)
        if self.displays and 'dict' in self.displays and not node.keys:
            self.rewritten.append('%d:%d empty-dict-display' % (node.lineno, node.col_offset))
            return ast.copy_location(ast.Call(ast.copy_location(ast.Name('__mkdict__', ast.Load()), node), [], []), node)
        return node

    def visit_ListComp(self, node):
        return self._comp(node, 'list')

    def visit_SetComp(self, node):
        return self._comp(node, 'set')

    def visit_GeneratorExp(self, node):
        return self._comp(node, 'gen')

    def visit_DictComp(self, node):
        return self._comp(node, 'dict')


def find_def(tree, qualname):
    parts = qualname.split('.')
    body = tree.body
    node = None
    for i, p in enumerate(parts):
        found = None
        stack = list(body)
        while stack:
            n = stack.pop(0)
            if isinstance(n, (ast.FunctionDef, ast.AsyncFunctionDef, ast.ClassDef)) and n.name == p:
                found = n
                break
            if isinstance(n, (ast.If, ast.Try)):
                stack = list(ast.iter_child_nodes(n)) + stack
        if found is None:
            raise LookupError('%s not found in source' % qualname)
        node = found
        body = node.body
    return node


_src_cache = {}


def module_source(modname):
    m = importlib.import_module(modname)
    fn = m.__file__
    if fn not in _src_cache:
        src = open(fn).read()
        _src_cache[fn] = (src, ast.parse(src))
    return (m, fn) + _src_cache[fn]


def source_sha(modname, qualname):
    m, fn, src, tree = module_source(modname)
    node = find_def(tree, qualname)
    seg = ast.get_source_segment(src, node)
    return hashlib.sha256(seg.encode()).hexdigest()[:16]


def raw_function(obj):
    """the plain function behind a descriptor used in supp"""
    for _ in range(4):
        if isinstance(obj, (staticmethod, classmethod)):
            obj = obj.__func__
        elif isinstance(obj, property):
            obj = obj.fget
        elif hasattr(obj, 'func') and not isinstance(obj, types.FunctionType):
            obj = obj.func          # supp.util.cached_property
        elif isinstance(obj, types.FunctionType) and obj.__closure__ and obj.__name__ == 'inner' \
                and 'func' in obj.__code__.co_freevars:
            obj = obj.__closure__[obj.__code__.co_freevars.index('func')].cell_contents   # context_property
        elif isinstance(obj, types.FunctionType) and isinstance(getattr(obj, '__wrapped__', None), types.FunctionType):
            # a functools.wraps wrapper (supp.project.request): the function itself is what is put under contract, the wrapper has a
            # contract of its own (contracts/project.py: the call is made once, inside one change-checking context)
            obj = obj.__wrapped__
        else:
            break
    return obj


def load(modname, qualname, stubs=None, cuts=None, comps=None, comp_handler=None, builtins_extra=None, raw=True, strlit=False,
         comps_optional=False, displays=None):
    """returns a function object executing the code of modname.qualname from the
    working tree, in a namespace copy with `stubs` injected"""
    m, fn, src, tree = module_source(modname)
    node = find_def(tree, qualname)
    seg = ast.get_source_segment(src, node)
    sha = hashlib.sha256(seg.encode()).hexdigest()[:16]
    run = core.RUN
    if run is not None:
        run.source_sha = run.source_sha or {}
        run.source_sha['%s.%s' % (modname, qualname)] = sha
    g = dict(m.__dict__)
    g['__builtins__'] = P.guarded_builtins(builtins_extra)
    if stubs:
        g.update(stubs)
        # a pattern compiled once at module level is the same contract as the inline re.<fn>(pattern, ...) call
        if 're' in stubs and hasattr(stubs['re'], 'compile'):
            import re as _re
            for k, v in list(g.items()):
                if isinstance(v, _re.Pattern) and k not in stubs:
                    g[k] = stubs['re'].compile(v.pattern, v.flags & ~_re.UNICODE)
    obj = m
    for p in qualname.split('.'):
        obj = inspect.getattr_static(obj, p)
    f = raw_function(obj) if raw else obj
    if not cuts and not comps and not strlit and not displays:
        if not isinstance(f, types.FunctionType):
            raise EngineEscape('%s is not a plain function' % qualname)
        return types.FunctionType(f.__code__, g, f.__name__, f.__defaults__, f.__closure__)
    import copy
    fnode = copy.deepcopy(node)
    fnode.decorator_list = []
    cutter = Cutter(cuts or {}, comps or {}, strlit, displays)
    fnode.body = [x for s in fnode.body for x in (lambda r: r if isinstance(r, list) else [r])(cutter.visit(s))]
    for k in (cuts or {}):
        if not any(('#%d' % k) in r and ('for' in r or 'while' in r) for r in cutter.rewritten):
            raise EngineEscape('%s: no loop with ordinal %d to cut (the code changed shape)' % (qualname, k))
    for k in ({} if comps_optional else (comps or {})):
        if not any(r.endswith('#%d' % k) and 'for' not in r.split()[1] and 'while' not in r.split()[1] for r in cutter.rewritten):
            raise EngineEscape('%s: no comprehension with ordinal %d to cut' % (qualname, k))
    if run is not None:
        run.rewritten.extend('%s.%s %s' % (modname, qualname, r) for r in cutter.rewritten)
    mod = ast.Module([fnode], [])
    ast.fix_missing_locations(mod)
    code = compile(mod, fn, 'exec')

    def __cut__(ordinal, iterable, st, assigned):
        return LoopCtx(cutter, ordinal, cuts[ordinal], iterable, st, assigned)

    def __comp__(ordinal, kind, iterable, elt, conds):
        return comps[ordinal](kind, iterable, elt, conds)

    def __flatten_target(x):
        return x

    def __strlit__(lit, meth, *args):
        from . import strings
        flat = []
        for a in args:
            flat.extend(a if isinstance(a, (list, tuple)) else [a])
        if type(lit) is not str or not any(isinstance(a, P.Proxy) for a in flat):
            return getattr(lit, meth)(*args)
        if meth == 'join':
            parts = []
            for i, a in enumerate(list(args[0])):
                if i:
                    parts.append(lit)
                parts.append(a)
            return strings.concat(parts)
        if meth == 'format':
            return strings.Formatted(lit, args)
        raise EngineEscape('str literal method %s on proxies' % meth)

    if displays:
        g['__mklist__'] = displays.get('list')
        g['__mkdict__'] = displays.get('dict')
    g.update(__strlit__=__strlit__, __cut__=__cut__, __comp__=__comp__, __LoopBreak=LoopBreak, __LoopContinue=LoopContinue,
             __flatten_target=__flatten_target)
    ns = {}
    exec(code, g, ns)
    f2 = ns[fnode.name]
    # bind free globals lookups to g (exec with separate locals keeps globals = g)
    return f2


def has_symbol(modname, qualname):
    try:
        m, fn, src, tree = module_source(modname)
        find_def(tree, qualname)
        return True
    except LookupError:
        return False
