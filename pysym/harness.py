"""Harness registry and per-harness worker."""
import time
import traceback

from . import core
from .core import EngineEscape, PathCap

import os
_HERE = os.path.dirname(os.path.dirname(os.path.abspath(__file__))) + os.sep

REGISTRY = {}      # property id -> [Harness]


class Harness(object):
    def __init__(self, prop, function, fn, twins=(), bounded=None, doc=None, tier='quick', clause=None, group=None):
        self.prop = prop
        self.function = function      # qualified name of the supp function(s) under contract
        self.fn = fn
        self.twins = tuple(twins)
        self.bounded = bounded        # None, or the stated bound (then obligations are NOT counted as proved)
        self.doc = doc or (fn.__doc__ or '').strip()
        self.tier = tier
        self.clause = clause
        self.id = '%s:%s' % (function, fn.__name__)


def harness(prop, function, twins=(), bounded=None, tier='quick', clause=None):
    props = prop if isinstance(prop, (list, tuple)) else [prop]

    def deco(fn):
        for p in props:
            REGISTRY.setdefault(p, []).append(Harness(p, function, fn, twins, bounded, tier=tier, clause=clause))
        return fn
    return deco


def _run_one(h, twin, timeout_s):
    run = core.Run(h.function, timeout_s=timeout_s if twin is None else min(timeout_s, 4))
    run.stop_on_failure = twin is not None
    run.prop = h.prop
    core.RUN = run
    core.reset_fresh()
    status = 'ok'
    err = None
    t0 = time.time()
    try:
        if twin is None:
            h.fn(run)
        else:
            h.fn(run, twin=twin)
    except core.TwinDone:
        pass
    except EngineEscape as e:
        status, err = 'escape', str(e)
    except PathCap as e:
        status, err = 'pathcap', str(e)
    except RecursionError as e:
        status, err = 'escape', 'recursion: %s' % e
    except Exception as e:
        tb = traceback.extract_tb(e.__traceback__)
        in_repo = [t for t in tb if t.filename.startswith(core.REPO)]
        ours = [t for t in tb if t.filename.startswith(core.REPO) or t.filename.startswith(_HERE)]
        # the innermost frame that is either /repo's or the checker's decides whose error it is: an exception raised by
        # the checker's own stand-ins while /repo code calls them is a checker crash (exit 3), never a violation
        if in_repo and ours and ours[-1].filename.startswith(core.REPO):
            # code of /repo raised where the contract's harness calls it directly: that is a failed obligation, not a checker crash
            ob = core.Obligation()
            ob.kind, ob.sig, ob.model, ob.replay, ob.note = 'post', '-', None, None, None
            ob.clause = 'the function under contract raises nothing here [%s: %s at %s:%d]' % (
                type(e).__name__, e, in_repo[-1].filename[len(core.REPO) + 1:], in_repo[-1].lineno)
            ob.name = '%s#%sraises-nothing@-' % (h.function, (run.case + ':') if getattr(run, 'case', None) else '')
            ob.verdict, ob.backend, ob.time = 'failed', 'ground', 0.0
            if run.concretise:
                try:
                    ob.replay = run.concretise(None, ob)
                except Exception:
                    ob.replay = None
            run.obligations.append(ob)
        else:
            status, err = 'crash', ''.join(traceback.format_exception(type(e), e, e.__traceback__)[-6:])
    run.wall = time.time() - t0
    run.status, run.err = status, err
    core.RUN = None
    return run


def run_harness(args):
    """worker entry: returns a JSON-able record"""
    h, tier = args
    import logging
    logging.disable(logging.CRITICAL)       # supp logs what it does not understand: not part of a verdict
    if isinstance(h, tuple):          # (property id, harness id): looked up in the forked registry (closures do not pickle)
        h = [x for x in REGISTRY[h[0]] if x.id == h[1]][0]
    timeout_s = 10 if tier == 'quick' else 60
    run = _run_one(h, None, timeout_s)
    rec = {
        'harness': h.id, 'function': h.function, 'property': h.prop, 'doc': h.doc, 'bounded': h.bounded,
        'status': run.status, 'error': run.err, 'paths': run.paths, 'infeasible': run.infeasible,
        'obligations': [o.as_dict() for o in run.obligations],
        'trusted': run.trusted, 'rewritten': run.rewritten, 'source_sha': run.source_sha or {},
        'solver_time': round(run.solver_time, 3), 'wall': round(run.wall, 3),
        'covers': run.covers, 'twins': [],
    }
    for tw in h.twins:
        r2 = _run_one(h, tw, timeout_s)
        failed = [o for o in r2.obligations if o.verdict != 'discharged']
        rec['twins'].append({'twin': tw, 'status': r2.status, 'error': r2.err,
                             'obligations': len(r2.obligations), 'failed': len(failed),
                             'refuted': sum(o.verdict == 'failed' for o in failed),
                             'sample': failed[0].name if failed else None})
    return rec
