"""pysym core: path-exhaustive execution of real Python functions over z3 proxies.

The function under verification is the real code object from /repo (or its
mechanical rewrite, see transform.py); only universally quantified *data* is
symbolic.  `SBool.__bool__` is the fork point; `explore` re-executes the
function once per decision prefix until no unexplored alternative is left.
Obligations are discharged where they arise, under the path condition of the
path that reached them.
"""
import os
import subprocess
import sys
import tempfile
import time

import z3

REPO = os.environ.get('SUPP_REPO', '/repo')


class Infeasible(BaseException):
    """the current decision prefix is infeasible; the path is dropped"""


class EngineEscape(BaseException):
    """the code did something with a proxy the engine has no model for:
    the function is UNDECIDED (never a pass, never a violation)"""


class PathEnd(BaseException):
    """a harness ends the current path deliberately (after a loop-cut check)"""


class PathCap(BaseException):
    pass


DEPTH_CAP = 4000         # decisions on ONE path; beyond it the function is undecided (status pathcap)


class TwinDone(BaseException):
    """a must-fail twin has produced its failing obligation: stop"""


CUR = None          # the Path being executed (always refer to it as core.CUR)
RUN = None          # the Run (one harness execution) collecting obligations


def _site():
    """source position (file:line:col) of the innermost frame that executes code
    under verification (a file under REPO); used for path signatures"""
    f = sys._getframe(2)
    while f is not None:
        fn = f.f_code.co_filename
        if fn.startswith(REPO) or fn.startswith('<verified:'):
            col = 0
            try:
                pos = list(f.f_code.co_positions())[f.f_lasti // 2]
                col = pos[2] or 0
            except Exception:
                pass
            base = fn[len(REPO) + 1:] if fn.startswith(REPO) else fn
            return '%s:%d:%d' % (base, f.f_lineno, col)
        f = f.f_back
    return 'harness'


class Path(object):
    def __init__(self, prefix):
        self.prefix = list(prefix)
        self.taken = []      # (site, decision, n_alternatives, forced)
        self.pc = []
        self.solver = z3.Solver()
        self.solver.set('timeout', RUN.fork_timeout_ms if RUN else 10000)
        self.notes = []
        self.axioms = []     # quantified facts: used when discharging, not for path feasibility

    # -- assumptions -------------------------------------------------------
    def assume(self, c, check=True):
        if isinstance(c, bool):
            if not c:
                raise Infeasible()
            return
        self.pc.append(c)
        self.solver.add(c)
        if check and self.solver.check() == z3.unsat:
            raise Infeasible()

    def feasible(self, c):
        self.solver.push()
        self.solver.add(c)
        r = self.solver.check()
        self.solver.pop()
        return r != z3.unsat

    # -- decisions ---------------------------------------------------------
    def branch(self, cond, site=None):
        """decide a z3 Bool; returns a Python bool"""
        cond = z3.simplify(cond)
        if z3.is_true(cond):
            return True
        if z3.is_false(cond):
            return False
        i = len(self.taken)
        if i > DEPTH_CAP:
            raise PathCap('more than %d decisions on one path (a loop without an invariant?)' % DEPTH_CAP)
        site = site or _site()
        if i < len(self.prefix):
            d, forced = self.prefix[i]
            self.taken.append((site, d, 2, forced))
            c = cond if d else z3.Not(cond)
            self.pc.append(c)
            self.solver.add(c)
            return bool(d)
        t = self.feasible(cond)
        f = self.feasible(z3.Not(cond))
        if not t and not f:
            raise Infeasible()
        forced = not (t and f)
        d = 1 if t else 0
        self.taken.append((site, d, 2, forced))
        c = cond if d else z3.Not(cond)
        self.pc.append(c)
        self.solver.add(c)
        return bool(d)

    def choice(self, n, site=None):
        """harness-level nondeterminism: every alternative 0..n-1 is explored"""
        i = len(self.taken)
        if i > DEPTH_CAP:
            raise PathCap('more than %d decisions on one path (a loop without an invariant whose exit is an environment choice?)' % DEPTH_CAP)
        site = site or _site()
        if i < len(self.prefix):
            d, forced = self.prefix[i]
        else:
            d, forced = 0, n <= 1
        self.taken.append((site, d, n, forced))
        return d

    def signature(self):
        return '/'.join('%s=%d' % (s, d) for s, d, n, forced in self.taken if not forced or n > 2) or '-'


class Obligation(object):
    __slots__ = ('name', 'kind', 'clause', 'verdict', 'backend', 'time', 'model', 'sig', 'replay', 'note')

    def as_dict(self):
        return {k: getattr(self, k, None) for k in self.__slots__}


class Run(object):
    """one harness execution: paths, obligations, trusted items, rewritten nodes"""

    def __init__(self, function, timeout_s=10, path_cap=20000):
        self.function = function
        self.timeout_s = timeout_s
        self.fork_timeout_ms = 10000
        self.path_cap = path_cap
        self.obligations = []
        self.paths = 0
        self.infeasible = 0
        self.trusted = []
        self.rewritten = []
        self.source_sha = None
        self.escapes = []
        self.bounded = []
        self.covers = []
        self.solver_time = 0.0
        self.model_vars = {}     # name -> z3 const, for counterexample extraction
        self.concretise = None   # callable(model dict) -> replay description

    def trust(self, what):
        if what not in self.trusted:
            self.trusted.append(what)


def explore(fn, on_path=None):
    """run fn() once per feasible decision prefix; on_path(path, outcome) is called
    for every completed path with outcome = ('ok', value) | ('exc', exception)"""
    global CUR
    stack = [[]]
    n = 0
    while stack:
        prefix = stack.pop()
        CUR = p = Path(prefix)
        out = None
        try:
            try:
                out = ('ok', fn())
            except Infeasible:
                RUN.infeasible += 1
                out = None
            except PathEnd:
                out = ('end', None)
            except EngineEscape:
                raise
            except RecursionError:
                raise
            except Exception as e:
                if isinstance(e, AttributeError) and type(getattr(e, 'obj', None)).__module__.split('.')[0] in ('contracts', 'pysym', 'spec', 'props'):
                    # the missing attribute belongs to a stand-in object of the checker: the contract no longer fits the code
                    raise EngineEscape('a stand-in object of the checker (%s) lacks the attribute %r the code now uses' % (type(e.obj).__name__, getattr(e, 'name', '?')))
                if isinstance(e, (TypeError, AttributeError)):
                    from . import proxies
                    msg = str(e)
                    import re as _re
                    if any(_re.search(r'\b%s\b' % _re.escape(n), msg) for n in proxies.proxy_class_names()):
                        raise EngineEscape('%s involving a proxy: %s' % (type(e).__name__, msg))
                    import sys as _sys
                    own = set()
                    for mn, mod in list(_sys.modules.items()):
                        if mn.split('.')[0] in ('contracts', 'pysym', 'spec') and mod is not None:
                            own.update(k for k, v in vars(mod).items() if isinstance(v, type) and getattr(v, '__module__', '') == mn)
                    if any(_re.search(r'\b%s\b' % _re.escape(n), msg) for n in own):
                        raise EngineEscape('%s involving a stand-in class of the checker: %s' % (type(e).__name__, msg))
                out = ('exc', e)
        finally:
            for i in range(len(prefix), len(p.taken)):
                site, d, nalt, forced = p.taken[i]
                if forced:
                    continue
                base = [(x[1], x[3]) for x in p.taken[:i]]
                for alt in range(nalt):
                    if alt != d:
                        stack.append(base + [(alt, False)])
        if out is not None:
            n += 1
            RUN.paths += 1
            if RUN.paths > RUN.path_cap:
                raise PathCap('more than %d paths' % RUN.path_cap)
            if on_path and out[0] != 'end':
                on_path(p, out)
    CUR = None
    return n


# ---------------------------------------------------------------------------
# discharge

def _model_dict(m):
    d = {}
    for k in m.decls():
        try:
            v = str(m[k])
            d[k.name()] = v if len(v) <= 240 else v[:240] + ' ...'
        except Exception:
            pass
    return d


def _cli_check(smt2, timeout_s):
    """second opinion for z3's `unknown`: cvc5 then z3-new on the same SMT-LIB text"""
    with tempfile.NamedTemporaryFile('w', suffix='.smt2', delete=False) as f:
        f.write(smt2)
        fn = f.name
    try:
        for name, cmd in (('cvc5-cli', ['/usr/bin/cvc5', '--strings-exp', '--tlimit=%d' % (timeout_s * 1000), fn]),
                          ('z3-new-cli', ['z3-new', '-T:%d' % timeout_s, fn])):
            try:
                out = subprocess.run(cmd, capture_output=True, text=True, timeout=timeout_s + 5).stdout.strip().split('\n')[0]
            except Exception:
                continue
            if out in ('unsat', 'sat'):
                return out, name
        return 'unknown', None
    finally:
        os.unlink(fn)


def _finite_inst(e, rng, cache):
    """replace every quantifier by its instances over the integer range rng (bounded refutation only)"""
    k = e.get_id()
    if k in cache:
        return cache[k]
    if z3.is_quantifier(e):
        n = e.num_vars()
        body = e.body()
        import itertools
        insts = []
        for combo in itertools.product(rng, repeat=n):
            vals = [z3.IntVal(c) for c in reversed(combo)]
            insts.append(_finite_inst(z3.substitute_vars(body, *vals), rng, cache))
        r = z3.And(*insts) if e.is_forall() else z3.Or(*insts)
    elif z3.is_app(e) and e.num_args() > 0:
        ch = [_finite_inst(c, rng, cache) for c in e.children()]
        r = e.decl()(*ch)
    else:
        r = e
    cache[k] = r
    return r


def bounded_refute(p, claim, bound=6):
    """search a small counterexample: quantifiers expanded over [-1, bound+1]; the result is only a
    CANDIDATE - it counts as a violation only if its native replay reproduces on the real code"""
    s = z3.Solver()
    s.set('timeout', 8000)
    rng = list(range(-1, bound + 2))
    cache = {}
    for c in p.pc:
        s.add(c)
    try:
        for ax in p.axioms:
            s.add(_finite_inst(ax, rng, cache))
        s.add(_finite_inst(z3.Not(claim), rng, cache))
    except Exception:
        return None
    for hint in list(getattr(RUN, 'small_model_hints', ())) + [None]:
        s.push()
        if hint is not None:
            s.add(hint)
        r = s.check()
        if r == z3.sat:
            m = s.model()
            s.pop()
            return m
        s.pop()
    return None


def _has_quant(e):
    seen = set()
    todo = [e]
    while todo:
        x = todo.pop()
        if x.get_id() in seen:
            continue
        seen.add(x.get_id())
        if z3.is_quantifier(x):
            return True
        todo.extend(x.children())
    return False


def prove(label, claim, kind='post', clause=None, path=None):
    """emit and discharge the obligation  pc(path) => claim"""
    p = path or CUR
    ob = Obligation()
    ob.kind = kind
    ob.clause = clause or label
    ob.sig = p.signature()
    case = getattr(RUN, 'case', None)
    if case:
        label = '%s:%s' % (case, label)
    ob.name = '%s#%s@%s' % (RUN.function, label, ob.sig)
    ob.model = None
    ob.replay = None
    ob.note = None
    t0 = time.time()
    if isinstance(claim, bool):
        ob.verdict = 'discharged' if claim else 'failed'
        ob.backend = 'ground'
        if not claim:
            s = p.solver
            if s.check() == z3.sat:
                zm = s.model()
                ob.model = _model_dict(zm)
                if RUN.concretise:
                    try:
                        ob.replay = RUN.concretise(zm, ob)
                    except Exception as e:
                        ob.replay = {'error': 'concretise failed: %r' % (e,)}
    else:
        s = p.solver
        if p.axioms:
            # many claims need no quantified fact: try without them first (fewer hypotheses: still sound)
            s.push()
            s.set('timeout', 1500)
            s.add(z3.Not(claim))
            r0 = s.check()
            s.pop()
            if r0 == z3.unsat:
                ob.verdict, ob.backend = 'discharged', 'z3-' + z3.get_version_string()
                ob.time = round(time.time() - t0, 4)
                RUN.solver_time += ob.time
                RUN.obligations.append(ob)
                s.set('timeout', RUN.fork_timeout_ms)
                return True
        s.push()
        for ax in p.axioms:
            s.add(ax)
        s.add(z3.Not(claim))
        # first a short attempt with the in-process solver, then the CLI solvers on the same
        # SMT-LIB text, then the in-process solver with the full budget
        r = z3.unknown
        ob.verdict = None
        cli_sat = None
        quant = bool(p.axioms) or _has_quant(claim)
        stages = (('quick', min(2.0, RUN.timeout_s)), ('cli', RUN.timeout_s), ('full', RUN.timeout_s))
        if quant:
            # quantified facts: E-matching alone refutes fast; MBQI afterwards (needed for `sat` and models)
            stages = (('ematch', min(3.0, RUN.timeout_s)),) + stages
        for stage, budget in stages:
            s.set('smt.mbqi', stage != 'ematch')
            if stage == 'cli':
                r2, be_ = _cli_check('(set-logic ALL)\n' + s.to_smt2(), max(1, int(budget)))
                if r2 == 'unsat':
                    ob.verdict, ob.backend = 'discharged', be_
                    break
                if r2 == 'sat':
                    # a CLI `sat` carries no model object: the in-process solver gets the full budget to produce one
                    cli_sat = be_
                continue
            s.set('timeout', int(budget * 1000))
            r = s.check()
            if r == z3.unsat:
                ob.verdict, ob.backend = 'discharged', 'z3-' + z3.get_version_string()
                break
            if r == z3.sat and stage == 'ematch':
                continue        # without MBQI `sat` is not trusted for quantified problems
            if r == z3.sat:
                ob.verdict, ob.backend = 'failed', 'z3-' + z3.get_version_string()
                zm = s.model()
                # prefer a small counterexample for the replay (hints only narrow the search; the verdict stands)
                for hint in getattr(RUN, 'small_model_hints', ()):
                    s.push()
                    s.add(hint)
                    s.set('timeout', 3000)
                    if s.check() == z3.sat:
                        zm = s.model()
                        s.pop()
                        break
                    s.pop()
                ob.model = _model_dict(zm)
                if RUN.concretise:
                    try:
                        ob.replay = RUN.concretise(zm, ob)
                    except Exception as e:      # replay construction must never mask the verdict
                        ob.replay = {'error': 'concretise failed: %r' % (e,)}
                break
        if ob.verdict is None and cli_sat:
            ob.verdict, ob.backend = 'failed', cli_sat
            ob.note = 'refuted by %s; no model object available' % cli_sat
        elif ob.verdict is None:
            ob.verdict, ob.backend = 'undecided', None
            ob.note = 'solver: ' + s.reason_unknown()
            if RUN.concretise and (p.axioms or quant):
                zm = bounded_refute(p, claim)
                if zm is not None:
                    try:
                        ob.replay = RUN.concretise(zm, ob)
                    except Exception as e:
                        ob.replay = None
                    if ob.replay and ob.replay.get('script'):
                        ob.model = _model_dict(zm)
                        ob.verdict, ob.backend = 'failed', 'z3-bounded-instantiation'
                        ob.note = 'candidate counterexample from bounded quantifier instantiation; stands only if its replay reproduces'
            if os.environ.get('PYSYM_DUMP'):
                with open(os.path.join(os.environ['PYSYM_DUMP'], 'undecided_%d.smt2' % len(RUN.obligations)), 'w') as f:
                    f.write('; %s\n(set-logic ALL)\n%s' % (ob.name, s.to_smt2()))
        s.pop()
        s.set('smt.mbqi', True)
        s.set('timeout', RUN.fork_timeout_ms)
    ob.time = round(time.time() - t0, 4)
    RUN.solver_time += ob.time
    RUN.obligations.append(ob)
    if ob.verdict != 'discharged' and getattr(RUN, 'stop_on_failure', False):
        raise TwinDone()
    return ob.verdict == 'discharged'


def cover(label, cond=True):
    """reachability witness: the current path condition (and cond) is satisfiable"""
    p = CUR
    ok = p.feasible(cond) if not isinstance(cond, bool) else (cond and p.solver.check() != z3.unsat)
    RUN.covers.append((label, bool(ok)))
    return ok


def assume(c):
    CUR.assume(c)


def axiom(c):
    """a quantified fact (definition unfolding, induction hypothesis): available to every
    obligation of the path, kept out of the feasibility checks of the forks"""
    CUR.axioms.append(c)


def branch(c):
    return CUR.branch(c)


def choice(n):
    return CUR.choice(n)


_fresh = [0]


def fresh(prefix, sort):
    _fresh[0] += 1
    return z3.Const('%s!%d' % (prefix, _fresh[0]), sort)


def reset_fresh():
    _fresh[0] = 0
