"""Sidecar contracts for the string helpers of supp/util.py: unmark, marked, split_pkg, join_pkg,
Source.__init__ (mark insertion).  Strings are SStr (index model); the real functions run unchanged
(they only call str methods, which SStr models with their documented semantics)."""
import z3

from pysym import core, loader
from pysym.core import prove, assume, axiom, EngineEscape
from pysym.harness import harness
from pysym.proxies import SInt, lift
from pysym.strings import SStr, is_s, is_ident_char, Int, concat

MOD = 'supp.util'
T_STR = ('str.find/rfind/partition/rpartition/startswith/endswith/strip/lstrip/slicing/+: the documented semantics, '
         'encoded by index quantification (pysym/strings.py)')


def umod():
    import importlib
    return importlib.import_module(MOD)


def content_eq(res, parts):
    """z3 Bool: string `res` is the concatenation of `parts` (views / literals), index-wise"""
    if type(res) is str:
        if all(type(p) is str for p in parts):
            return z3.BoolVal(res == ''.join(parts))
        # a literal result: every symbolic part must have the matching content
        cs = []
        off = 0
        total = z3.IntVal(0)
        for p in parts:
            total = total + (len(p) if type(p) is str else p.n())
        if res == '':
            return total == 0
        return None
    k = z3.Int('ce')
    cs = []
    off = z3.IntVal(0)
    for p in parts:
        if type(p) is str:
            for i, c in enumerate(p):
                cs.append(res.at(off + i) == ord(c))
            off = z3.simplify(off + len(p))
        else:
            cs.append(z3.ForAll([k], z3.Implies(z3.And(k >= p.lo, k < p.hi),
                                                res.base.ch(res.lo + off + k - p.lo) == p.base.ch(k))))
            off = z3.simplify(off + p.n())
    cs.append(res.n() == off)
    return z3.And(*cs)


def no_char(s, c):
    k = z3.Int('nc')
    return z3.ForAll([k], z3.Implies(z3.And(k >= s.lo, k < s.hi), s.base.ch(k) != ord(c)))


def marked_name(A, B, MARK):
    """A ++ MARK ++ B with the domain assumption that MARK occurs nowhere else"""
    name = concat([A, MARK, B])
    J = z3.Int('mJ')
    axiom(z3.ForAll([J], z3.Implies(z3.And(J >= 0, J + len(MARK) <= name.n(), J != A.n()),
                                    z3.Not(name.match_abs(J, MARK)))))
    return name


@harness(['C12'], 'supp.util.unmark', twins=('spec-cuts-at-any-dot',))
def unmark_contract(run, twin=None):
    """unmark(A ++ MARK ++ B) == A ++ B[:d], d = index of the first '.' in B (or len B): the mark is removed, nothing
    else changes up to the end of the dotted component the cursor is in.  requires: the marker text occurs once"""
    run.trust(T_STR)
    m = umod()
    f = loader.load(MOD, 'unmark')
    MARK = m.SOURCE_MARK
    holder = {}

    def body():
        A, B = SStr.sym('A'), SStr.sym('B')
        name = marked_name(A, B, MARK)
        holder.update(A=A, B=B)
        return f(name)

    def on_path(p, out):
        A, B = holder['A'], holder['B']
        if out[0] != 'ok':
            prove('no-exception(%s)' % type(out[1]).__name__, False, path=p)
            return
        res = out[1]
        d = z3.Int('d')
        k = z3.Int('dk')
        dchar = z3.And(d >= 0, d <= B.n(), z3.Or(d == B.n(), B.at(d) == 46),
                       z3.ForAll([k], z3.Implies(z3.And(k >= B.lo, k < B.lo + d), B.base.ch(k) != 46)))
        if twin:
            dchar = z3.And(d >= 0, d <= B.n(), z3.Or(d == B.n(), B.at(d) == 46))
        Bd = SStr(B.base, B.lo, z3.simplify(B.lo + d))
        ce = content_eq(res, [A, Bd])
        prove('unmark-removes-exactly-the-mark', z3.Implies(dchar, ce) if ce is not None else False,
              clause='unmark(A ++ MARK ++ B) == A ++ B[:first dot]', path=p)
    core.explore(body, on_path)


@harness(['C12'], 'supp.util.marked')
def marked_contract(run):
    """marked(s) <=> the marker text occurs in s"""
    run.trust(T_STR)
    m = umod()
    f = loader.load(MOD, 'marked')
    MARK = m.SOURCE_MARK
    holder = {}

    def body():
        s = SStr.sym('s')
        holder['s'] = s
        return f(s)

    def on_path(p, out):
        s = holder['s']
        J = z3.Int('J')
        occurs = z3.Exists([J], z3.And(J >= 0, J + len(MARK) <= s.n(), s.match_abs(J, MARK)))
        prove('marked-iff-occurs', out[0] == 'ok' and (occurs if out[1] else z3.Not(occurs)), path=p)
    core.explore(body, on_path)


def dotted(s):
    """domain of module specifiers: identifier characters and dots"""
    k = z3.Int('dk')
    axiom(z3.ForAll([k], z3.Implies(z3.And(k >= s.lo, k < s.hi), z3.Or(is_ident_char(s.base.ch(k)), s.base.ch(k) == 46))))


@harness(['C07', 'C12'], 'supp.util.split_pkg + join_pkg', twins=('spec-tail-may-contain-dot',))
def split_join_pkg(run, twin=None):
    """for every module specifier p (identifier characters and dots): split_pkg(p) == (parent specifier, last
    component) with no dot in the last component, and join_pkg(*split_pkg(p)) == p"""
    run.trust(T_STR)
    split = loader.load(MOD, 'split_pkg')
    join = loader.load(MOD, 'join_pkg')
    holder = {}

    def body():
        p = SStr.sym('p')
        dotted(p)
        holder['p'] = p
        head, tail = split(p)
        holder['ht'] = (head, tail)
        return join(head, tail) if not (type(tail) is str and tail == '') or True else None

    def on_path(path, out):
        p = holder['p']
        if out[0] != 'ok':
            prove('no-exception(%s)' % type(out[1]).__name__, False, path=path)
            return
        head, tail = holder['ht']
        joined = out[1]
        # (1) last component: the text after the last dot, dot-free
        if is_s(tail):
            k = z3.Int('tk')
            lastcomp = z3.And(tail.hi == p.hi, tail.base is p.base,
                              z3.Or(tail.lo == p.lo, p.base.ch(tail.lo - 1) == 46))
            if not twin:
                lastcomp = z3.And(lastcomp, no_char(tail, '.'))
            else:
                lastcomp = z3.And(lastcomp, no_char(tail, '.'), tail.n() > 0)
            prove('tail-is-last-component', lastcomp, clause='tail == text after the last dot, without dots', path=path)
        else:
            # tail == '': p consists of dots only (pure relative specifier) or ends with a dot
            k = z3.Int('tk')
            prove('empty-tail-only-when-nothing-follows-the-last-dot',
                  z3.Or(p.n() == 0, p.at(p.n() - 1) == 46) if tail == '' else False, path=path)
        # (2) round trip, whenever there is a parent to join with (join_pkg is only called with a non-empty package)
        if is_s(tail) and not (type(head) is str and head == ''):
            ce = content_eq(joined, [p]) if is_s(joined) else None
            prove('join-of-split-is-identity', ce if ce is not None else False,
                  clause='join_pkg(*split_pkg(p)) == p', path=path)
    core.explore(body, on_path)


@harness(['C12', 'C11'], 'supp.util.Source.__init__[mark insertion] / Source.lines', twins=('spec-mark-overwrites-a-char',))
def source_init_mark(run, twin=None):
    """with a position, the cursor line becomes line[:col] ++ MARK ++ line[col:] and nothing else changes
    (every other line is the same object, the line count only grows by the one empty line the code appends)"""
    run.trust(T_STR)
    m = umod()
    MARK = m.SOURCE_MARK
    f = loader.load(MOD, 'Source.__init__', stubs={}, strlit=True)
    holder = {}

    class SrcText(object):
        """the source text: only its division into lines (split at the line feed / splitlines) is observed"""
        def __init__(self, lines):
            self._lines = lines

        def splitlines(self):
            return list(self._lines)

        def split(self, sep):
            # the text is given as its lines: splitting at the line feed gives them back
            if sep != '\n':
                raise EngineEscape('source.split(%r)' % (sep,))
            return list(self._lines) or ['']

    for nlines, ln in ((1, 1), (3, 2), (3, 3), (2, 3), (0, 1)):
        def body(nlines=nlines, ln=ln):
            lines = [SStr.sym('l%d' % i) for i in range(nlines)]
            col = z3.Int('col')
            holder.update(lines=lines, col=col)
            tgt = lines[ln - 1] if ln <= nlines else None
            assume(col >= 0)
            if tgt is not None:
                assume(col <= tgt.n())
            o = loader.bare_instance(m.Source)
            holder['o'] = o
            f(o, SrcText(lines), 'f.py', (ln, SInt(col) if tgt is not None else 0))
            return o

        def on_path(p, out, nlines=nlines, ln=ln):
            lab = 'lines%d-cursor%d' % (nlines, ln)
            if out[0] != 'ok':
                prove('%s-no-exception(%s)' % (lab, type(out[1]).__name__), False, path=p)
                return
            o = holder['o']
            lines, col = holder['lines'], holder['col']
            got = o.lines
            exp_n = max(nlines, ln, 1)
            prove('%s-line-count' % lab, len(got) == exp_n, path=p)
            others = all(got[i] is lines[i] for i in range(min(nlines, len(got))) if i != ln - 1)
            prove('%s-other-lines-untouched' % lab, others, clause='every other line is unchanged', path=p)
            tgt = lines[ln - 1] if ln <= nlines else ''
            new = got[ln - 1]
            if is_s(tgt):
                left = SStr(tgt.base, tgt.lo, z3.simplify(tgt.lo + col))
                if twin:
                    p.assume(col < tgt.n(), check=False)
                right = SStr(tgt.base, z3.simplify(tgt.lo + col + (1 if twin else 0)), tgt.hi)
                ce = content_eq(new, [left, MARK, right]) if is_s(new) else None
            else:
                ce = z3.BoolVal(new == MARK) if type(new) is str else content_eq(new, [MARK])
            prove('%s-cursor-line' % lab, ce if ce is not None else False,
                  clause='cursor line == line[:col] ++ MARK ++ line[col:]', path=p)
        core.explore(body, on_path)

    def ground(path):
        # the lines are the ones the parser counts: only the line feed ends a line
        for label, text, pos in (('form-feed', 'x = "a\x0cb"\nx.up', (2, 4)), ('unicode-line-separator', 'x = "a\u2028b"\nx.up', (2, 4)),
                                 ('next-line-char', 'x = "a\x85b"\ny = 1', (2, 1)), ('crlf', 'a = 1\r\nb = a', (2, 5)),
                                 ('vertical-tab-and-fs', 'x = "a\x0bb\x1cc"\nx', (2, 1)), ('trailing-newline-kept', 'a = 1\n', (1, 1))):
            src = m.Source(text, 'f.py', pos)
            lines = text.split('\n')
            ln, col = pos
            lines[ln - 1] = lines[ln - 1][:col] + MARK + lines[ln - 1][col:]
            want = '\n'.join(lines)
            prove('%s-only-the-line-feed-ends-a-line' % label, src.source == want and src.lines == lines,
                  clause='the marked text is the original text with the mark inserted at line %d column %d as the parser counts lines' % pos, path=path)
            # without a cursor: the line table (which the text searches for def / class names read) has the parser's lines too
            plain = m.Source(text, 'f.py')
            prove('%s-unmarked-lines-are-the-parsers-lines' % label, plain.source == text and list(plain.lines) == text.split('\n'),
                  clause='Source(text).lines == text.split(line feed) [%r]' % (list(plain.lines),), path=path)
    core.explore(lambda: None, lambda p, out: ground(p))
