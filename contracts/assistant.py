"""Sidecar contracts for supp/assistant.py (C12 prefix / proposals; C08, C17 pieces)."""
import ast

import z3

from pysym import core, loader, strings
from pysym import proxies as P
from pysym.core import prove, assume, axiom, EngineEscape
from pysym.harness import harness
from pysym.proxies import SInt, SBool, Proxy, lift
from pysym.restub import ReStub
from pysym.strings import SStr, is_s, is_ident_char, is_ascii, is_code_point, uni_word, Int

MOD = 'supp.assistant'


class LinesStub(object):
    """source.lines: whatever line number is asked for, the cursor line is returned"""
    def __init__(self, line):
        self.line = line

    def __getitem__(self, i):
        return self.line


class SourceStub(object):
    """the marked source: its cursor line and its tree - or, for a text that does not parse (`parses=False`), the SyntaxError the parser raises"""
    def __init__(self, line, tree=None, parses=True):
        self.lines = LinesStub(line)
        self._tree, self._parses = tree, parses
        self.filename = '<verif>'

    @property
    def tree(self):
        if not self._parses:
            raise SyntaxError('the marked text does not parse')
        return self._tree


def ident_run_claim(line, prefix):
    """prefix is exactly the longest run of identifier characters at the end of `line`"""
    k = z3.Int('k')
    if type(prefix) is str:
        if prefix != '':
            return None
        lo = line.hi
        hi = line.hi
    else:
        if prefix.base is not line.base:
            return None
        lo, hi = prefix.lo, prefix.hi
    ch = line.base.ch
    return z3.And(hi == line.hi, lo >= line.lo, lo <= line.hi,
                  z3.ForAll([k], z3.Implies(z3.And(k >= lo, k < line.hi), is_ident_char(ch(k)))),
                  z3.Or(lo == line.lo, z3.Not(is_ident_char(ch(lo - 1)))))


def ascii_line(base):
    k = z3.Int('ak')
    axiom(z3.ForAll([k], z3.Implies(z3.And(k >= 0, k < base.n), is_ascii(base.ch(k)))))


def text_line(base):
    """any line of Unicode text (identifiers may contain non-ASCII letters)"""
    k = z3.Int('ak')
    axiom(z3.ForAll([k], z3.Implies(z3.And(k >= 0, k < base.n), is_code_point(base.ch(k)))))


PREFIX_REPLAY = '''import sys; sys.path.insert(0, %(repo)r)
from supp.assistant import assist
from supp.project import Project
import re
line = %(line)r
i = len(line)
while i > 0 and (line[i - 1] == '_' or line[i - 1].isalnum()):
    i -= 1
want = line[i:]          # the specification: longest run of identifier characters left of the cursor
# the source may continue after the cursor: try continuations that make the marked text parse
tried = 0
for tail in ('', ')', ']', '}', ' 1', ': pass', chr(10), ' = 1', ' in x: pass', '))', ')]', '"', "'"):
    for head in ('', 'x = ', 'if x', 'f('):
        src = head + line + tail
        try:
            got = assist(Project(['/nonexistent']), src, (1, len(head + line)), '<replay>')[0]
        except SyntaxError:
            continue
        except Exception as e:
            continue
        tried += 1
        if got != want:
            print('REPRODUCED: assist(%%r, cursor at column %%d) prefix = %%r, identifier run left of the cursor = %%r'
                  %% (src, len(head + line), got, want)); sys.exit(1)
print('not reproduced (%%d parseable continuations tried)' %% tried)
'''


def line_from_model(model, base, lo, hi):
    ev = lambda t: model.eval(t, model_completion=True).as_long()
    a, b = ev(lo), ev(hi)
    if b - a > 200:
        return None
    def char(i):
        c = ev(base.ch(z3.IntVal(i)))
        if c >= 128:
            # a non-ASCII code point: a letter when the model makes it a word character, a currency sign otherwise
            return '\u00e9' if z3.is_true(model.eval(uni_word(z3.IntVal(c)), model_completion=True)) else '\u20ac'
        return chr(max(32, min(126, c)))
    return ''.join(char(i) for i in range(a, b))


@harness('C12', 'supp.assistant.assist[prefix, name/attribute path]', twins=('spec-ident-includes-minus',))
def assist_prefix_main(run, twin=None):
    """the real assist() with the cursor line an arbitrary string of Unicode text, no marked import: the returned prefix is
    the longest run of identifier characters ([A-Za-z0-9_] and the non-ASCII letters / digits) immediately left of the cursor"""
    full = {}

    def conc(model, ob):
        ln = line_from_model(model, full['line'].base, full['cut'].lo, full['cut'].hi)
        if ln is None:
            return None
        return {'input': {'line': ln, 'cursor': [1, len(ln)]}, 'script': PREFIX_REPLAY % {'repo': core.REPO, 'line': ln}}
    run.concretise = conc
    f = loader.load(MOD, 'assist', stubs=dict(
        Source=lambda source, filename, position: SourceStub(source),
        EvalCtx=lambda project: object(),
        re=ReStub(),
        get_marked_import=lambda tree, *a_, **k_: None,
        extract_scope=lambda source, project, *a_, **k_: object(),
        get_marked_atribute=lambda tree, *a_, **k_: None,
        get_marked_name=lambda tree, *a_, **k_: None,
        list_packages=lambda project, root, filename: ['<packages of %r>' % (root,)],
        print_dump=lambda tree, *a_, **k_: None,
    ))
    col = z3.Int('col')
    holder = {}

    def body():
        line = SStr.sym('line')
        text_line(line.base)
        assume(z3.And(col >= 0, col <= line.n()))
        full['line'] = line
        nice = lambda c: z3.Or(is_ident_char(c), *[c == ord(x) for x in ' =([{,+-*/:<>.'])
        chs = line.base.ch
        alpha = lambda c: z3.And(c >= 97, c <= 122)
        run.small_model_hints = [z3.And(line.base.n == m, col == m, chs(m - 1) == 98, chs(m - 2) == ord(sep), chs(m - 3) == 97,
                                        *[z3.Or(alpha(chs(i)), chs(i) == 32) for i in range(m - 3)])
                                 for m in (3, 16, 17, 18, 20) for sep in '=,+'] + \
                                [z3.And(line.base.n == m, col == m, chs(m - 1) == 233, uni_word(z3.IntVal(233)), chs(m - 2) == 97, chs(m - 3) == 32,
                                        *[alpha(chs(i)) for i in range(m - 3)]) for m in (3, 4)] + \
                                [z3.And(line.base.n == m, col == m, chs(m - 1) == 98, chs(m - 2) == 233, uni_word(z3.IntVal(233)), chs(m - 3) == 32,
                                        *[alpha(chs(i)) for i in range(m - 3)]) for m in (3, 4)] + \
                                [z3.And(line.base.n <= m, *[nice(chs(i)) for i in range(m)]) for m in (3, 5, 8)] + [line.base.n <= 16]
        full['cut'] = SStr(line.base, line.lo, z3.simplify(line.lo + col))
        holder['out'] = None
        return f(None, line, (SInt(z3.Int('ln')), SInt(col)), '<f>')

    def on_path(p, out):
        cut = full['cut']
        if out[0] != 'ok':
            prove('no-exception(%s)' % type(out[1]).__name__, False, clause='the prefix computation raises nothing', path=p)
            return
        prefix, props = out[1]
        frombranch = props and isinstance(props[0], str) and props[0].startswith('<packages')
        if frombranch:
            return      # covered by harness assist_prefix_from
        claim = ident_run_claim(cut, prefix)
        if twin and claim is not None:
            k = z3.Int('k')
            ident2 = lambda c: z3.Or(is_ident_char(c), c == 45)
            lo = prefix.lo if is_s(prefix) else cut.hi
            claim = z3.And(lo >= cut.lo, lo <= cut.hi, z3.ForAll([k], z3.Implies(z3.And(k >= lo, k < cut.hi), ident2(cut.base.ch(k)))),
                           z3.Or(lo == cut.lo, z3.Not(ident2(cut.base.ch(lo - 1)))))
        prove('prefix-is-identifier-run', claim if claim is not None else False,
              clause='prefix == longest run of identifier characters immediately left of the cursor', path=p)
        prove('proposals-sorted-list', props == [], clause='no marked node: empty proposal list', path=p)
    core.explore(body, on_path)


def domain_chars(s, pred, lo=0):
    """precondition helper: every character of s from view index lo on satisfies pred"""
    k = z3.Int('dk')
    axiom(z3.ForAll([k], z3.Implies(z3.And(k >= s.lo + lo, k < s.hi), pred(s.base.ch(k)))))


@harness('C12', 'supp.assistant.assist[prefix, from-branch]')
def assist_prefix_from(run):
    """cursor inside the module name of `from <module>` (no ' import ' yet: the text does not parse): requires the text after `from ` to be made
    of identifier characters, dots and blanks (a prefix of a valid from-import); prefix == identifier run left of the cursor"""
    f = loader.load(MOD, 'assist', stubs=dict(
        Source=lambda source, filename, position: SourceStub(source, parses=False),
        EvalCtx=lambda project: object(), re=ReStub(),
        get_marked_import=lambda tree, *a_, **k_: None, extract_scope=lambda source, project, *a_, **k_: object(),
        get_marked_atribute=lambda tree, *a_, **k_: None, get_marked_name=lambda tree, *a_, **k_: None,
        list_packages=lambda project, root, filename: ['<packages>', root], print_dump=lambda tree, *a_, **k_: None))
    holder = {}

    def body():
        line = SStr.sym('line')
        text_line(line.base)
        holder['line'] = line
        # domain: blanks, then `from `, then identifier characters / dots / blanks
        i0 = z3.Int('indent')
        assume(z3.And(i0 >= 0, i0 + 5 <= line.n()))
        k = z3.Int('dk')
        axiom(z3.ForAll([k], z3.Implies(z3.And(k >= 0, k < i0), z3.Or(line.at(k) == 32, line.at(k) == 9))))
        assume(line.match_at(i0, 'from '))
        axiom(z3.ForAll([k], z3.Implies(z3.And(k >= i0 + 5, k < line.n()),
                                        z3.Or(is_ident_char(line.at(k)), line.at(k) == 46, line.at(k) == 32))))
        return f(None, line, (SInt(z3.Int('ln')), SInt(line.n())), '<f>')

    def on_path(p, out):
        line = holder['line']
        if out[0] != 'ok':
            if isinstance(out[1], SyntaxError):
                return      # the line is not a bare `from <module>`: a text that does not parse raises SyntaxError (C08 allows exactly that)
            prove('no-exception(%s)' % type(out[1]).__name__, False, path=p)
            return
        prefix, props = out[1]
        if not (props and props[0] == '<packages>'):
            # ' import ' occurs in the line: not this branch
            return
        holder['reached'] = holder.get('reached', 0) + 1
        claim = ident_run_claim(line, prefix)
        prove('prefix-is-identifier-run', claim if claim is not None else False,
              clause='prefix == longest run of identifier characters immediately left of the cursor', path=p)
    core.explore(body, on_path)

    def reached(path):
        prove('the-unfinished-import-branch-is-reached', holder.get('reached', 0) > 0, kind='lemma',
              clause='some path takes the branch this contract is about (vacuity guard) [%d]' % holder.get('reached', 0), path=path)
    core.explore(lambda: None, lambda p, out: reached(p))


IMPORT_REPLAY = '''import sys; sys.path.insert(0, %(repo)r)
from supp.assistant import assist
from supp.project import Project
import re
src, col = %(src)r, %(col)d
want = re.search(r'[A-Za-z0-9_]*$', src[:col]).group()
try:
    got = assist(Project(['/nonexistent']), src, (1, col), '<replay>')[0]
except Exception as e:
    print('not reproduced here (assist raised %%r)' %% (e,)); sys.exit(0)
if got != want:
    print('REPRODUCED: assist(%%r, cursor at column %%d) prefix = %%r, identifier run left of the cursor = %%r' %% (src, col, got, want)); sys.exit(1)
print('not reproduced')
'''


@harness('C12', 'supp.assistant.assist[prefix, import paths]')
def assist_prefix_import(run):
    """cursor inside a dotted module name of `import a.b|c` / `from a.b|c import x` / inside an imported name of
    `from m import ab|c`: the real assist + get_marked_import + unmark + split_pkg on a real ast node whose name is
    A ++ MARK ++ B (A: the dotted text left of the cursor, B: what follows it); prefix == identifier run left of the cursor"""
    import supp.util as U
    MARK = U.SOURCE_MARK
    f = loader.load(MOD, 'assist', stubs=dict(
        Source=lambda source, filename, position: source,
        EvalCtx=lambda project: object(), re=ReStub(),
        extract_scope=lambda source, project, *a_, **k_: object(),
        get_marked_atribute=lambda tree, *a_, **k_: None, get_marked_name=lambda tree, *a_, **k_: None,
        list_packages=lambda project, root, filename: [], print_dump=lambda tree, *a_, **k_: None))
    holder = {}
    from contracts.util_strings import marked_name, dotted

    class Mod(object):
        def attr_list(self, ctx):
            return []

    class Proj(object):
        def get_nmodule(self, head, filename):
            return Mod()

    def conc(model, ob):
        ev = lambda t: model.eval(t, model_completion=True).as_long()
        A, B = holder['A'], holder['B']
        txt = lambda s: ''.join(chr(ev(s.base.ch(z3.IntVal(i)))) for i in range(ev(s.lo), ev(s.hi)))
        a, b = txt(A), txt(B)
        if holder['form'] == 'import':
            src, col = 'import ' + a + b, 7 + len(a)
        elif holder['form'] == 'from-module':
            src, col = 'from ' + a + b + ' import x', 5 + len(a)
        elif holder['form'] == 'from-name-after-a-parenthesis':
            src, col = 'from os import(' + a + b + ')', 15 + len(a)
        elif holder['form'] == 'from-name-after-a-tab':
            src, col = 'from os import\t' + a + b, 15 + len(a)
        else:
            src, col = 'from os import ' + a + b, 15 + len(a)
        return {'input': {'source': src, 'cursor': [1, col]}, 'script': IMPORT_REPLAY % {'repo': core.REPO, 'src': src, 'col': col}}
    run.concretise = conc

    for form in ('import', 'from-module', 'from-name', 'from-name-after-a-parenthesis', 'from-name-after-a-tab'):
        def body(form=form):
            holder['form'] = form
            # the text left of the cursor on the line ends with A
            pre = {'import': 'import ', 'from-module': 'from ', 'from-name': 'from m import ', 'from-name-after-a-parenthesis': 'from m import(',
                   'from-name-after-a-tab': 'from m import\t'}[form]
            A, B = SStr.sym('A'), SStr.sym('B')
            for s in (A, B):
                text_line(s.base)
            if form.startswith('from-name'):
                domain_chars(A, is_ident_char)
                domain_chars(B, is_ident_char)
            else:
                dotted(A)
                dotted(B)
            al = lambda c: z3.And(c >= 97, c <= 122)
            ald = lambda c: z3.Or(al(c), c == 46)
            run.small_model_hints = [z3.And(A.base.n == na, B.base.n == nb, al(A.base.ch(0)), al(A.base.ch(na - 1)),
                                            *([ald(A.base.ch(i)) for i in range(na)] + [al(B.base.ch(i)) for i in range(nb)]))
                                     for na in (1, 3) for nb in (1, 2)] + [z3.And(A.base.n <= 3, B.base.n <= 3)]
            line = strings.concat([pre, A])
            holder.update(A=A, B=B, line=line)
            name = marked_name(A, B, MARK)
            if form == 'import':
                node = ast.Import(names=[ast.alias(name=name, asname=None)])
            elif form == 'from-module':
                node = ast.ImportFrom(module=name, names=[ast.alias(name='x', asname=None)], level=0)
            else:
                node = ast.ImportFrom(module='m', names=[ast.alias(name=name, asname=None)], level=0)
            tree = ast.Module(body=[node], type_ignores=[])
            src = SourceStub(line, tree)
            return f(Proj(), src, (1, SInt(line.n())), '<f>')

        def on_path(p, out, form=form):
            if out[0] != 'ok':
                prove('%s-no-exception(%s)' % (form, type(out[1]).__name__), False, path=p)
                return
            prefix, props = out[1]
            A = holder['A']
            # identifier run left of the cursor == the part of A after its last dot (the line is pre ++ A, pre ends with a blank)
            k = z3.Int('k')
            if type(prefix) is str:
                ok = z3.And(z3.BoolVal(prefix == ''), z3.Or(A.n() == 0, A.at(A.n() - 1) == 46))
            else:
                n = prefix.n()
                ok = z3.And(n <= A.n(),
                            z3.ForAll([k], z3.Implies(z3.And(k >= 0, k < n),
                                                      prefix.base.ch(prefix.lo + k) == A.base.ch(A.hi - n + k))),
                            z3.ForAll([k], z3.Implies(z3.And(k >= A.hi - n, k < A.hi), is_ident_char(A.base.ch(k)))),
                            z3.Or(n == A.n(), z3.Not(is_ident_char(A.base.ch(A.hi - n - 1)))))
            prove('%s-prefix-is-identifier-run' % form, ok,
                  clause='prefix == longest run of identifier characters immediately left of the cursor', path=p)
        core.explore(body, on_path)


class SColl(Proxy):
    """a names / attribute table of unknown size whose keys are arbitrary strings (dict, set or MergedDict:
    iteration yields each key once - contract of MergedDict.__iter__, C01)"""

    def __init__(self, name):
        self.name = name
        self.arb = None

    def arbitrary(self):
        if self.arb is None:
            self.arb = SStr.sym(self.name + '.key')
        return self.arb


class Filtered(Proxy):
    def __init__(self, coll, elem):
        self.coll, self.elem = coll, elem


DOT_ATTR_REPLAY = '''import sys; sys.path.insert(0, %(repo)r)
from supp.assistant import assist
from supp.project import Project
from supp.util import SOURCE_MARK
src = "class A:\\n    def f(self):\\n        self.bar = 1\\n        self.baz = 2\\n"
prefix, props = assist(Project(['/nonexistent']), src, (3, 15), '<replay>')     # self.ba|r = 1
bad = [p for p in props if SOURCE_MARK in p]
if bad:
    print('REPRODUCED: cursor at `self.ba|r = 1`: proposals %%r contain the internal cursor marker' %% (props,)); sys.exit(1)
print('not reproduced: %%r' %% (props,))
'''


@harness('C12', 'supp.assistant.assist[proposals]', twins=('spec-proposals-unsorted',))
def assist_proposals(run, twin=None):
    """both completion paths: the proposal list is sorted(set(<table keys>)), a key that does not contain the cursor marker reaches it unchanged,
    and a key that does (the name under the cursor) reaches it as unmark(key): no proposal carries the marker, whatever the table holds (an
    arbitrary key is followed through the real code)"""
    import supp.util as U
    MARK = U.SOURCE_MARK
    holder = {}
    run.concretise = lambda model, ob: {'input': 'cursor inside an attribute that is being assigned: self.ba|r = 1',
                                        'script': DOT_ATTR_REPLAY % {'repo': core.REPO}}

    def gen_schema(kind, iterable, elt, conds):
        if not isinstance(iterable, SColl):
            raise EngineEscape('comprehension over %r' % (iterable,))
        e = iterable.arbitrary()
        for c in conds:
            if not c(e):
                raise core.PathEnd()          # this key does not reach the proposals
        return Filtered(iterable, elt(e))

    def sorted_stub(x, **kw):
        if kw:
            raise EngineEscape('sorted(key=...)')
        holder['sorted_arg'] = x
        if type(x) is dict and not x:
            return []
        return ('sorted', x)

    for path in ('attribute', 'name'):
        table = SColl('names')

        class Val(object):
            def attr_list(self, ctx):
                return table

        class Ctx(object):
            def evaluate(self, node, *a_, **k_):
                return Val()

        class Flow(object):
            def names_at(self, pos):
                return table
        node = ast.Name(id='x', ctx=ast.Load())
        node.flow = Flow()
        anode = ast.Attribute(value=node, attr='a', ctx=ast.Load())
        f = loader.load(MOD, 'assist', stubs=dict(
            Source=lambda source, filename, position: source,
            EvalCtx=lambda project: Ctx(), re=ReStub(),
            get_marked_import=lambda tree, *a_, **k_: None, extract_scope=lambda source, project, *a_, **k_: object(),
            get_marked_atribute=(lambda tree, *a_, **k_: anode) if path == 'attribute' else (lambda tree, *a_, **k_: None),
            get_marked_name=lambda tree, *a_, **k_: node, sorted=sorted_stub, unmark=lambda n: ('unmarked', n),
            list=lambda x: ('list', x), tuple=lambda x: ('tuple', x), set=lambda x: ('set', x),
            list_packages=lambda project, root, filename: ['<packages>'], print_dump=lambda tree, *a_, **k_: None),
            comps={0: gen_schema}, comps_optional=True)

        def body(path=path, table=table):
            table.arb = None
            holder.clear()
            line = SStr.sym('line')
            text_line(line.base)
            # not the `from ` early return: the line does not start with it
            assume(z3.Not(z3.And(line.n() >= 5, line.match_at(0, 'from '))))
            assume(z3.Or(line.n() == 0, z3.And(line.at(0) != 32, line.at(0) != 9)))
            return f(None, SourceStub(line), (1, SInt(line.n())), '<f>')

        def on_path(p, out, path=path, table=table):
            if out[0] != 'ok':
                prove('%s-no-exception(%s)' % (path, type(out[1]).__name__), False, path=p)
                return
            prefix, props = out[1]
            if props == ['<packages>']:
                return        # `from <module>` early return: no table involved (harness assist_prefix_from)
            x = holder.get('sorted_arg')
            ok_sorted = isinstance(props, tuple) and props[0] == 'sorted' and props[1] is x
            if twin:
                ok_sorted = isinstance(props, list) and props
            prove('%s-proposals-are-sorted-of-the-table' % path, bool(ok_sorted),
                  clause='proposals == sorted(keys that pass the filter): sorted, and duplicate-free because a table yields each key once', path=p)
            if isinstance(x, tuple) and len(x) == 2 and x[0] == 'set':
                x = x[1]            # set(...) of the keys: duplicate free whatever the table yields
            if isinstance(x, Filtered):
                e, src = x.elem, x.coll
            elif isinstance(x, SColl):
                e, src = x.arbitrary(), x
            else:
                prove('%s-proposals-come-from-the-table' % path, False, path=p)
                return
            if isinstance(e, tuple) and len(e) == 2 and e[0] == 'unmarked':
                # the key under the cursor: proposed as it is written in the text - unmark(key), whose contract (supp.util.unmark) says that
                # exactly the mark is removed; this branch is taken only for a key that carries the mark
                key = e[1]
                J = z3.Int('J')
                has_mark = z3.Exists([J], z3.And(J >= 0, J + len(MARK) <= key.n(), key.match_abs(key.lo + J, MARK)))
                prove('%s-proposals-come-from-the-table' % path, src is table and key is table.arbitrary(),
                      clause='every proposal is a key of the table, the one under the cursor with the mark removed', path=p)
                prove('%s-only-a-marked-key-is-rewritten' % path, has_mark, clause='unmark is applied only to a key that contains the mark', path=p)
                return
            prove('%s-proposals-come-from-the-table' % path, src is table and e is table.arbitrary(),
                  clause='every proposal is a key of the table, unchanged', path=p)
            J = z3.Int('J')
            occurs = z3.Exists([J], z3.And(J >= 0, J + len(MARK) <= e.n(), e.match_abs(e.lo + J, MARK)))
            prove('%s-proposals-marker-free' % path, z3.Not(occurs),
                  clause='no proposal contains the internal cursor marker', path=p)
        core.explore(body, on_path)


class TagSet(object):
    """set(x) / a | b as a term: what the proposals are computed from"""
    def __init__(self, *parts):
        self.parts = parts

    def __or__(self, o):
        return TagSet(*(self.parts + o.parts))

    def union(self, o):
        return self | o


@harness('C12', 'supp.assistant.assist[proposals at the import return sites] / list_packages')
def assist_import_proposals(run):
    """`from m import na|me`: proposals == sorted(set(submodules of m) | set(attributes of m)): sorted and duplicate-free by construction;
    `import a.b|` / `from a.b|`: proposals == list_packages(...), which is sorted(<a set>) (empty when the package cannot be resolved)"""
    import supp.assistant as A
    PL, AL = ['<submodules>'], ['<attributes>']
    seen = {}

    class Mod(object):
        def attr_list(self, ctx):
            return AL

    class Proj(object):
        def get_nmodule(self, head, filename):
            return Mod()

    def sorted_stub(x, **kw):
        return ('sorted', x)

    def set_stub(x=()):
        return TagSet(x)
    f = loader.load(MOD, 'assist', stubs=dict(
        Source=lambda source, filename, position: source, EvalCtx=lambda project: object(), re=ReStub(),
        get_marked_import=lambda tree, *a_, **k_: seen['marked'], list_packages=lambda project, root, filename: PL,
        sorted=sorted_stub, set=set_stub, list=lambda x: [('list-of', x)], print_dump=lambda tree, *a_, **k_: None))

    def go(path):
        class Src(object):
            tree = None
            lines = ['from m import na']
        seen['marked'] = ('m', 'name')
        r = f(Proj(), Src(), (1, 16), 'f.py')
        ok = isinstance(r, tuple) and isinstance(r[1], tuple) and r[1][0] == 'sorted' and isinstance(r[1][1], TagSet) \
            and sorted(map(id, r[1][1].parts)) == sorted(map(id, (PL, AL)))
        prove('from-import-proposals-are-sorted-set-union', ok,
              clause='proposals == sorted(set(submodules) | set(module attributes)): sorted, each identifier once [%r]' % (r[1],), path=path)
        seen['marked'] = ('a.b', None)
        r = f(Proj(), Src(), (1, 16), 'f.py')
        prove('module-name-proposals-are-the-package-listing', r[1] is PL, path=path)
        # `from <text>|`: the package whose children are listed is the dotted text left of the last dot - as a relative level when that is
        # dots only - and the prefix is what follows it (oracle: written from the grammar of relative module names, not from the code)
        asked = []
        f2 = loader.load(MOD, 'assist', stubs=dict(
            Source=lambda source, filename, position: source, EvalCtx=lambda project: object(),
            list_packages=lambda project, root, filename: asked.append(root) or ['<listing of %s>' % root], print_dump=lambda tree, *a_, **k_: None))
        for text, ws in [(t_, ' ') for t_ in ('', 'o', 'os.pa', 'os.', 'os.path.jo', '.', '..', '.x', '..x', '.a.', '.a.b', '..a.b.', '..a.b.c', '...', '...pkg.')] + \
                [('os.pa', '  '), ('os.pa', ' \t'), ('.a.b', ' \t '), ('..', '   '), ('os.', ' \t\t')]:
            level = len(text) - len(text.lstrip('.'))
            rest = text[level:]
            want_pkg, want_prefix = ('.' * level + rest.rsplit('.', 1)[0], rest.rsplit('.', 1)[1]) if '.' in rest else ('.' * level, rest)

            class Src2(object):
                lines = ['    from' + ws + text]

                @property
                def tree(self):
                    raise SyntaxError('an unfinished import does not parse')
            del asked[:]
            try:
                r = f2(Proj(), Src2(), (1, 8 + len(ws) + len(text)), 'f.py')
            except Exception as e:
                r = ('<raised %s>' % type(e).__name__, None)
            prove('from-branch-lists-the-package-left-of-the-last-dot[from%s%s]' % (ws.replace('\t', '<tab>'), text or '<nothing>'), asked == [want_pkg] and r[0] == want_prefix,
                  clause='children of %r, prefix %r [asked %r, prefix %r]' % (want_pkg, want_prefix, asked, r[0]), path=path)
        # assistant.list_packages itself
        lp = loader.load(MOD, 'list_packages', stubs=dict(sorted=sorted_stub))
        the_set = {'x', 'y'}

        class P2(object):
            def norm_package(self, root, filename):
                return 'abs.' + root

            def list_packages(self, root):
                assert root == 'abs.r'
                return the_set
        r = lp(P2(), 'r', 'f.py')
        ok = isinstance(r, tuple) and r[0] == 'sorted' and sorted(r[1]) == ['x', 'y']
        prove('list-packages-is-sorted-of-a-set', ok, clause='list_packages == sorted(project.list_packages(normalised root)) [%r]' % (r,), path=path)
    core.explore(lambda: None, lambda p, out: go(p))
