"""BOUNDED stand-in for C06 on whole programs: generated class hierarchies (chains and multiple inheritance without repeated ancestors, overrides
at every level, class attributes, methods, properties, self-assignments in arbitrary methods).  The oracle executes the same text under CPython
and reads __mro__ and vars(); the real assist / location must propose every source-defined attribute Python finds on the instance and land on
the definition Python's lookup selects.  Not counted as proved (the deductive obligations of contracts/attrs.py cover the merge functions; that
the evaluator feeds them the right values for `D()`, `self`, a class name is what this stand-in samples)."""
import itertools

from pysym import core
from pysym.core import prove
from pysym.harness import harness

SHAPES = {
    'chain3': [('A', []), ('B', ['A']), ('D', ['B'])],
    'two-bases': [('B', []), ('C', []), ('D', ['B', 'C'])],
    'two-bases-with-parents': [('A', []), ('B', ['A']), ('E', []), ('C', ['E']), ('D', ['B', 'C'])],
    'object-base': [('A', ['object']), ('D', ['A'])],
    # a runtime class among the bases, after and before a source base
    'runtime-base-after-a-source-base': [('A', []), ('B', ['A']), ('D', ['B', 'Exception'])],
    'runtime-base-before-a-source-base': [('A', []), ('D', ['Exception', 'A'])],
}


def build(shape, shared_in, kind, inst_in):
    """text of a module; returns text, {class: {attr: line}} for class-body attributes, {attr: [lines]} for self-assignments"""
    lines = []
    body_attr = {}
    inst_attr = {}

    def emit(t):
        lines.append(t)
        return len(lines)
    for cls, bases in SHAPES[shape]:
        emit('class %s(%s):' % (cls, ', '.join(bases)) if bases else 'class %s:' % cls)
        attrs = body_attr.setdefault(cls, {})
        attrs['only_%s' % cls.lower()] = emit('    only_%s = 1' % cls.lower())
        if cls in shared_in:
            if kind == 'method':
                attrs['shared'] = emit('    def shared(self): return %r' % cls)
            elif kind == 'classattr':
                attrs['shared'] = emit('    shared = %r' % cls)
            else:
                emit('    @property')
                attrs['shared'] = emit('    def shared(self): return %r' % cls)
        attrs['meth_%s' % cls.lower()] = emit('    def meth_%s(self):' % cls.lower())
        if cls in inst_in:
            inst_attr.setdefault('inst_x', []).append(emit('        self.inst_x = %r' % cls))
            inst_attr.setdefault('inst_%s' % cls.lower(), []).append(emit('        self.inst_%s = 1' % cls.lower()))
        emit('        return self')
        emit('')
    emit('obj = D()')
    return lines, body_attr, inst_attr


REPLAY = '''import sys; sys.path.insert(0, %(repo)r)
from supp.assistant import assist, location
from supp.project import Project
text = %(text)r
print(text)
p = Project(['/nonexistent'])
print(%(call)s)
print('CPython: __mro__ of D =', %(mro)r, '; expected', %(want)r)
print('REPRODUCED: %(why)s')
'''


@harness(['C06'], 'supp.assistant.assist / location on obj.attr and self.attr [generated class hierarchies executed under CPython]',
         bounded='6 hierarchy shapes (chain of 3, two bases, two bases with a parent each, explicit object base, a runtime class after and before a source base) x every subset of classes overriding '
                 '`shared` (as method, class attribute, property) x every subset of classes assigning self.inst_x in a method; receivers obj = D() '
                 'and self inside a method of D')
def hierarchies(run):
    """BOUNDED stand-in: proposals on `obj.` / `self.` include every class-body name along D.__mro__ (as CPython computes it) and every attribute
    assigned through self in a method of a class of the MRO; location of obj.shared is the first class of the MRO defining it; location of
    obj.inst_x is one of the instance assignments.  Not counted as proved."""
    import supp.assistant as A
    import supp.project as Pj

    def go(path):
        n = 0
        for shape, classes in SHAPES.items():
            names = [c for c, _ in classes]
            for k in range(len(names) + 1):
                for shared_in in itertools.combinations(names, k):
                    for kind in (('method', 'classattr', 'property') if shared_in else ('method',)):
                        for j in range(len(names) + 1):
                            for inst_in in itertools.combinations(names, j):
                                if len(inst_in) > 2 and shape == 'two-bases-with-parents':
                                    continue
                                lines, body_attr, inst_attr = build(shape, shared_in, kind, inst_in)
                                text = '\n'.join(lines) + '\n'
                                ns = {}
                                exec(compile(text, '<c06>', 'exec'), ns)
                                mro = [c.__name__ for c in ns['D'].__mro__ if c.__name__ in body_attr]          # (the source classes of the MRO)
                                want_attrs = set()
                                for c in mro:
                                    want_attrs |= set(body_attr[c])
                                want_attrs |= set(a for a, lns in inst_attr.items() if lns)     # assigned in a method of a class of the MRO (all classes are)
                                first_shared = next((body_attr[c]['shared'] for c in mro if 'shared' in body_attr[c]), None)
                                n += 1
                                run.case = '%s-%d' % (shape, n)
                                project = Pj.Project(['/nonexistent'])
                                # 1. completion on the instance
                                src = text + 'obj.\n'
                                pos = (len(lines) + 1, 4)
                                try:
                                    got = set(A.assist(project, src, pos)[1])
                                except Exception as e:
                                    got = {'<raised %s>' % type(e).__name__}
                                missing = sorted(want_attrs - got)
                                if missing:
                                    core.RUN.concretise = lambda model, ob, src=src, pos=pos, mro=mro, missing=missing: {'input': src, 'script': REPLAY % {
                                        'repo': core.REPO, 'text': src, 'call': 'assist(p, text, %r)' % (pos,), 'mro': mro, 'want': missing,
                                        'why': 'attributes Python finds on D() are not proposed'}}
                                prove('instance-proposals-cover-the-mro', not missing,
                                      clause='completion on obj = D() proposes every class-body name along the MRO and every self-assigned attribute '
                                             '[missing %r; MRO %r]\n%s' % (missing, mro, text), path=path)
                                core.RUN.concretise = None
                                # 2. go-to-definition of the overridden attribute
                                if first_shared:
                                    src = text + 'obj.shared\n'
                                    pos = (len(lines) + 1, 7)
                                    try:
                                        loc = A.location(project, src, pos)
                                    except Exception as e:
                                        loc = '<raised %s>' % type(e).__name__
                                    got_lines = [l['loc'][0] for l in loc if isinstance(l, dict)] if isinstance(loc, list) else loc
                                    ok = got_lines == [first_shared]
                                    if not ok:
                                        core.RUN.concretise = lambda model, ob, src=src, pos=pos, mro=mro, w=first_shared: {'input': src, 'script': REPLAY % {
                                            'repo': core.REPO, 'text': src, 'call': 'location(p, text, %r)' % (pos,), 'mro': mro, 'want': 'line %d' % w,
                                            'why': 'go-to-definition does not land on the class Python selects'}}
                                    prove('definition-is-the-first-class-of-the-mro', ok,
                                          clause='location(obj.shared) is the definition in the first class of D.__mro__ that has it '
                                                 '[line %r expected, got %r; MRO %r]\n%s' % (first_shared, got_lines, mro, text), path=path)
                                    core.RUN.concretise = None
                                # 3. go-to-definition of an instance attribute
                                if inst_attr.get('inst_x'):
                                    src = text + 'obj.inst_x\n'
                                    pos = (len(lines) + 1, 7)
                                    try:
                                        loc = A.location(project, src, pos)
                                    except Exception as e:
                                        loc = '<raised %s>' % type(e).__name__
                                    got_lines = [l['loc'][0] for l in loc if isinstance(l, dict)] if isinstance(loc, list) else loc
                                    ok = isinstance(got_lines, list) and len(got_lines) == 1 and got_lines[0] in inst_attr['inst_x']
                                    prove('definition-of-an-instance-attribute-is-an-instance-assignment', ok,
                                          clause='location(obj.inst_x) is one of the self.inst_x assignments [%r expected, got %r]\n%s' % (
                                              inst_attr['inst_x'], got_lines, text), path=path)
                                # 4. completion on self inside a method of D
                                dline = next(i for i, l in enumerate(lines) if l.startswith('    def meth_d')) + 1
                                src_lines = list(lines)
                                src_lines.insert(dline, '        self.')
                                src = '\n'.join(src_lines) + '\n'
                                pos = (dline + 1, 13)
                                try:
                                    got = set(A.assist(project, src, pos)[1])
                                except SyntaxError:
                                    got = None
                                except Exception as e:
                                    got = {'<raised %s>' % type(e).__name__}
                                if got is not None:
                                    missing = sorted(want_attrs - got)
                                    prove('self-proposals-cover-the-mro', not missing,
                                          clause='completion on self inside a method of D proposes the same attributes [missing %r; MRO %r]\n%s' % (
                                              missing, mro, src), path=path)
        run.case = None
    core.explore(lambda: None, lambda p, out: go(p))


IMPORT_FORMS = [
    ('import-module', 'import basemod', 'basemod.B'),
    ('from-import', 'from basemod import B', 'B'),
    ('from-import-as', 'from basemod import B as Bx', 'Bx'),
    ('import-module-as', 'import basemod as bm', 'bm.B'),
    ('star-import', 'from basemod import *', 'B'),
    ('package-submodule', 'import pk.inner', 'pk.inner.B'),
    ('from-package-import-module', 'from pk import inner', 'inner.B'),
]

MM_REPLAY = '''import sys, os, tempfile, shutil; sys.path.insert(0, %(repo)r)
from supp.assistant import assist, location
from supp.project import Project
d = tempfile.mkdtemp(prefix='supp-c06-')
try:
    os.makedirs(os.path.join(d, 'pk'))
    open(os.path.join(d, 'pk', '__init__.py'), 'w').close()
    for fn in ('basemod.py', os.path.join('pk', 'inner.py')):
        open(os.path.join(d, fn), 'w').write(%(base)r)
    text = %(text)r
    print(%(base)r); print(text)
    got = %(call)s
    print(got)
    print('expected:', %(want)r)
    print('REPRODUCED: %(why)s')
finally:
    shutil.rmtree(d, ignore_errors=True)
'''


@harness(['C06'], 'supp.assistant.assist / location on obj.attr [base classes in another project module, every import form]',
         bounded='base chain A <- B in a project module (top-level module and module inside a package), class D(<reference to B>) in the edited text '
                 'through 7 import forms x every subset of {A, B, D} overriding `shared` x every subset assigning self.inst_x')
def hierarchies_across_modules(run):
    """BOUNDED stand-in: the same claims as `hierarchies`, with the bases of D defined in another project module and referenced through every
    import form (dotted reference, from-import, alias, star import, package submodule).  Not counted as proved."""
    import os
    import shutil
    import tempfile
    import supp.assistant as A
    import supp.project as Pj

    def go(path):
        top = tempfile.mkdtemp(prefix='supp-c06-')
        try:
            os.makedirs(os.path.join(top, 'pk'))
            open(os.path.join(top, 'pk', '__init__.py'), 'w').close()
            n = 0
            names = ['A', 'B', 'D']
            for form, imp, ref in IMPORT_FORMS:
                for k in range(len(names) + 1):
                    for shared_in in itertools.combinations(names, k):
                        for j in range(len(names) + 1):
                            for inst_in in itertools.combinations(names, j):
                                n += 1
                                run.case = '%s-%d' % (form, n)
                                base_lines, body_attr, inst_attr = [], {}, {}

                                def cls(lines, name, bases):
                                    lines.append('class %s(%s):' % (name, bases) if bases else 'class %s:' % name)
                                    at = body_attr.setdefault(name, {})
                                    lines.append('    only_%s = 1' % name.lower())
                                    at['only_%s' % name.lower()] = len(lines)
                                    if name in shared_in:
                                        lines.append('    def shared(self): return %r' % name)
                                        at['shared'] = len(lines)
                                    lines.append('    def meth_%s(self):' % name.lower())
                                    at['meth_%s' % name.lower()] = len(lines)
                                    if name in inst_in:
                                        lines.append('        self.inst_x = %r' % name)
                                        inst_attr.setdefault('inst_x', []).append((name, len(lines)))
                                    lines.append('        return self')
                                cls(base_lines, 'A', '')
                                cls(base_lines, 'B', 'A')
                                base = '\n'.join(base_lines) + '\n'
                                for fn in ('basemod.py', os.path.join('pk', 'inner.py')):
                                    with open(os.path.join(top, fn), 'w') as f:
                                        f.write(base)
                                    os.utime(os.path.join(top, fn), (n + 1000, n + 1000))
                                lines = [imp]
                                cls(lines, 'D', ref)
                                lines.append('obj = D()')
                                text = '\n'.join(lines) + '\n'
                                want_attrs = set()
                                for c in ('D', 'B', 'A'):
                                    want_attrs |= set(body_attr[c])
                                if inst_attr.get('inst_x'):
                                    want_attrs.add('inst_x')
                                project = Pj.Project([top])
                                fname = os.path.join(top, 'main.py')
                                src = text + 'obj.\n'
                                pos = (len(lines) + 1, 4)
                                try:
                                    got = set(A.assist(project, src, pos, fname)[1])
                                except Exception as e:
                                    got = {'<raised %s>' % type(e).__name__}
                                missing = sorted(want_attrs - got)
                                if missing:
                                    core.RUN.concretise = lambda model, ob, base=base, src=src, pos=pos, missing=missing: {'input': src, 'script': MM_REPLAY % {
                                        'repo': core.REPO, 'base': base, 'text': src, 'call': 'assist(Project([d]), text, %r, os.path.join(d, "main.py"))' % (pos,),
                                        'want': missing, 'why': 'attributes Python finds on D() are not proposed'}}
                                prove('instance-proposals-cover-the-mro', not missing,
                                      clause='completion on obj = D() proposes the class-body names and self-assigned attributes of D and of its bases in the '
                                             'other module [missing %r]\n%s---\n%s' % (missing, base, text), path=path)
                                core.RUN.concretise = None
                                first = next((c for c in ('D', 'B', 'A') if 'shared' in body_attr[c]), None)
                                if first:
                                    src = text + 'obj.shared\n'
                                    pos = (len(lines) + 1, 7)
                                    try:
                                        loc = A.location(project, src, pos, fname)
                                    except Exception as e:
                                        loc = '<raised %s>' % type(e).__name__
                                    got_l = [(os.path.basename(l['file']), l['loc'][0]) for l in loc if isinstance(l, dict)] if isinstance(loc, list) else loc
                                    wantf = 'main.py' if first == 'D' else ('inner.py' if 'pk' in imp else 'basemod.py')
                                    ok = got_l == [(wantf, body_attr[first]['shared'])]
                                    prove('definition-is-the-first-class-of-the-mro', ok,
                                          clause='location(obj.shared) is the definition in the first class of the MRO that has it [%r expected, got %r]\n%s---\n%s' % (
                                              (wantf, body_attr[first]['shared']), got_l, base, text), path=path)
        finally:
            run.case = None
            shutil.rmtree(top, ignore_errors=True)
    core.explore(lambda: None, lambda p, out: go(p))


SPECIAL = [
    ('bare-annotation-assigns-nothing',
     'class K:\n    x = 1\n    def m(self):\n        self.x: int\n        self.z: int = 3\n        return self\nobj = K()\nobj.x\n', (8, 5), [2]),
    ('instance-assignment-wins-over-the-class-default',
     'class Job:\n    timeout = None\n    def __init__(self):\n        self.timeout = 30\njob = Job()\njob.timeout\n', (6, 10), [4]),
    ('class-default-of-a-base-loses-to-the-subclass-instance-assignment',
     'class Base:\n    timeout = None\nclass Job(Base):\n    def setup(self):\n        self.timeout = 30\njob = Job()\njob.timeout\n', (7, 10), [5]),
    ('class-default-of-the-subclass-loses-to-the-instance-assignment-of-a-base',
     'class Base:\n    def setup(self):\n        self.timeout = 30\nclass Client(Base):\n    timeout = None\nc = Client()\nc.timeout\n', (7, 8), [3]),
    ('class-default-of-the-subclass-loses-to-the-instance-assignment-of-a-grandparent',
     'class Root:\n    def setup(self):\n        self.handler = print\nclass Mid(Root):\n    pass\nclass Leaf(Mid):\n    handler = None\nleaf = Leaf()\nleaf.handler\n',
     (9, 12), [3]),
    ('valued-annotation-is-an-instance-assignment',
     'class K:\n    z = 1\n    def m(self):\n        self.z: int = 3\n        return self\nobj = K()\nobj.z\n', (7, 5), [4]),
]
OBJECT_DIAMOND = ('class B(object):\n    pass\nclass C(object):\n    def __repr__(self):\n        return "C"\n    def plain(self):\n        return 1\n'
                  'class D(B, C):\n    pass\nobj = D()\nobj.__repr__\n', (11, 8), [4])


@harness(['C06'], 'supp.assistant.location on obj.attr [annotations without a value; explicit object bases]',
         bounded='7 programs: self.x: T without a value, self.z: T = v, instance assignments against class defaults (own class, base, grandparent), and class D(B, C) with B(object), C(object) overriding a method of object')
def special_lookups(run):
    """BOUNDED: a bare annotation `self.x: T` assigns nothing (the class attribute is what Python finds); an annotated assignment does; a method of
    `object` inherited through an explicit `(object)` base of an earlier base class does not hide the override in a later base (object is last
    in the MRO).  Not counted as proved."""
    import supp.assistant as A
    import supp.project as Pj

    def go(path):
        for label, src, pos, want in SPECIAL + [('object-base-is-last-in-the-mro',) + OBJECT_DIAMOND]:
            ns = {}
            exec(compile(src.rsplit('\n', 2)[0] + '\n', '<c06>', 'exec'), ns)
            try:
                loc = A.location(Pj.Project(['/nonexistent']), src, pos)
                got = [l['loc'][0] for l in loc if isinstance(l, dict)]
            except Exception as e:
                got = '<raised %s>' % type(e).__name__
            if got != want:
                core.RUN.concretise = lambda model, ob, src=src, pos=pos, want=want: {'input': src, 'script': REPLAY % {
                    'repo': core.REPO, 'text': src, 'call': 'location(p, text, %r)' % (pos,), 'mro': 'see the text', 'want': 'line %r' % want,
                    'why': 'go-to-definition does not land on the definition Python selects'}}
            prove(label, got == want, clause='location lands on line %r [got %r]\n%s' % (want, got, src), path=path)
            core.RUN.concretise = None
    core.explore(lambda: None, lambda p, out: go(p))


DOTTED_TREE = {
    'a/__init__.py': 'xa = 1\n',
    'a/b/__init__.py': 'yb = 2\n',
    'a/b/c.py': 'zc = 3\n',
    'a/b/c2.py': 'zc2 = 4\n',
    'a/d.py': 'wd = 5\n',
    'a/e/__init__.py': 'ue = 6\n',
    'a/e/f.py': 'vf = 7\n',
}
DOTTED_CASES = [
    # (import lines, expression before the cursor, names that must be proposed, names that must not, file go-to-definition of the expression lands in)
    ('import a.b.c', 'a.', ['xa', 'b'], ['c', 'b.c', 'd'], 'a/__init__.py'),
    ('import a.b.c', 'a.b.', ['yb', 'c'], ['c2', 'zc'], 'a/b/__init__.py'),
    ('import a.b.c', 'a.b.c.', ['zc'], ['yb'], 'a/b/c.py'),
    ('import a.b.c\nimport a.d', 'a.', ['xa', 'b', 'd'], ['c'], 'a/__init__.py'),
    ('import a.b.c\nimport a.b.c2\nimport a.e.f', 'a.b.', ['yb', 'c', 'c2'], ['f'], 'a/b/__init__.py'),
    ('import a.b.c\nimport a.b.c2\nimport a.e.f', 'a.e.', ['ue', 'f'], ['c'], 'a/e/__init__.py'),
    ('import a.b.c\nimport a.b.c2\nimport a.e.f', 'a.', ['xa', 'b', 'e'], ['f', 'c', 'e.f', 'b.c'], 'a/__init__.py'),
    ('import a.b', 'a.b.', ['yb'], ['zc'], 'a/b/__init__.py'),
    ('import a.b.c as leaf', 'leaf.', ['zc'], ['yb', 'xa'], 'a/b/c.py'),
    ('from a.b import c', 'c.', ['zc'], ['yb'], 'a/b/c.py'),
    ('from a import b', 'b.', ['yb'], ['xa'], 'a/b/__init__.py'),
]


@harness(['C07', 'C12', 'C06'], 'supp.name.ImportedName.resolve [dotted imports: what `import a.b.c` makes reachable]',
         bounded='one package tree (a, a.b, a.b.c, a.b.c2, a.d, a.e, a.e.f) x 11 import forms / expressions')
def dotted_imports(run):
    """BOUNDED: after `import a.b.c` the name a is the package a with its submodule b reachable, a.b is the package a/b (the file importlib
    loads for that name) with c reachable, and so on: completion proposes the package's own names and exactly the submodules the imports
    make reachable (identifiers, no dotted names), and go-to-definition on each prefix lands in the file importlib loads for it.  Not counted
    as proved."""
    import importlib.util
    import os
    import shutil
    import sys
    import tempfile
    import supp.assistant as A
    import supp.project as Pj

    def go(path):
        top = tempfile.mkdtemp(prefix='supp-c07-')
        try:
            for fn, body in DOTTED_TREE.items():
                os.makedirs(os.path.dirname(os.path.join(top, fn)), exist_ok=True)
                with open(os.path.join(top, fn), 'w') as f:
                    f.write(body)
            fname = os.path.join(top, 'main.py')
            for imports, expr, must, must_not, want_file in DOTTED_CASES:
                label = '%s | %s' % (imports.replace('\n', '; '), expr)
                src = imports + '\n' + expr + '\n'
                ln = imports.count('\n') + 2
                try:
                    got = A.assist(Pj.Project([top]), src, (ln, len(expr)), fname)[1]
                except Exception as e:
                    got = ['<raised %s>' % type(e).__name__]
                missing = [m for m in must if m not in got]
                extra = [m for m in must_not if m in got]
                nonident = [g for g in got if not g.isidentifier()]
                prove('%s:proposals' % label, not missing and not extra and not nonident,
                      clause='proposals after %r [missing %r, must not be there %r, not identifiers %r; got %r]' % (label, missing, extra, nonident, got[:12]), path=path)
                # go-to-definition of the expression itself (cursor at its end, before the dot)
                src2 = imports + '\n' + expr[:-1] + '\n'
                try:
                    loc = A.location(Pj.Project([top]), src2, (ln, len(expr) - 1), fname)
                    # the chain of definitions: the import statement in the edited file, then what it resolves to
                    files = [os.path.relpath(l['file'], top) for l in loc if isinstance(l, dict) and l.get('file', '').startswith(top)][-1:]
                except Exception as e:
                    files = ['<raised %s>' % type(e).__name__]
                modname = want_file[:-3].replace('/__init__', '').replace('/', '.')
                sys.path.insert(0, top)
                try:
                    spec = importlib.util.find_spec(modname)
                    origin = os.path.relpath(spec.origin, top) if spec else None
                except Exception:
                    origin = None
                finally:
                    sys.path.remove(top)
                    for k in [k for k in sys.modules if k == 'a' or k.startswith('a.')]:
                        del sys.modules[k]
                prove('%s:definition-is-the-file-importlib-loads' % label, files == [origin] and origin == want_file,
                      clause='location(%s) lands in %r; importlib loads %r for %s' % (expr[:-1], files, origin, modname), path=path)
        finally:
            shutil.rmtree(top, ignore_errors=True)
    core.explore(lambda: None, lambda p, out: go(p))


DECORATED = '''import functools
import os


def passthrough(fn):
    @functools.wraps(fn)
    def inner(*a, **k):
        return fn(*a, **k)
    return inner


class Root(object):
    limit = 10

    def configure(self):
        self.options = {}

    @property
    def table(self):
        self._table = [self.limit]
        return self._table

    @table.setter
    def table(self, value):
        self.set_by_setter = value

    @passthrough
    def wrapped(self):
        self.by_wrapped = 1

    @classmethod
    def make(cls):
        cls.made_by_classmethod = 1
        return cls()

    def __enter__(self):
        self.entered = True
        return self

    def __exit__(self, *a):
        pass


class Middle(Root):
    def run(self):
        self.state = 1

    def unpack(self, pair):
        self.host, self.port = pair
        [self.low, self.high] = pair
        self.head, (self.mid, self.tail) = 0, pair
        self.first, *self.others = pair
        self.chained = self.chained_too = pair
        for self.loop_var in pair:
            pass
        with open(os.devnull) as self.handle:
            pass

    @property
    def lazy(self):
        self.lazy_value = 2
        return self.lazy_value

    @functools.lru_cache(None)
    def cached(self):
        self.by_cached = 3


class Leaf(Middle):
    leaf_flag = True

    def __call__(self):
        self.called = 1
'''
# how the oracle drives the object so that every assignment through self has run
DRIVE = '''obj = Leaf()
obj.configure(); obj.table; obj.table = 5; obj.wrapped(); made = Leaf.make(); obj.run(); obj.unpack((1, 2)); obj.lazy; obj.cached(); obj()
with obj: pass
'''
DECORATED_RECEIVERS = [('obj = Leaf()\nobj.', 'instance'), ('Leaf.', 'class'),
                       ('class Sub(Leaf):\n    def probe(self):\n        return self.', 'self in a method of a subclass')]
# (the value of a name bound by `with ... as` is not among the values supp determines; an attribute
#  assigned through `cls` is not one "assigned through self": the statement does not demand them)


FLUENT_PROGRAM = '''class P_:
    def configure(self):
        self.configured = 1
        return self


class C_(P_):
    own = 2

    def extra(self):
        self.more = 3


obj = C_().configure()
'''


@harness(['C06'], 'supp.assistant.assist on the value of a method that returns self [called on an instance of a subclass, under CPython]',
         bounded='1 hierarchy of 2 classes; the method is defined in the base and returns self; receivers: an instance of the subclass, an instance of the base')
def method_returning_self(run):
    """BOUNDED: the value of `C_().configure()`, a call of a single-return function, is under CPython the receiver itself - an instance of
    the subclass: proposals include every source-defined attribute found on it.  Not counted as proved."""
    import supp.assistant as A
    import supp.project as Pj

    def go(path):
        ns = {}
        exec(compile(FLUENT_PROGRAM, '<c06>', 'exec'), ns)
        obj = ns['obj']
        found = {n for k in type(obj).__mro__ if k is not object for n in vars(k) if not n.startswith('__')} | set(vars(obj))
        prove('under-cpython-the-call-returns-the-receiver', type(obj).__name__ == 'C_' and found == {'configure', 'configured', 'own', 'extra'}, kind='lemma', path=path)
        for label, recv, want in (('on-an-instance-of-the-subclass', 'C_().configure().', found), ('on-an-instance-of-the-defining-class', 'P_().configure().', {'configure', 'configured'})):
            src = FLUENT_PROGRAM + recv
            pos = (len(src.split('\n')), len(recv))
            got = set(A.assist(Pj.Project(['/nonexistent']), src, pos, '<c06>')[1])
            missing = sorted(want - got)
            script = ('import sys; sys.path.insert(0, %r)\nfrom supp.assistant import assist\nfrom supp.project import Project\ntext = %r\nprint(text)\n'
                      'got = assist(Project(["/nonexistent"]), text, %r, "<c06>")[1]\nprint("proposed:", got)\nmissing = sorted(set(%r) - set(got))\n'
                      'print("REPRODUCED: CPython finds %%r on the object the call returns, they are not proposed" %% (missing,) if missing else "not reproduced")\n'
                      ) % (core.REPO, src, pos, sorted(want))
            core.RUN.concretise = lambda model, ob, src=src, script=script: {'input': src, 'script': script}
            prove('method-returning-self-%s:proposals-include-what-cpython-finds' % label, not missing,
                  clause='`%s` proposes %r; on the real object CPython also finds %r' % (recv, sorted(got), missing), path=path)
            core.RUN.concretise = None
    core.explore(lambda: None, lambda p, out: go(p))


CLS_PROGRAM = '''class K_:
    both = 1
    only_class = 2

    def method(self):
        self.both = 3
        self.inst = 4

    @classmethod
    def make(cls):
        probe = cls.both
        return cls()


made = K_.make()
made.method()
'''


@harness(['C06'], 'supp.scope.FuncScope.get_argument + supp.assistant.location / assist [cls in a classmethod, under CPython]',
         bounded='1 class with an attribute defined in the class body and assigned through self, read through cls in a classmethod; the value of cls()')
def cls_in_a_classmethod(run):
    """BOUNDED: `cls` inside a classmethod is the class: go-to-definition on cls.attr lands on the class-body definition (Python's lookup on a
    class never sees what an instance has of its own), and the instance `cls()` makes has the attributes CPython finds on it.  Not counted as
    proved."""
    import supp.assistant as A
    import supp.project as Pj

    def go(path):
        ns = {}
        exec(compile(CLS_PROGRAM, '<c06>', 'exec'), ns)
        K, made = ns['K_'], ns['made']
        prove('under-cpython-the-class-holds-the-class-body-value', K.both == 1 and made.both == 3 and vars(made) == {'both': 3, 'inst': 4}, kind='lemma', path=path)
        lines = CLS_PROGRAM.split('\n')
        ln = [i for i, l in enumerate(lines) if 'probe = cls.both' in l][0] + 1
        pos = (ln, lines[ln - 1].index('cls.both') + len('cls.both'))
        got = A.location(Pj.Project(['/nonexistent']), CLS_PROGRAM, pos, '<c06>')
        first = got[0] if got else None
        first = first[0] if isinstance(first, list) and first else first
        want = (2, 4)
        script = ('import sys; sys.path.insert(0, %r)\nfrom supp.assistant import location, assist\nfrom supp.project import Project\ntext = %r\nprint(text)\n'
                  'g = location(Project(["/nonexistent"]), text, %r, "<c06>")\nprint("go-to-definition on cls.both:", g)\n'
                  'f = g[0] if g else None\nf = f[0] if isinstance(f, list) and f else f\n'
                  'print("REPRODUCED: cls.both in a classmethod does not land on the class-body definition at (2, 4)" if not f or tuple(f["loc"]) != (2, 4) else "not reproduced")\n'
                  ) % (core.REPO, CLS_PROGRAM, pos)
        core.RUN.concretise = lambda model, ob: {'input': CLS_PROGRAM, 'script': script}
        prove('cls.attr-lands-on-the-class-body-definition', bool(first) and tuple(first['loc']) == want,
              clause='go-to-definition on cls.both inside the classmethod gives %r, Python\'s lookup on the class selects the definition at %r' % (got, want), path=path)
        core.RUN.concretise = None
        src = CLS_PROGRAM + 'made.'
        names = set(A.assist(Pj.Project(['/nonexistent']), src, (len(src.split('\n')), 5), '<c06>')[1])
        prove('the-instance-cls()-makes-has-its-attributes', {'both', 'inst', 'only_class', 'method', 'make'} <= names,
              clause='proposals for the value of K_.make() (which returns cls()): %r' % (sorted(names),), path=path)
    core.explore(lambda: None, lambda p, out: go(p))


@harness(['C06'], 'supp.assistant.assist on obj.attr [self-assignments in property getters / setters, decorated and special methods, under CPython]',
         bounded='1 hierarchy of 3 classes whose attributes are assigned through self in a plain method, a property getter, a property setter, a method '
                 'wrapped by a source decorator, one wrapped by functools.lru_cache, __enter__, __call__, through tuple / list / nested / starred / chained targets and for / with targets, and through cls in a classmethod; receivers: '
                 'an instance, the class, self in a method of a further subclass')
def decorated_methods(run):
    """BOUNDED: proposals include every source-defined attribute CPython finds on the real object after every method ran (vars(obj), class-body
    names along the MRO) - also when the assigning method is a property getter or setter, is wrapped by a decorator, or is a special method
    inherited from a base.  Not counted as proved."""
    import supp.assistant as A
    import supp.project as Pj

    def go(path):
        ns = {}
        exec(compile(DECORATED + DRIVE, '<c06>', 'exec'), ns)
        obj, Leaf = ns['obj'], ns['Leaf']
        class_names = set()
        for k in Leaf.__mro__:
            if k is not object:
                class_names |= {n for n in vars(k) if not (n.startswith('__') and n.endswith('__')) or n in ('__enter__', '__exit__', '__call__')}
        inst_names = set(vars(obj)) | class_names
        for tail, what in DECORATED_RECEIVERS:
            src = DECORATED + tail
            lines = src.split('\n')
            pos = (len(lines), len(lines[-1]))
            want = (class_names if what == 'class' else inst_names) - {'made_by_classmethod'}
            try:
                got = set(A.assist(Pj.Project(['/nonexistent']), src, pos)[1])
            except Exception as e:
                got = {'<raised %s>' % type(e).__name__}
            missing = sorted(want - got)
            if missing:
                core.RUN.concretise = lambda model, ob, src=src, pos=pos, missing=missing: {'input': src, 'script': REPLAY % {
                    'repo': core.REPO, 'text': src, 'call': 'sorted(set(%r) - set(assist(p, text, %r)[1]))' % (missing, pos), 'mro': 'Leaf, Middle, Root, object',
                    'want': 'every name of %r proposed' % (missing,), 'why': 'attributes CPython finds on the real object are not proposed (printed above)'}}
            prove('decorated-methods:%s' % what, not missing,
                  clause='proposals on the %s include every source-defined attribute CPython finds [missing %r]' % (what, missing), path=path)
            core.RUN.concretise = None
    core.explore(lambda: None, lambda p, out: go(p))


PKG_TREE = {
    'pkg/__init__.py': '',
    'pkg/base.py': 'class _Base(object):\n    kind = 1\n    def run(self):\n        self.state = 1\n        return self\n'
                   'class Helper(object):\n    def assist(self):\n        self.helped = True\n_registry = {}\npublic_name = 1\n',
    'pkg/sub/__init__.py': '',
    'pkg/sub/sibling.py': 'from ..base import _Base\nclass Mid(_Base):\n    mid_attr = 2\n    def mid(self):\n        self.mid_state = 3\n',
    'pkg/sub/deep/__init__.py': '',
}
BASE_NAMES = {'kind', 'run', 'state'}
HELPER_NAMES = {'assist', 'helped'}
MID_NAMES = {'mid_attr', 'mid', 'mid_state'}
# (file of the edited text, import line, base expression, names the instance must offer besides its own)
PKG_FORMS = [
    # a subclass that reuses the name of its base (the base expression is read before the class statement rebinds the name)
    ('pkg/leaf.py', 'from .base import _Base as Leaf, Helper', 'Leaf, Helper', BASE_NAMES | HELPER_NAMES),
    ('pkg/sub/leaf.py', 'from ..base import Helper as Leaf', 'Leaf', HELPER_NAMES),
    ('pkg/sub/leaf.py', 'from .. import base', 'base._Base', BASE_NAMES),
    ('pkg/sub/leaf.py', 'from ..base import _Base', '_Base', BASE_NAMES),
    ('pkg/sub/leaf.py', 'from ..base import _Base as B, Helper', 'B, Helper', BASE_NAMES | HELPER_NAMES),
    ('pkg/sub/leaf.py', 'from . import sibling', 'sibling.Mid', BASE_NAMES | MID_NAMES),
    ('pkg/sub/leaf.py', 'from .sibling import Mid', 'Mid', BASE_NAMES | MID_NAMES),
    ('pkg/sub/deep/leaf.py', 'from ... import base', 'base._Base', BASE_NAMES),
    ('pkg/sub/deep/leaf.py', 'from ...base import _Base, Helper', 'Helper, _Base', BASE_NAMES | HELPER_NAMES),
    ('pkg/sub/deep/leaf.py', 'from .. import sibling', 'sibling.Mid', BASE_NAMES | MID_NAMES),
    ('pkg/sub/deep/leaf.py', 'from ..sibling import Mid as M', 'M', BASE_NAMES | MID_NAMES),
    ('pkg/leaf.py', 'from . import base', 'base._Base', BASE_NAMES),
    ('pkg/leaf.py', 'from .base import *\nfrom .base import _Base', '_Base, Helper', BASE_NAMES | HELPER_NAMES),
    ('main.py', 'import pkg.base', 'pkg.base._Base', BASE_NAMES),
    ('main.py', 'import pkg.sub.sibling as sb', 'sb.Mid', BASE_NAMES | MID_NAMES),
]

PKG_REPLAY = '''import sys, os, tempfile, shutil; sys.path.insert(0, %(repo)r)
from supp.assistant import assist
from supp.project import Project
d = tempfile.mkdtemp(prefix='supp-c06-')
try:
    for rel, text in %(tree)r.items():
        os.makedirs(os.path.dirname(os.path.join(d, rel)), exist_ok=True)
        open(os.path.join(d, rel), 'w').write(text)
    text = %(text)r
    print(text)
    got = assist(Project([d]), text, %(pos)r, os.path.join(d, %(fname)r))[1]
    missing = sorted(set(%(want)r) - set(got))
    print('proposals:', [n for n in got if not n.startswith('__')])
    print('REPRODUCED: attributes Python finds on the object are not proposed: %%r' %% missing if missing else 'not reproduced')
finally:
    shutil.rmtree(d, ignore_errors=True)
'''


@harness(['C06'], 'supp.assistant.assist on obj.attr [bases in other modules of a package tree: relative imports of every level, private names]',
         bounded='a package with a subpackage and a sub-subpackage; bases named with a leading underscore; 15 import forms (a subclass named like the base it imports, from .. import module, '
                 'from ..module import name, aliases, star import next to an explicit one, sibling modules that re-derive the base, absolute dotted '
                 'imports) from files at depth 0..3; receivers: an instance, self inside a method; and completion on the module itself')
def hierarchies_in_packages(run):
    """BOUNDED: the instance of a class whose bases come from other modules of its package - through relative imports that climb one, two or
    three levels, and under names with a leading underscore - offers every class-body name and every attribute assigned through self along the
    MRO; a module reached by name offers its underscore names too (only a star import leaves them out).  Not counted as proved."""
    import os
    import shutil
    import tempfile
    import supp.assistant as A
    import supp.project as Pj

    def go(path):
        top = tempfile.mkdtemp(prefix='supp-c06-')
        try:
            for rel, text in PKG_TREE.items():
                os.makedirs(os.path.dirname(os.path.join(top, rel)), exist_ok=True)
                with open(os.path.join(top, rel), 'w') as f:
                    f.write(text)
            for fname, imp, ref, inherited in PKG_FORMS:
                head = '%s\nclass Leaf(%s):\n    own = 0\n    def probe(self):\n        self.probed = 1\n' % (imp, ref)
                want = set(inherited) | {'own', 'probe', 'probed'}
                for label, tail in (('instance', 'obj = Leaf()\nobj.'), ('self', '        return self.')):
                    text = head + tail
                    lines = text.split('\n')
                    pos = (len(lines), len(lines[-1]))
                    try:
                        got = set(A.assist(Pj.Project([top]), text, pos, os.path.join(top, fname))[1])
                    except Exception as e:
                        got = {'<raised %s>' % type(e).__name__}
                    missing = sorted(want - got)
                    if missing:
                        core.RUN.concretise = lambda model, ob, text=text, pos=pos, fname=fname, want=sorted(want): {'input': text, 'script': PKG_REPLAY % {
                            'repo': core.REPO, 'tree': PKG_TREE, 'text': text, 'pos': pos, 'fname': fname, 'want': want}}
                    prove('%s | %s | class Leaf(%s): %s' % (fname, imp.replace('\n', '; '), ref, label), not missing,
                          clause='proposals include the class-body names and self-assigned attributes along the MRO [missing %r]' % (missing,), path=path)
                    core.RUN.concretise = None
            # a module reached by name shows its underscore names as well
            for fname, text, want in (('main.py', 'import pkg.base\npkg.base.', {'_Base', 'Helper', '_registry', 'public_name'}),
                                      ('pkg/sub/leaf.py', 'from .. import base\nbase.', {'_Base', 'Helper', '_registry', 'public_name'}),
                                      ('pkg/leaf.py', 'from .base import *\n', {'Helper', 'public_name'})):
                lines = text.split('\n')
                pos = (len(lines), len(lines[-1]))
                try:
                    got = set(A.assist(Pj.Project([top]), text, pos, os.path.join(top, fname))[1])
                except Exception as e:
                    got = {'<raised %s>' % type(e).__name__}
                missing = sorted(want - got)
                extra = sorted({'_Base', '_registry'} & got) if 'import *' in text else []
                if missing or extra:
                    core.RUN.concretise = lambda model, ob, text=text, pos=pos, fname=fname, want=sorted(want): {'input': text, 'script': PKG_REPLAY % {
                        'repo': core.REPO, 'tree': PKG_TREE, 'text': text, 'pos': pos, 'fname': fname, 'want': want}}
                prove('module-names | %s | %s' % (fname, text.replace('\n', '; ')), not missing and not extra,
                      clause='a module reached by name offers every name bound in it, underscore names too; a star import leaves those out '
                             '[missing %r, wrongly there %r]' % (missing, extra), path=path)
                core.RUN.concretise = None
        finally:
            shutil.rmtree(top, ignore_errors=True)
    core.explore(lambda: None, lambda p, out: go(p))
