"""Sidecar contracts for supp/remote.py (C16 start-up protocol, C15 client side).

C16: thread-modular rely/guarantee at source-line atomicity (the property's own granularity).  ONE thread executes the real
Environment methods; before every source line of those methods the environment (all other threads, any number of them) may take
any enabled transition of the rely relation R:
  E1 starter finishes    : [launch if not yet launched]; conn := present; prepare_thread := None   (last lines of _threaded_run)
  E2 starter fails       : [launch]; prepare_thread := None
  E3 another prepare()   : only while this thread does not hold the lock; as one atomic step (it is a critical section)
  E4 another run()       : likewise; joins a running starter first
  E5 another close()     : two steps, as in the code: (a) inside the critical section the starter is joined and the connection taken away;
                           (b) later, while no call is in flight (call_lock), the server is told to stop and the connection is closed
Every transition is what the SAME code does in another thread (guarantee is a subset of rely by construction: E1/E2 are the effects of
_threaded_run, E3/E4 of the critical sections).  Process launch and the connection are instrumented fakes."""
import sys
import threading

import z3

from pysym import core, loader
from pysym.core import prove, EngineEscape
from pysym.harness import harness

RACE_REPLAY = '''import sys, threading; sys.path.insert(0, %(repo)r)
from supp import remote
env = remote.Environment()
launches = []
gate_checked, gate_done = threading.Event(), threading.Event()
def fake_run(self):
    launches.append(1); self.conn = object()
remote.Environment._run = fake_run
code_run, code_thr = remote.Environment.run.__code__, remote.Environment._threaded_run.__code__
import linecache
def tracer(frame, event, arg):
    if frame.f_code is code_run:
        def local(frame, event, arg):
            if event == 'line' and '.join()' in linecache.getline(code_run.co_filename, frame.f_lineno):
                gate_checked.set(); gate_done.wait(5)
            return local
        return local
    if frame.f_code is code_thr:
        def local2(frame, event, arg):
            if event == 'line' and 'prepare_thread = None' in linecache.getline(code_thr.co_filename, frame.f_lineno):
                gate_checked.wait(5)
            if event == 'return':
                gate_done.set()
            return local2
        return local2
threading.settrace(tracer); sys.settrace(tracer)
env.prepare()
try:
    env.run()
except Exception as e:
    print('REPRODUCED: schedule prepare() || first call, starter cleared its handle between the test and the join: %%s: %%s (launches=%%d)' %% (type(e).__name__, e, len(launches))); sys.exit(1)
finally:
    sys.settrace(None); threading.settrace(None)
print('not reproduced: launches', len(launches))
'''

CLOSE_RACE_REPLAY = '''import sys, threading, linecache; sys.path.insert(0, %(repo)r)
from supp import remote
from supp.umsgpack import dumps
class Conn(object):
    def __init__(self): self.sent, self.closed = [], False
    def send_bytes(self, b):
        if self.closed: raise OSError('handle is closed')
        self.sent.append(b)
    def recv_bytes(self):
        if self.closed: raise EOFError()
        return dumps(('answer', True))
    def close(self): self.closed = True
env = remote.Environment(); env.conn = Conn()
def fake_run(): env.conn = Conn()
env._run = fake_run
code = remote.Environment._call.__code__
done = []
def tracer(frame, event, arg):
    if frame.f_code is code:
        def local(frame, event, arg):
            if event == 'line' and 'send_bytes' in linecache.getline(code.co_filename, frame.f_lineno) and not done:
                done.append(1)
                t = threading.Thread(target=env.close); t.start(); t.join(2)     # another thread's close(), as far as it gets
            return local
        return local
sys.settrace(tracer)
try:
    r = env._call('assist', 1)
    print('not reproduced: answered', r)
except Exception as e:
    print('REPRODUCED: schedule first-call || close(): the call found the connection in place, the other thread closed the session before '
          'the request was sent: %%s: %%s' %% (type(e).__name__, e)); sys.exit(1)
finally:
    sys.settrace(None)
'''

CLOSE_REPLAY = '''import sys; sys.path.insert(0, %(repo)r)
from supp import remote
sent = []
class Conn(object):
    def send_bytes(self, b): sent.append(b)
    def close(self): sent.append('closed')
env = remote.Environment(); env.conn = Conn()
try:
    env.close()
except Exception as e:
    print('REPRODUCED: close() raised %%s: %%s; the close request was not sent (%%r)' %% (type(e).__name__, e, sent)); sys.exit(1)
print('not reproduced', sent)
'''


class World(object):
    """ghost + fakes for one exploration"""

    def __init__(self, R, env, starter_alive, conn_present, launched):
        self.R, self.env = R, env
        self.launches = 1 if launched else 0
        self.launch_failed = False
        self.failed = 0
        self.starter = None
        self.errors = []
        self.trace = []
        self.conns = []
        self.env_steps = 0
        self.taken = []          # connections another thread's close() took away and has not closed yet
        self.taken_ever = []
        self.other_close = False
        if conn_present:
            env.conn = FakeConn(self)
        if starter_alive:
            self.starter = FakeThread(self, None)
            self.starter.alive = True
            env.prepare_thread = self.starter

    # --- environment transitions -------------------------------------------------
    def enabled(self, lock_held, call_lock_held=False):
        ts = []
        if self.starter is not None and self.starter.alive:
            ts += ['E1-starter-finishes', 'E2-starter-fails']
        if not lock_held:
            e = self.env
            if not e.prepare_thread and not hasattr(e, 'conn'):
                ts += ['E3-other-prepare', 'E4-other-run']
            if self.other_close and not self.taken_ever and (hasattr(e, 'conn') or (self.starter is not None and self.starter.alive)):
                ts += ['E5a-other-close-takes-the-connection']
        if self.taken and not call_lock_held:
            ts += ['E5b-other-close-tells-the-server']
        return ts

    def apply(self, t):
        e = self.env
        self.trace.append(t)
        if t.startswith('E1') or t.startswith('E2'):
            if not self.starter.launched:
                self.launch(self.starter)
            if t.startswith('E1'):
                e.conn = FakeConn(self)
                e.conn.by = self.starter
            else:
                self.launch_failed = True
                self.failed += 1
            e.prepare_thread = None
            self.starter.alive = False
        elif t.startswith('E3'):
            self.starter = FakeThread(self, None)
            self.starter.alive = True
            e.prepare_thread = self.starter
        elif t.startswith('E4'):
            self.launches += 1
            e.conn = FakeConn(self)
        elif t.startswith('E5a'):
            if self.starter is not None and self.starter.alive:
                self.apply('E1-starter-finishes' if core.choice(2) == 0 else 'E2-starter-fails')
            c = e.__dict__.pop('conn', None)
            if c is not None:
                self.taken.append(c)
                self.taken_ever.append(c)
        elif t.startswith('E5b'):
            c = self.taken.pop(0)
            c.sent.append('close')
            c.closed = True

    def launch(self, who):
        self.launches += 1
        if who is not None:
            who.launched = True


class FakeConn(object):
    """the connection as the server sees it: requests are answered in the order they arrive (C15), one reply per request"""
    def __init__(self, w):
        self.w = w
        self.sent, self.closed = [], False
        self.answered = 0
        w.conns.append(self)

    def send_bytes(self, b):
        if self.closed:
            raise OSError('handle is closed')
        self.sent.append(b)

    def recv_bytes(self):
        from supp.umsgpack import dumps
        if self.closed:
            raise EOFError()
        # the oldest request that has not been answered yet (with one thread: the one just sent)
        if self.answered < len(self.sent):
            self.answered += 1
            return dumps((('reply-to', self.answered), True))
        return dumps((('reply-to', len(self.sent)), True))

    def close(self):
        self.closed = True

    def poll(self, timeout=None):
        # (a client that asks whether the reply is there yet: it is, unless the server is slow - see SlowConn)
        return self.answered < len(self.sent)


class SlowConn(FakeConn):
    """a server that takes longer than any time limit a client may set: asked whether the reply has come, it says no - once per request"""
    def __init__(self, w):
        FakeConn.__init__(self, w)
        self.asked = {}

    def poll(self, timeout=None):
        k = len(self.sent)
        self.asked[k] = self.asked.get(k, 0) + 1
        return self.asked[k] > 1 and self.answered < len(self.sent)


class FakeThread(object):
    def __init__(self, w, target):
        self.w, self.target = w, target
        self.alive, self.launched, self.started = False, False, False

    def start(self):
        self.started = True
        self.alive = True
        self.w.starter = self
        self.w.trace.append('this-thread-starts-the-starter')

    def join(self):
        # contract of Thread.join: returns after the target returned
        if self.alive:
            self.w.apply('E1-starter-finishes' if core.choice(2) == 0 else 'E2-starter-fails')

    def __bool__(self):
        return True


def startup_interleavings(run, only=None, variants=((False, None), (True, 3))):
    """for every initial state (starter running or not, connection present or not) and every interleaving, at source-line granularity,
    of environment transitions with the real prepare() / run() / _call(): at most ONE launch in total, the thread observes no exception
    caused by the handshake, and after run() returns a connection exists unless the launch itself failed"""
    import supp.remote as R
    run.trust('threading.Lock gives mutual exclusion; Thread.join returns after the target returned; attribute reads / writes are atomic at '
              'source-line granularity (the property\'s own quantifier)')
    run.concretise = lambda model, ob: ({'input': 'first call racing with close() of another thread: the connection is taken away between the test and the send',
                                         'script': CLOSE_RACE_REPLAY % {'repo': core.REPO}} if 'another-thread-closes' in ob.name else
                                        {'input': 'prepare() racing with the first call: starter clears prepare_thread between `if` and `.join()`',
                                         'script': RACE_REPLAY % {'repo': core.REPO}})
    codes = {R.Environment.prepare.__code__, R.Environment.run.__code__, R.Environment._call.__code__, R.Environment.close.__code__}
    holder = {}

    def fake_run(self):
        w = holder['w']
        w.trace.append('this-thread-launches')
        if w.starter is not None and w.starter.alive and not w.starter.launched:
            pass
        w.launches += 1
        self.conn = FakeConn(w)

    def tracer(frame, event, arg):
        if frame.f_code in codes:
            def local(frame, event, arg):
                if event == 'line':
                    w = holder['w']
                    # any number of enabled environment transitions before this line
                    for _ in range(2):
                        # at most 4 environment events per run: two other threads performing one operation each, plus the
                        # completion of at most two starter threads (the property quantifies over up to three threads)
                        if w.env_steps >= w.env_cap:
                            break
                        ts = w.enabled(w.env.prepare_lock.locked(), w.env.call_lock.locked())
                        if not ts:
                            break
                        c = core.choice(len(ts) + 1)
                        if c == 0:
                            break
                        w.apply(ts[c - 1])
                        w.env_steps += 1
                return local
            return local
        return None

    def seq(*ops):
        def run_ops(e):
            w = holder['w']
            r = None
            for op in ops:
                if op == 'close':
                    had = hasattr(e, 'conn')
                    w.at_close = (list(w.conns), w.starter if (w.starter is not None and w.starter.alive) else None)
                    e.close()
                    open_before, starter_before = w.at_close
                    w.survivors = [c for c in w.conns if not c.closed and c not in w.taken_ever and (c in open_before or (starter_before is not None and getattr(c, 'by', None) is starter_before))]
                    w.starter_survives = starter_before is not None and starter_before.alive
                    if had:
                        w.closed_sessions = getattr(w, 'closed_sessions', 0) + 1
                elif op == 'prepare':
                    e.prepare()
                elif op == 'run':
                    e.run()
                else:
                    r = e._call('assist', 1)
            return r
        return run_ops
    scenarios = [('prepare', seq('prepare')), ('run', seq('run')), ('_call', seq('_call')),
                 ('prepare;close;_call', seq('prepare', 'close', '_call')), ('prepare;close;prepare', seq('prepare', 'close', 'prepare')),
                 ('_call;close;_call', seq('_call', 'close', '_call')), ('close;_call', seq('close', '_call')),
                 ('prepare;close', seq('prepare', 'close')), ('_call;close', seq('_call', 'close'))]
    run.path_cap = 400000 if variants != ((True, 4),) else 3000000
    for mname, call in scenarios:
        if only is not None and mname not in only:
            continue
        for starter_alive, conn_present, (oc, cap) in [(a_, b_, v_) for a_ in (False, True) for b_ in (False, True) for v_ in variants]:
            if oc and mname.count(';') > 1:
                continue            # another thread's close() interferes with the single operations and the two-step sequences
            if True:
                if starter_alive and conn_present:
                    continue        # invariant I: a running starter means no connection yet
                def body(call=call, starter_alive=starter_alive, conn_present=conn_present, mname=mname, oc=oc, cap=cap):
                    run.case = '%s/starter-%s/conn-%s%s' % (mname, 'running' if starter_alive else 'none', 'present' if conn_present else 'absent',
                                                           '/another-thread-closes' if oc else '')
                    env = R.Environment()
                    env._run = fake_run.__get__(env)
                    R.Thread = lambda target=None: FakeThread(holder['w'], target)
                    w = World(R, env, starter_alive, conn_present, launched=conn_present)
                    # environment events per run: 4 (two other threads performing one operation each plus the completion of two starters);
                    # 3 for sequences of three operations of this thread (the path count grows with the number of lines executed)
                    w.env_cap = 3 if mname.count(';') >= 2 else 4
                    w.other_close = oc
                    if cap is not None:
                        w.env_cap = cap
                    holder['w'] = w
                    sys.settrace(tracer)
                    try:
                        return call(env)
                    finally:
                        sys.settrace(None)

                def on_path(p, out, mname=mname):
                    w = holder['w']
                    sched = ' ; '.join(w.trace) or 'no interference'
                    if out[0] == 'exc':
                        prove('no-handshake-exception', False,
                              clause='no caller observes an exception caused by the start-up handshake [%s: %s after: %s]'
                                     % (type(out[1]).__name__, out[1], sched), path=p)
                        return
                    # a starter started by this thread's prepare() will run _threaded_run later: account for its launch
                    pending = 1 if (w.starter is not None and w.starter.alive and not w.starter.launched) else 0
                    closed = sum(1 for c in w.conns if c.closed or c in w.taken_ever)
                    prove('at-most-one-launch', w.launches + pending - w.failed <= 1 + closed,
                          clause='one server process per session (a launch is retried only after a failed one; a new one only after close() ended '
                                 'a session) [launches=%d pending=%d failed=%d sessions-closed=%d after: %s]' % (w.launches, pending, w.failed, closed, sched), path=p)
                    if mname in ('run', '_call') or mname.endswith('_call'):
                        prove('connected-after-run', hasattr(w.env, 'conn') or w.launch_failed or bool(w.taken_ever),
                              clause='after run() a connection exists (unless the launch failed, or another thread closed the session since) [%s]' % sched, path=p)
                    if mname.endswith('_call'):
                        prove('call-answered', isinstance(out[1], list) and len(out[1]) == 2 and out[1][0] == 'reply-to',
                              clause='every call is answered, also when another thread closes the session around it [%r after: %s]' % (out[1], sched), path=p)
                    if mname.endswith(';close'):
                        # (other threads may open a NEW session once this one is closed: only what existed, or was being started, when
                        #  close() was entered is this session)
                        prove('no-session-survives-close', not getattr(w, 'survivors', []) and not getattr(w, 'starter_survives', False),
                              clause='close() ends the session: every connection that was open when it was called is closed, and a starter thread '
                                     'that was still running is waited for and its connection closed too [%d connection(s) left open, starter %s; after: %s]'
                                     % (len(getattr(w, 'survivors', [])), 'still running' if getattr(w, 'starter_survives', False) else 'done', sched), path=p)
                    if mname == '_call' and hasattr(w.env, 'conn') and not w.taken_ever:
                        prove('one-request-sent-one-reply-returned', len(w.env.conn.sent) == 1 and out[1] == ['reply-to', 1], path=p)
                core.explore(body, on_path)
    run.case = None


CONCURRENT_REPLAY = '''import sys, threading; sys.path.insert(0, %(repo)r)
from supp import remote
from supp.umsgpack import dumps, loads
class Conn(object):
    """answers in arrival order; a reader is handed the oldest unanswered request's reply"""
    def __init__(self): self.q, self.n, self.lock, self.gate = [], 0, threading.Lock(), threading.Barrier(2, timeout=2)
    def send_bytes(self, b):
        with self.lock: self.q.append(loads(b))
        try: self.gate.wait()          # both threads have sent before either receives - unless the client serialises its calls
        except threading.BrokenBarrierError: pass
    def recv_bytes(self):
        with self.lock: r = self.q.pop(0)
        return dumps((r[1][0], True))
env = remote.Environment(); env.conn = Conn()
out = {}
def call(tag): out[tag] = env._call('echo', tag)
ts = [threading.Thread(target=call, args=(t,)) for t in ('first', 'second')]
ts[1].start(); ts[0].start(); [t.join() for t in ts]
print(out)
print('REPRODUCED: a caller received the reply to another thread\\'s request' if any(k != v for k, v in out.items()) else 'not reproduced')
'''


@harness(['C16'], 'supp.remote.Environment._call[concurrent calls on the established connection]')
def concurrent_calls(run):
    """every call is answered - with ITS OWN reply: while this thread is inside _call on the established connection, other threads run the same
    _call.  If the code sends and receives inside a critical section, another thread's call is one atomic step that cannot happen while this
    thread is in its own; if it does not, another thread's send and receive are separate steps that may fall between this thread's send and
    receive.  The connection answers in arrival order and hands a reader the oldest unanswered reply.  Obligation: the reply this thread returns
    is the reply to the request it sent, and the other thread gets its own too."""
    import supp.remote as R
    import _thread
    run.trust('the server answers requests in the order they arrive (C15); threading.Lock gives mutual exclusion')
    run.concretise = lambda model, ob: {'input': 'two threads calling at the same time on one connection', 'script': CONCURRENT_REPLAY % {'repo': core.REPO}}
    code = R.Environment._call.__code__
    holder = {}

    def locks_held(env):
        return [k for k, v in vars(env).items() if isinstance(v, _thread.LockType) and k != 'prepare_lock' and v.locked()]

    def tracer(frame, event, arg):
        if frame.f_code is code:
            def local(frame, event, arg):
                if event == 'line':
                    st = holder['st']
                    env = st['env']
                    for _ in range(2):
                        if st['steps'] >= 3 or not hasattr(env, 'conn'):
                            break
                        conn = env.conn
                        ts = []
                        if locks_held(env):
                            pass            # this thread is in its critical section: nobody else is
                        elif st['serialised']:
                            ts = ['other-thread-calls']
                        else:
                            ts = ['other-thread-receives'] if st['other_pending'] else ['other-thread-sends']
                        if not ts:
                            break
                        if core.choice(2) == 0:
                            break
                        st['steps'] += 1
                        st['trace'].append(ts[0])
                        if ts[0] in ('other-thread-sends', 'other-thread-calls'):
                            conn.send_bytes(b'other')
                            st['other_index'] = len(conn.sent)
                            st['other_pending'] = True
                        if ts[0] in ('other-thread-receives', 'other-thread-calls'):
                            from supp.umsgpack import loads
                            got = loads(conn.recv_bytes())[0]
                            st['other_pending'] = False
                            if got != ['reply-to', st['other_index']]:
                                st['other_wrong'] = (got, st['other_index'])
                return local
            return local
        return None

    def body():
        env = R.Environment()
        env.conn = FakeConn(type('W', (), {'conns': []})())
        st = {'env': env, 'steps': 0, 'trace': [], 'other_pending': False, 'other_wrong': None, 'serialised': False}
        holder['st'] = st
        # does the code hold a lock of its own while it sends?  (decided by watching the real code send, without interference)
        probe = R.Environment()
        seen = []

        class Probe(FakeConn):
            def send_bytes(self, b):
                seen.append(bool(locks_held(probe)))
                FakeConn.send_bytes(self, b)
        probe.conn = Probe(type('W', (), {'conns': []})())
        probe._call('assist', 1)
        st['serialised'] = bool(seen and all(seen))
        sys.settrace(tracer)
        try:
            r = env._call('assist', 1)
        finally:
            sys.settrace(None)
        mine = [i + 1 for i, b in enumerate(env.conn.sent) if b != b'other']
        return r, mine

    def on_path(p, out):
        st = holder['st']
        sched = ' ; '.join(st['trace']) or 'no interference'
        if out[0] != 'ok':
            prove('no-exception', False, clause='[%r after: %s]' % (out[1], sched), path=p)
            return
        r, mine = out[1]
        prove('one-request-sent', len(mine) == 1, path=p)
        prove('this-caller-gets-the-reply-to-its-own-request', len(mine) == 1 and r == ['reply-to', mine[0]],
              clause='the reply returned is the reply to the request this thread sent [returned %r, own request #%r, schedule: %s]' % (r, mine, sched), path=p)
        prove('the-other-caller-gets-its-own-reply', st['other_wrong'] is None,
              clause='[the other thread received %r for its request #%r; schedule: %s]' % ((st['other_wrong'] or (None, None)) + (sched,)), path=p)
    core.explore(body, on_path)


LAUNCH_REPLAY = '''import sys, subprocess; sys.path.insert(0, %(repo)r)
import multiprocessing.connection as MC
from supp import remote
procs, clock = [], [0.0]
class FakePopen(object):
    alive = True
    def __init__(self, args, env=None): procs.append(self)
    def kill(self): self.alive = False
    terminate = kill
    def wait(self, timeout=None): return 0
    def poll(self): return None if self.alive else -9
def never(addr): raise ConnectionRefusedError('not yet')
subprocess.Popen, MC.Client = FakePopen, never
remote.time.time = lambda: clock[0]
remote.time.sleep = lambda t: clock.__setitem__(0, clock[0] + t)
env = remote.Environment()
try:
    env._run(); print('not reproduced: connected?')
except Exception as e:
    left = [p for p in procs if p.alive]
    print('launch gave up: %%s; processes launched %%d, still running %%d' %% (e, len(procs), len(left)))
    print('REPRODUCED: the server process that never accepted is left running' if left else 'not reproduced')
'''


@harness(['C16', 'C15'], 'supp.remote.Environment._run')
def run_launch(run):
    """_run(): launches exactly one process; the attribute `conn` does not exist before the connection is established (other threads test its
    presence to decide whether a server must be started) and is the connection afterwards; when the server never accepts, _run raises after
    the time limit and leaves no `conn` behind, so that the next call starts over"""
    import supp.remote as R
    import subprocess
    import multiprocessing.connection as MC
    run.concretise = lambda model, ob: {'input': 'a server process that never accepts the connection', 'script': LAUNCH_REPLAY % {'repo': core.REPO}}

    def go(path):
        for fails, label in ((0, 'accepts-at-once'), (3, 'accepts-at-the-fourth-attempt'), (10 ** 9, 'never-accepts')):
            env = R.Environment()
            seen, launches, clock = [], [], [0.0]

            class FakePopen(object):
                alive = True

                def __init__(self, args, env=None, **kw):
                    self.kw = kw
                    launches.append(self)

                def kill(self):
                    self.alive = False

                terminate = kill

                def wait(self, timeout=None):
                    return 0

                def poll(self):
                    return None if self.alive else -9

            def fake_client(addr):
                seen.append(hasattr(env, 'conn'))
                if len(seen) <= fails:
                    raise ConnectionRefusedError('not yet')
                return 'the connection'
            real = (subprocess.Popen, MC.Client, R.time.time, R.time.sleep)
            subprocess.Popen, MC.Client = FakePopen, fake_client
            R.time.time = lambda: clock[0]
            R.time.sleep = lambda t: clock.__setitem__(0, clock[0] + t)
            try:
                try:
                    env._run()
                    exc = None
                except Exception as e:
                    exc = e
            finally:
                subprocess.Popen, MC.Client, R.time.time, R.time.sleep = real
            run.case = label
            prove('one-process-launched', len(launches) == 1, path=path)
            if fails == 0:
                # a second session on the same Environment (after close()) gets a server of its own, whether or not the process of the first
                # one has exited yet: close() does not wait for it
                env.__dict__.pop('conn', None)
                subprocess.Popen, MC.Client = FakePopen, fake_client
                R.time.time = lambda: clock[0]
                R.time.sleep = lambda t: clock.__setitem__(0, clock[0] + t)
                del seen[:]
                try:
                    try:
                        env._run()
                        exc2 = None
                    except Exception as e:
                        exc2 = e
                finally:
                    subprocess.Popen, MC.Client, R.time.time, R.time.sleep = real
                prove('next-session-launches-its-own-process', exc2 is None and len(launches) == 2 and launches[0] is not launches[1],
                      clause='_run() after close() starts a new server process, also while the old one is still alive [launches %d, %r]' % (len(launches), exc2), path=path)
            piped = sorted(k for p_ in launches for k in ('stdin', 'stdout', 'stderr') if p_.kw.get(k) == subprocess.PIPE)
            prove('server-streams-are-not-pipes-nobody-reads', not piped,
                  clause='the server logs every failed request to stderr: a pipe the client never reads fills up (64 KiB) and the server blocks in the '
                         'write before it replies - no later call is answered [piped: %r]' % (piped,), path=path)
            prove('no-connection-attribute-before-it-is-established', seen and not any(seen),
                  clause='while _run is still trying to connect, `conn` does not exist: a caller that tests for it goes through run() and waits [%r]' % (seen[:6],), path=path)
            if fails < 10 ** 9:
                prove('connected-afterwards', exc is None and getattr(env, 'conn', None) == 'the connection', path=path)
            else:
                prove('failed-launch-leaves-no-process', bool(launches) and not any(p_.alive for p_ in launches),
                      clause='the process that never accepted is ended before _run gives up: the next attempt launches another one, and exactly one '
                             'server may exist', path=path)
                prove('time-limit-raises-and-leaves-no-connection', exc is not None and not hasattr(env, 'conn') and len(seen) < 100,
                      clause='a server that never accepts: _run raises after the time limit and `conn` does not exist [%r, attempts %d]' % (exc, len(seen)), path=path)
        run.case = None
    core.explore(lambda: None, lambda p, out: go(p))


@harness(['C16', 'C15'], 'supp.remote.Environment.close / _call[sequential contracts]')
def close_and_call(run):
    """close(): with a connection: sends exactly one well-formed ('close', (), {}) message, closes and forgets the connection, so that the
    next call launches a new server; without one: nothing.  _call: one send of dumps((name, args, kwargs)), one receive; returns the
    result if ok, else raises Exception carrying the server's message"""
    import supp.remote as R
    from supp.umsgpack import loads, dumps
    run.concretise = lambda model, ob: {'input': 'env.close() with an open connection', 'script': CLOSE_REPLAY % {'repo': core.REPO}}

    def go(path):
        w = World(R, R.Environment(), False, True, True)
        env, conn = w.env, w.env.conn
        run.case = 'close'
        try:
            env.close()
            exc = None
        except Exception as e:
            exc = e
        prove('close-raises-nothing', exc is None, clause='close() raises nothing [%r]' % (exc,), path=path)
        ok = len(conn.sent) == 1 and loads(conn.sent[0]) == ['close', [], {}]
        prove('close-sends-one-close-request', ok, clause="sends dumps(('close', (), {}))", path=path)
        prove('close-closes-and-forgets-the-connection', conn.closed and not hasattr(env, 'conn'), path=path)
        env2 = R.Environment()
        try:
            env2.close()
            ok2 = True
        except Exception:
            ok2 = False
        prove('close-without-connection-is-a-no-op', ok2 and not hasattr(env2, 'conn'), path=path)
        # the server may be gone already (it died, or the other end was closed): the session is over all the same
        w3 = World(R, R.Environment(), False, True, True)
        env3, conn3 = w3.env, w3.env.conn

        def broken(b):
            raise BrokenPipeError(32, 'Broken pipe')
        conn3.send_bytes = broken
        try:
            env3.close()
            exc3 = None
        except Exception as e:
            exc3 = e
        prove('close-with-a-dead-server-forgets-the-connection', exc3 is None and not hasattr(env3, 'conn') and conn3.closed,
              clause='close() on a connection whose server is gone raises nothing and leaves the client usable [%r, connection %s]' % (
                  exc3, 'kept' if hasattr(env3, 'conn') else 'forgotten'), path=path)
        # after close the next call starts a new server
        launched = []
        env._run = lambda: (launched.append(1), setattr(env, 'conn', FakeConn(w)))[0]
        r = None
        try:
            r = env._call('lint', 'src', 'f.py')
        except Exception as e:
            r = e
        prove('usable-again-after-close', launched == [1] and r == ['reply-to', 1], clause='after close() the client launches a new server on the next call', path=path)
        run.case = 'slow-reply'
        # replies pair with requests also when one takes long: the caller of the slow request gets its reply, the next caller its own
        e6 = R.Environment()
        e6.conn = SlowConn(w)
        outs = []
        for k in (1, 2, 3):
            try:
                outs.append(e6._call('eval', 'request %d' % k))
            except Exception as e:
                outs.append('raised %s: %s' % (type(e).__name__, e))
        prove('a-slow-reply-is-still-the-reply-to-its-request', outs == [['reply-to', 1], ['reply-to', 2], ['reply-to', 3]],
              clause='three calls on a server that is slow to answer: each gets the reply to its own request [%r]' % (outs,), path=path)
        run.case = '_threaded_run'
        # guarantee of the starter thread == the rely transitions E1 / E2
        for fails in (False, True):
            e4 = R.Environment()
            e4.prepare_thread = 'the starter handle'
            seen = []

            def fr(fails=fails, e4=e4):
                seen.append(getattr(e4, 'prepare_thread', None))
                if fails:
                    raise RuntimeError('launch failed')
                e4.conn = 'connection'
            e4._run = fr
            # run() and close() join the starter while they hold the start-up lock: the rely transitions E1 / E2 are enabled whatever
            # locks other threads hold, so the starter may wait for none of the Environment's locks
            waited = []

            class HeldElsewhere(object):
                def __init__(self, name):
                    self.name = name

                def acquire(self, *a, **k):
                    waited.append(self.name)
                    return True

                def release(self):
                    pass

                def __enter__(self):
                    waited.append(self.name)

                def __exit__(self, *a):
                    pass
            lock_types = (type(threading.Lock()), type(threading.RLock()))
            for k_, v_ in list(vars(e4).items()):
                if isinstance(v_, lock_types):
                    setattr(e4, k_, HeldElsewhere(k_))
            try:
                e4._threaded_run()
                exc = None
            except RuntimeError as e:
                exc = e
            # the locks held where the real run() / close() join the starter
            held_at_join = set()
            for op in ('run', 'close'):
                e5 = R.Environment()
                held = []

                class Recording(object):
                    def __init__(self, name):
                        self.name = name

                    def acquire(self, *a, **k):
                        held.append(self.name)
                        return True

                    def release(self):
                        held.remove(self.name)

                    def __enter__(self):
                        held.append(self.name)

                    def __exit__(self, *a):
                        held.remove(self.name)

                class Starter(object):
                    def join(self, timeout=None):
                        held_at_join.update(held)
                        e5.prepare_thread = None
                        e5.conn = FakeConn(w)

                    def is_alive(self):
                        return True
                for k_, v_ in list(vars(e5).items()):
                    if isinstance(v_, lock_types):
                        setattr(e5, k_, Recording(k_))
                e5.prepare_thread = Starter()
                e5._run = lambda: None
                try:
                    getattr(e5, op)()
                except Exception:
                    pass
            # prepare() publishes the starter and starts it inside ONE critical section: whoever finds the handle under the lock may join it
            # (the rely relation has no state `handle set, thread not started`)
            e7 = R.Environment()
            held7, events = [], []

            class Rec7(object):
                def __init__(self, name):
                    self.name = name

                def acquire(self, *a, **k):
                    held7.append(self.name)
                    return True

                def release(self):
                    held7.remove(self.name)

                def __enter__(self):
                    held7.append(self.name)

                def __exit__(self, *a):
                    held7.remove(self.name)

            class Starter7(object):
                def __init__(self, target=None):
                    events.append(('created', tuple(held7)))

                def start(self):
                    events.append(('started', tuple(held7), getattr(e7, 'prepare_thread', None) is self))

                def join(self, timeout=None):
                    pass
            for k_, v_ in list(vars(e7).items()):
                if isinstance(v_, lock_types):
                    setattr(e7, k_, Rec7(k_))
            real_thread = R.Thread
            R.Thread = Starter7
            try:
                e7.prepare()
            finally:
                R.Thread = real_thread
            started = [ev for ev in events if ev[0] == 'started']
            prove('starter-is-started-inside-the-critical-section-that-publishes-it',
                  len(started) == 1 and 'prepare_lock' in started[0][1] and
                  (getattr(e7, 'prepare_thread', None) is None or isinstance(e7.prepare_thread, Starter7)),
                  clause='prepare() starts the starter thread while it still holds prepare_lock: a thread that finds the handle under the lock can '
                         'join it (joining a thread that was not started raises RuntimeError) [%r]' % (events,), path=path)
            # lock order: no two methods take the Environment's locks in opposite orders (one thread in close(), one in a call that has
            # to start a server, would wait for each other for ever)
            order = set()
            for op in ('close-with-a-connection', 'call-without-a-connection', 'call-with-a-connection', 'prepare', 'run'):
                e8 = R.Environment()
                held8 = []

                class Rec8(object):
                    def __init__(self, name):
                        self.name = name

                    def _take(self):
                        for h_ in held8:
                            order.add((h_, self.name))
                        held8.append(self.name)

                    def acquire(self, *a, **k):
                        self._take()
                        return True

                    def release(self):
                        held8.remove(self.name)

                    def __enter__(self):
                        self._take()

                    def __exit__(self, *a):
                        held8.remove(self.name)
                for k_, v_ in list(vars(e8).items()):
                    if isinstance(v_, lock_types):
                        setattr(e8, k_, Rec8(k_))
                e8._run = lambda e8=e8: setattr(e8, 'conn', FakeConn(w))
                if op in ('close-with-a-connection', 'call-with-a-connection'):
                    e8.conn = FakeConn(w)
                real_thread8 = R.Thread
                R.Thread = lambda target=None: type('T8', (), {'start': lambda self: None, 'join': lambda self, timeout=None: None})()
                try:
                    if op.startswith('close'):
                        e8.close()
                    elif op.startswith('call'):
                        e8._call('lint', 'src', 'f.py')
                    else:
                        getattr(e8, op)()
                except Exception:
                    pass
                finally:
                    R.Thread = real_thread8
            inverted = sorted((a_, b_) for (a_, b_) in order if (b_, a_) in order and a_ < b_)
            prove('locks-are-taken-in-one-order', not inverted,
                  clause='no two locks of the Environment are ever taken in both orders [%r; orders seen: %r]' % (inverted, sorted(order)), path=path)
            prove('joiners-hold-the-start-up-lock', 'prepare_lock' in held_at_join, kind='lemma',
                  clause='run() and close() join the starter inside their critical section [locks held at the joins: %r]' % (sorted(held_at_join),), path=path)
            prove('starter-%s-waits-for-no-lock-a-joiner-holds' % ('fails' if fails else 'finishes'), not (set(waited) & held_at_join),
                  clause='_threaded_run acquires no lock that run() / close() hold while they join it: the joiner would never be released '
                         '[starter waits for %r, joiners hold %r]' % (waited, sorted(held_at_join)), path=path)
            prove('starter-%s-is-the-rely-transition' % ('fails' if fails else 'finishes'),
                  e4.prepare_thread is None and seen == ['the starter handle'] and (hasattr(e4, 'conn') != fails) and ((exc is not None) == fails),
                  clause='_threaded_run: _run() while the handle is still set, then the handle is cleared (also when the launch fails)', path=path)
        run.case = '_call'

        class C2(FakeConn):
            def recv_bytes(self):
                return self.reply
        import builtins as _b
        classes = sorted(k_ for k_, v_ in vars(_b).items() if isinstance(v_, type) and issubclass(v_, BaseException)) + ['NotABuiltin', 'supp.X', '']
        failures = [(dumps(((c_, m_), False)), ('exc', m_), 'exc-%s-%d' % (c_, i_))
                    for c_ in classes for i_, m_ in enumerate(('boom', "'k'", '', u'na\xefve \u2713', 'two\nlines'))]
        prove('failure-replies-cover-every-builtin-exception-class', len(classes) > 60 and 'KeyError' in classes and 'UnicodeDecodeError' in classes, kind='lemma',
              clause='the class names the server may report: every exception class of builtins and three that are not [%d]' % len(classes), path=path)
        for reply, want, tag in [(dumps(({'a': 1}, True)), ('ok', {'a': 1}), 'ok'), (dumps((('ValueError', 'boom'), False)), ('exc', 'boom'), 'exc')] + failures:
            e3 = R.Environment()
            e3.conn = C2(w)
            e3.conn.reply = reply
            try:
                got = ('ok', e3._call('assist', 'src', (1, 2), 'f.py', k=1))
            except Exception as e:
                got = ('exc', str(e))
            prove('call-%s' % tag, got == want and len(e3.conn.sent) == 1 and
                  loads(e3.conn.sent[0]) == ['assist', ['src', [1, 2], 'f.py'], {'k': 1}],
                  clause='one request (name, args, kwargs); result returned / an exception whose text is exactly the server\'s message raised [%r, wanted %r]' % (got, want), path=path)
        run.case = None
    core.explore(lambda: None, lambda p, out: go(p))


def _mk(group, names, variants=None):
    def h(run):
        if variants is not None:
            return startup_interleavings(run, only=names, variants=variants)
        return startup_interleavings(run, only=names)
    h.__name__ = 'startup_' + group
    h.__doc__ = startup_interleavings.__doc__ + '  [operation sequences of this thread: %s]' % ', '.join(names)
    return h


for _g, _names in (('single-operations', ('prepare', 'run', '_call')), ('prepare-close-call', ('prepare;close;_call',)),
                   ('prepare-close-prepare', ('prepare;close;prepare',)), ('call-close-call', ('_call;close;_call',)), ('close-call', ('close;_call',)),
                   ('ends-with-close', ('prepare;close', '_call;close'))):
    harness(['C16'], 'supp.remote.Environment.{prepare,run,_threaded_run,_call,close}[start-up under interference: %s]' % _g)(_mk(_g, _names))
# thorough tier only: another thread's close() with the full budget of environment transitions
for _g, _names in (('single-operations, another close, 4 environment transitions', ('prepare', 'run', '_call')),
                   ('two-step sequences, another close, 4 environment transitions', ('close;_call', 'prepare;close', '_call;close'))):
    harness(['C16'], 'supp.remote.Environment.{prepare,run,_threaded_run,_call,close}[start-up under interference: %s]' % _g,
            tier='thorough')(_mk(_g, _names, variants=((True, 4),)))
