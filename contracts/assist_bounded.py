"""BOUNDED stand-in for the clause of C12 no per-function contract reaches (DESIGN 7: whole-pipeline mark transparency): on a corpus of programs,
with the cursor at every position inside and at the end of every name read and every attribute access, the proposals of the real assist are
exactly what the analysis of the UNMARKED text makes visible there - the table names_at gives at the cursor for a bare name, the attribute list
of the receiver for `expr.attr` - sorted, duplicate free, without the marker.  Not counted as proved."""
import ast

from pysym import core
from pysym.core import prove
from pysym.harness import harness

PROGRAMS = {
    'functions-and-branches': '''import os
import os.path as osp
limit = 10
def compute(values, factor=2):
    total = 0
    for item in values:
        if item > limit:
            scaled = item * factor
            total = total + scaled
        else:
            skipped = item
    while total > limit:
        total = total - factor
    try:
        ratio = total / len(values)
    except ZeroDivisionError as err:
        ratio = err
    result = [entry for entry in values if entry]
    return ratio, total, osp.join(os.sep, str(result))
answer = compute([1, 2, 3])
print(answer, limit)
''',
    'classes': '''class Shape(object):
    sides = 0
    def __init__(self, name):
        self.name = name
        self.area = 0
    def describe(self):
        return self.name + str(self.sides)
class Square(Shape):
    sides = 4
    def __init__(self, edge):
        Shape.__init__(self, 'square')
        self.edge = edge
    def grow(self, by):
        self.edge = self.edge + by
        return self
sq = Square(2)
sq.grow(1).describe()
sq.edge
Shape.sides
text = sq.name.upper()
owner = sq
owner = owner.name
owner2 = sq
owner2 = (owner2
          .edge)
sq = sq.grow(2)
text = text.strip().upper()
if (sq := sq.grow(3)):
    sq = (sq
          .grow(4))
wide = (sq.
        edge)
chain = sq.grow(1).\\
    describe()
print(Shape.
      sides, sq .  name)
''',
    'decorators': '''import functools
registry = []
def register(fn):
    registry.append(fn)
    return fn
def with_options(flag, size=registry):
    return register
@register
def first(): pass
@functools.lru_cache(None)
@with_options(registry, size=functools)
def second(arg=registry): return arg
@register
class Decorated(object):
    @functools.wraps(first)
    @staticmethod
    def method(x=registry): return x
    @property
    def prop(self): return registry
''',
    'closures': '''import sys
counter = 0
def outer(first, second=1, *rest, key=None, **extra):
    global counter
    local_one = first
    def inner(arg):
        nonlocal local_one
        local_one = arg + second
        return local_one, key, rest, extra, counter, sys.argv
    pick = lambda value, default=local_one: (value, default, first)
    return inner, pick
pair = outer(1)
pair[0](2)
''',
    'from-on-a-continuation-line': '''def chain(gen, make):
    try:
        value = make()
    except Exception as ex:
        raise ValueError(ex) \\
            from ex
    result = yield \\
        from gen
    again = (yield
             from gen)
    third = [value, (yield
        from make)]
    return result, value, again, third
''',
    'bindings-inside-expressions': '''def scan(count, limit, second, rows):
    if (n := count) > limit:
        return n
    c = count or (found := second)
    while (m := limit) and m:
        m = m - count
    total = [(y := row) + y for row in rows if (z := row) and z]
    pick = n if (w := second) else w
    with open(second) as fh, open(limit) as fh2:
        data = fh.read() + fh2.read()
    for idx, (key, val) in rows: print(idx, key, val)
    return c, found, total, pick, data
''',
    # the context expression of a with item is a bare name (or ends in one): the cursor at its end stands where the target is bound next
    'with-items-whose-context-is-a-name': '''def guarded(lock, first, second, rows):
    with lock as held:
        print(held)
    with first as one, second as two:
        print(one, two)
    with (first or second) as either:
        print(either)
    for row in rows: print(row)
    for idx, row in rows:
        print(idx, row)
    return held, one, two, either
''',
}


def sites(text):
    """(kind, node, cursor positions) for every name read and every attribute access of the text"""
    tree = ast.parse(text)
    out = []
    for n in ast.walk(tree):
        if isinstance(n, ast.Name) and isinstance(n.ctx, ast.Load):
            k = len(n.id)
            out.append(('name', n, [(n.lineno, n.col_offset + j) for j in sorted(set((1, k // 2 or 1, k)))]))
        elif isinstance(n, ast.Attribute) and isinstance(n.ctx, (ast.Load, ast.Store)):
            # the attribute name is the last token of the node: on its last line, which need not be the line of the dot
            k = len(n.attr)
            start = n.end_col_offset - k
            out.append(('attr', n, [(n.end_lineno, start + j) for j in sorted(set((0, 1, k)))]))
    return out


REPLAY = '''import sys; sys.path.insert(0, %(repo)r)
from supp.assistant import assist
from supp.project import Project
text = %(text)r
got = assist(Project(['/nonexistent']), text, %(pos)r)
print('cursor', %(pos)r, 'on line', repr(text.split(chr(10))[%(pos)r[0] - 1]))
print('assist:', got)
print('the analysis of the text without a cursor makes visible there:', %(want)r)
print('REPRODUCED: inserting the cursor changed the analysis' if list(got[1]) != %(want)r else 'not reproduced')
'''


@harness(['C12'], 'supp.assistant.assist [cursor inside and at the end of every name read and attribute access: transparency of the mark]',
         bounded='7 programs (with items whose context expression is a bare name; decorators of functions, methods and classes, functions with every kind of control flow and parameters, a class hierarchy with instance attributes, closures / '
                 'globals / lambda, bindings made inside expressions: walrus in tests, operands and comprehensions, with items, tuple targets; `raise ... from` / `yield from` broken before `from`, after a backslash and inside brackets) x every name read (cursor after the first character, in the middle, at the end) and every attribute access '
                 '(cursor after the dot, after the first character, at the end)')
def mark_transparency(run):
    """BOUNDED whole-pipeline stand-in: proposals == what the unmarked analysis makes visible at the cursor (names_at for a bare name, the
    receiver's attributes for an attribute), sorted and duplicate free, marker free; the prefix is the text between the start of the identifier
    and the cursor.  Not counted as proved."""
    import supp.assistant as A
    import supp.project as Pj
    from supp.util import Source, np, marked
    from supp.nast import extract_scope
    from supp.evaluator import EvalCtx

    def go(path):
        for pname, text in PROGRAMS.items():
            project = Pj.Project(['/nonexistent'])
            src = Source(text, '<c12>')
            extract_scope(src, project)
            flows = {}
            for n in ast.walk(src.tree):
                if isinstance(n, ast.Name) and hasattr(n, 'flow'):
                    flows[(n.lineno, n.col_offset)] = n
            attr_nodes = {}
            for n in ast.walk(src.tree):
                if isinstance(n, ast.Attribute):
                    attr_nodes[(n.lineno, n.col_offset, n.end_col_offset)] = n
            nbad = ntot = 0
            for kind, node, cursors in sites(text):
                for pos in cursors:
                    if kind == 'name':
                        real = flows.get((node.lineno, node.col_offset))
                        if real is None:
                            continue
                        want = sorted(real.flow.names_at(pos))
                        wprefix = node.id[:pos[1] - node.col_offset]
                    else:
                        real = attr_nodes.get((node.lineno, node.col_offset, node.end_col_offset))
                        ctx = EvalCtx(project)
                        value = ctx.evaluate(real.value)
                        want = sorted(value.attr_list(ctx)) if value else []
                        wprefix = node.attr[:pos[1] - (node.end_col_offset - len(node.attr))]
                    ntot += 1
                    try:
                        got = A.assist(Pj.Project(['/nonexistent']), text, pos)
                    except Exception as e:
                        got = ('<raised %s>' % type(e).__name__, [])
                    props = list(got[1])
                    ok = props == want and got[0] == wprefix and not any(marked(x) for x in props) and len(set(props)) == len(props)
                    if not ok:
                        nbad += 1
                        if nbad <= 3:
                            core.RUN.concretise = lambda model, ob, pos=pos, want=want: {'input': {'program': pname, 'cursor': pos}, 'script': REPLAY % {
                                'repo': core.REPO, 'text': text, 'pos': pos, 'want': want}}
                            prove('%s:%s@%d:%d' % (pname, kind, pos[0], pos[1]), False,
                                  clause='proposals and prefix at the cursor are those of the unmarked analysis [prefix %r vs %r; missing %r, extra %r] on line %r' % (
                                      got[0], wprefix, sorted(set(want) - set(props)), sorted(set(props) - set(want)), text.split('\n')[pos[0] - 1]), path=path)
                            core.RUN.concretise = None
            prove('%s:every-cursor-transparent' % pname, nbad == 0, clause='%d cursor positions, %d where the mark changed the answer' % (ntot, nbad), path=path)
    core.explore(lambda: None, lambda p, out: go(p))


# ---------------------------------------------------------------------------
# C13 on lines that hold text which is not ASCII: the parser counts columns in UTF-8 bytes, the text and the cursor in characters

WIDE_PAIRS = [
    # (label, statements joined by `;`, the same statements one per line)
    ('string-before-a-binding-and-its-read', 's_ = "ééééééééé"; value_ = 1; print(value_, s_)\n',
     's_ = "ééééééééé"\nvalue_ = 1\nprint(value_, s_)\n'),
    ('identifiers-that-are-not-ascii', 'größe = 1; länge = größe; print(länge, größe, undefined_a)\n',
     'größe = 1\nlänge = größe\nprint(länge, größe, undefined_a)\n'),
    ('in-a-function-after-a-docstring', 'def f_(a_):\n    "日本語"; b_ = a_; unused_v = b_; return b_\n',
     'def f_(a_):\n    "日本語"\n    b_ = a_\n    unused_v = b_\n    return b_\n'),
    ('import-after-a-string', 's_ = "€€"; import os; import sys as unused_m; print(os.sep, s_)\n',
     's_ = "€€"\nimport os\nimport sys as unused_m\nprint(os.sep, s_)\n'),
    ('call-arguments-after-text', 'def g_(x_): return x_\nr_ = g_("\U0001f600\U0001f600"); t_ = g_(r_); print(t_, undefined_b)\n',
     'def g_(x_): return x_\nr_ = g_("\U0001f600\U0001f600")\nt_ = g_(r_)\nprint(t_, undefined_b)\n'),
]

WIDE_REPLAY = '''import sys; sys.path.insert(0, %(repo)r)
from supp.assistant import assist, location
from supp.linter import lint
from supp.project import Project
a, b = %(a)r, %(b)r
p = Project(['/nonexistent'])
print(a); print(b)
print('lint, joined :', [d[:4] for d in lint(p, a)])
print('lint, by line:', [d[:4] for d in lint(p, b)])
pa, pb = %(pa)r, %(pb)r
ra, rb = assist(p, a, pa, 'f.py')[1], assist(p, b, pb, 'f.py')[1]
print('names offered at', pa, 'only in one layout:', sorted(set(ra) ^ set(rb)))
print('definitions from', pa, ':', location(p, a, pa, 'f.py'), '| from', pb, ':', location(p, b, pb, 'f.py'))
print(%(verdict)r)
'''


@harness(['C13', 'C12'], 'supp.util.Source.tree + supp.assistant.assist / location / supp.linter.lint [two layouts of lines that hold non-ASCII text]',
         bounded='5 pairs (statements joined by `;` / one per line) with string literals and identifiers that are not ASCII (2-, 3- and 4-byte characters) left of '
                 'bindings, reads and imports; the pairs parse to equal trees; every name read x assist and location, lint')
def wide_character_layouts(run):
    """BOUNDED: C13 where the column of the parser (UTF-8 bytes) and the column of the text (characters) differ: at corresponding reads of the
    two layouts assist offers the same names and go-to-definition lists the corresponding bindings, lint reports the same (code, message)
    list at corresponding tokens.  Positions are taken from the tokenizer, which counts characters.  Not counted as proved."""
    import io
    import keyword
    import tokenize
    import supp.assistant as A
    import supp.linter as L
    import supp.project as Pj

    def names(text):
        return [(t.string, t.start, t.end) for t in tokenize.generate_tokens(io.StringIO(text).readline)
                if t.type == tokenize.NAME and not keyword.iskeyword(t.string)]

    def reads(text):
        out = set()
        lines = text.split('\n')
        for n in ast.walk(ast.parse(text)):
            if isinstance(n, ast.Name) and isinstance(n.ctx, ast.Load):
                out.add((n.lineno, len(lines[n.lineno - 1].encode('utf-8')[:n.col_offset].decode('utf-8'))))
        return out

    def go(path):
        for label, a, b in WIDE_PAIRS:
            same = ast.dump(ast.parse(a)) == ast.dump(ast.parse(b))
            ta, tb = names(a), names(b)
            prove('%s:the-two-layouts-are-one-program' % label, same and [t[0] for t in ta] == [t[0] for t in tb] and
                  any(len(l.encode('utf-8')) != len(l) for l in a.split('\n')), kind='lemma',
                  clause='equal trees, the same name tokens in the same order, and text that is not ASCII', path=path)
            if not same:
                continue
            project = Pj.Project(['/nonexistent'])
            ia = {t[1]: k for k, t in enumerate(ta)}
            ib = {t[1]: k for k, t in enumerate(tb)}

            def diag(text, index):
                return [(d[0], d[1], index.get((d[2], d[3]), 'no name token at (%d, %d)' % (d[2], d[3]))) for d in L.lint(project, text)]
            da, db = diag(a, ia), diag(b, ib)
            bad = None
            first = (ta[0][2], tb[0][2])
            if da != db:
                bad = ('lint reports %r for the joined layout and %r for the other (code, message, ordinal of the name token at the position)' % (da, db), first)
            ra = reads(a)
            n = 0
            for k, (tok, start, end) in enumerate(ta):
                if bad or start not in ra:
                    continue
                n += 1
                pa, pb = end, tb[k][2]
                ga, gb = A.assist(project, a, pa, 'f.py'), A.assist(project, b, pb, 'f.py')
                if ga != gb:
                    bad = ('at the end of the read of %s assist gives prefix %r / %r and names that differ by %r' % (
                        tok, ga[0], gb[0], sorted(set(ga[1]) ^ set(gb[1]))), (pa, pb))
                    break

                def defs(text, pos, index):
                    out = []
                    for r in A.location(project, text, pos, 'f.py'):
                        for x in (r if isinstance(r, list) else [r]):
                            out.append(index.get(tuple(x['loc']), 'no name token at %r' % (tuple(x['loc']),)) if x.get('file') == 'f.py' else x.get('file'))
                    return out
                la, lb = defs(a, pa, ia), defs(b, pb, ib)
                if la != lb:
                    bad = ('go-to-definition from the read of %s lists the name tokens %r / %r' % (tok, la, lb), (pa, pb))
                    break
            prove('%s:reads-were-compared' % label, n >= 2 or bad is not None, kind='lemma', clause='at least two reads per pair [%d]' % n, path=path)
            if bad:
                core.RUN.concretise = lambda model, ob, a=a, b=b, bad=bad: {'input': a, 'script': WIDE_REPLAY % {
                    'repo': core.REPO, 'a': a, 'b': b, 'pa': tuple(bad[1][0]), 'pb': tuple(bad[1][1]),
                    'verdict': 'REPRODUCED: ' + bad[0]}}
            prove('%s:the-two-layouts-are-answered-alike' % label, bad is None, clause='%s\n%s%s' % (bad[0] if bad else '', a, b), path=path)
            core.RUN.concretise = None
    core.explore(lambda: None, lambda p, out: go(p))
