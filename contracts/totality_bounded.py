"""BOUNDED whole-API stand-in for C08: the real lint / assist / location on a corpus of programs that exercises every statement and expression
form of the grammar (and texts that do not parse, cyclic definitions, import cycles between project modules), with the cursor at EVERY position of
the text.  The contract is the property statement itself: lint returns well-formed diagnostics, exactly one E01 with CPython's message and
position iff the text does not parse; assist and location return a well-formed result or raise SyntaxError, and SyntaxError only when the text
with an identifier inserted at the cursor does not parse; nothing else is raised; every call returns within 20 s.  Not counted as proved: the
deductive obligations of contracts/totality.py are per visitor / per function over ASDL-typed inputs; this samples their composition."""
import ast
import os
import shutil
import signal
import tempfile

from pysym import core
from pysym.core import prove
from pysym.harness import harness

CORPUS = {
    'assignments': '''import os
a = 1
b, (c, *d) = e = a, (2, [3])
f: int = 4
g: int
a += 1
os.x = a
d[0] = b
d[0:1], os.y = [c], f
del a, (b, c)
del d[0], os.x
print(e, f, g)
''',
    'control-flow': '''def f(xs, cm):
    if xs:
        r = 1
    elif cm:
        r = 2
    else:
        r = 3
    for i, (j, k) in xs:
        continue
    else:
        i = 0
    while r < 3:
        r += 1
        break
    else:
        pass
    try:
        r = cm()
    except (KeyError, ValueError) as err:
        r = err
    except Exception:
        raise
    else:
        r = None
    finally:
        xs = []
    with cm as (p, q), cm() as cm.attr, cm:
        pass
    assert r, xs
    return r if i else j
''',
    'match-and-trystar': '''def g(v):
    match v:
        case [x, *rest]:
            return x, rest
        case {'k': y, **kw}:
            return y, kw
        case (str() as s) | (bytes() as s):
            return s
        case P(a=1, b=z) if z:
            return z
        case {**everything}:
            return everything
        case {}:
            return None
        case [*_]:
            return []
        case [] | [_]:
            return ()
        case _:
            pass
    try:
        pass
    except* ValueError as eg:
        return eg
''',
    'classes-that-are-their-own-bases': '''def mk():
    return Bb


class Aa(mk()):
    def f(self):
        self.x = 1


class Bb(Aa):
    def g(self):
        self.y = 2


class Own(Own):
    def h(self):
        self.z = 3


Aa().x
Bb().y
Bb().f
Own().z
''',
    'cyclic-attribute-assignments': '''class Node:
    def relink(self):
        self.peer = self.peer
        self.left = self.right
        self.right = self.left
        self.right = "leaf"
        self.up = self.up.up
        return self.peer.name, self.left.upper
n = Node()
n.peer.name
n.left.upper
n.up.up
''',
    'type-comments-in-odd-places': '''vals = [1,  # type: int
        2]
# type: (int) -> str
def conv(a):
    # type: (int) -> str
    if a:  # type: bool
        pass  # type: ignore[misc]
    for i in vals:  # type: int
        pass
    return str(a)  # type: str
''',
    'functions': '''import functools
def deco(*a, **k):
    return lambda fn: fn
@deco(1)(2)
@functools.wraps(deco)
def f(p, /, q, r=1, *args, k, kd=deco, **kw) -> int:
    """doc"""
    global G
    G = p
    def inner(z: 'ann' = r):
        nonlocal q
        q = z
        return lambda *, kx=q: (kx, args, kw, k, kd)
    yield inner
    yield from args
    return (yield)
async def co(s):
    async with s as t:
        async for u in t:
            await u
    return [v async for v in s]
h = lambda: (yield)
k = lambda **only: only
''',
    'classes': '''class Meta(type):
    pass
def mk():
    return object
class Base(mk(), metaclass=Meta):
    attr = 1
    def __init__(self, v):
        self.v = v
        self.w: int = v
    @property
    def prop(self):
        return self.v
    @classmethod
    def make(cls):
        return cls(1)
    @staticmethod
    def st(x):
        return x
class Sub(Base, *[], **{}):
    class Inner(dict[str, int]):
        y = attr if False else 2
    def __init__(self):
        super().__init__(2)
        super(Sub, self).prop
        self.inner = Sub.Inner()
class Annotated:
    bare: int
    valued: int = 1
    if valued:
        len = 1
    try:
        input = raw_input
    except NameError:
        pass
    size = len
    text = input
Annotated().bare
Annotated.size
obj = Sub.make()
obj.prop.real
obj.inner.y
Base.st(obj).v
''',
    'expressions': '''import os.path as osp
data = {'a': [1, 2, 3], **{}}
s = {x for x in data if x}
t = [(x, y) for x in data for y in data[x] if y if x]
u = {k: v for k, v in data.items()}
g = (z for z in [[w for w in range(3)] for _ in range(2)])
n = [m := 1, m + 1]
f = f"{n!r:>{m}} {osp.join('a', *s, **u)}"
c = not n and -m or (m if n else ~m) < 2 <= 3 is not None
sl = t[1:2, ::3][0][...]
st = 'a' 'b'.upper().strip()[0]
cx = 1j.imag + 0x10 + b'b'[0] + (1).real
lm = (lambda: 0)()
osp.dirname(osp.basename(f)).title
''',
    'imports': '''from __future__ import annotations
import os, sys as system
import os.path, xml.dom.minidom as md
from os import path, sep as separator
from os.path import (join,
                     dirname as dn)
from . import sibling
from .. import parent_mod
from .pkg import name as alias
from os import *
from nosuchmodule import thing
import nosuchmodule2.sub
path.join(sibling, alias, thing)
md.parse
nosuchmodule2.sub.attr
''',
    'pep695': '''def first[T: int, *Ts, **P](x: T) -> T:
    return x
class Box[T]:
    def get(self) -> T:
        return self.item
type Alias[K] = dict[K, int]
first(1)
''',
    'cycles': '''x = y
y = x
x.attr
class A(A):
    pass
class B(C): pass
class C(B): pass
C().method
def rec():
    return rec()
rec().anything
def ping(): return pong()
def pong(): return ping()
ping().q
z = z.next
z.w
def mkbase(): return Selfish
class Selfish(mkbase()):
    own = 1
Selfish.own
Selfish().own
''',
    'odd-layout': '''if 1: a = 1; b = 2
else: a = b = 3
def f(): return a
class K: x = f()
s = """multi
line""" ; t = (a,
   b)
if 1:
\tu = 0 if False else 1
''',
}

BROKEN = {
    'unclosed': 'def f(:\n    pass\n',
    'bad-indent': 'if x:\npass\n',
    'stray': 'a = 1 +\nb = )\n',
    'tabs': 'if 1:\n\tx = 1\n        y = 2\n',
    'unterminated-string': "s = 'abc\nprint(s)\n",
    'null-byte': 'a = 1\x00\n',
    'bad-escape': 'print("\\N{no such name}")\n',
    'empty': '',
    'only-comment': '# nothing\n',
    'odd-separators': 'x = "a\\u2028b"\nx.upper\ny = "form\\x0cfeed"\ny.lower\n'.encode().decode('unicode_escape'),
}

PROJECT = {
    'mc.py': 'from md import q\n',
    'md.py': 'from mc import q\n',
    'ma.py': 'from mb import *\nfrom_a = 1\n',
    'mb.py': 'from ma import *\nfrom_b = 2\n',
    # a ring of star imports whose modules also import a name from each other that none of them defines
    'ra.py': 'from rb import *\nfrom rb import ringx\nown_ra = 1\n',
    'rb.py': 'from ra import *\nfrom ra import ringx\nown_rb = 2\n',
    'good.py': 'import good2\nvalue = good2.other\n',
    'good2.py': 'import good\nother = good\n',
    'badsyntax.py': 'def broken(:\n',
    'pk/__init__.py': 'from . import sub\nfrom .sub import thing\n',
    'pk/sub.py': 'from . import thing as again\nthing = 1\n',
}
PROJECT_TEXT = '''from mc import q
q
import mc, ma, good, badsyntax, pk
mc.q
ma.from_b
good.value.other.value
badsyntax.broken
pk.sub.thing
pk.thing
from ma import *
from_a
from ra import ringx
ringx
ringx.attr
import rb
rb.ringx
rb.own_ra
'''


class Timeout(Exception):
    pass


def _alarm(sig, frm):
    raise Timeout()


def marked_text_parses(text, ln, col):
    """does the text with an identifier inserted at (ln, col) parse?  Lines as the tokenizer counts them (\\n, \\r\\n, \\r)"""
    lines = text.split('\n')
    while len(lines) < ln:
        lines.append('')
    line = lines[ln - 1]
    lines[ln - 1] = line[:col] + 'XX' + line[col:]
    try:
        compile('\n'.join(lines), '<m>', 'exec', ast.PyCF_ONLY_AST)
        return True
    except (SyntaxError, ValueError):
        return False


def well_formed_assist(r):
    return (isinstance(r, tuple) and len(r) == 2 and isinstance(r[0], str) and isinstance(r[1], (list, tuple))
            and all(isinstance(x, str) for x in r[1]))


def well_formed_loc(r):
    def one(d):
        return (isinstance(d, dict) and isinstance(d.get('loc'), tuple) and len(d['loc']) == 2 and all(isinstance(i, int) for i in d['loc'])
                and 'file' in d)
    return isinstance(r, list) and all(one(d) or (isinstance(d, list) and d and all(one(x) for x in d)) for d in r)


REPLAY = '''import sys; sys.path.insert(0, %(repo)r)
import os, tempfile, shutil
from supp.project import Project
from supp.assistant import assist, location
from supp.linter import lint
files = %(files)r
d = tempfile.mkdtemp(prefix='supp-c08-')
try:
    for name, body in files.items():
        os.makedirs(os.path.dirname(os.path.join(d, name)), exist_ok=True)
        open(os.path.join(d, name), 'w').write(body)
    p = Project([d])
    text = %(text)r
    try:
        print(%(call)s)
        print('not reproduced')
    except SyntaxError as e:
        print('SyntaxError', e); print(%(on_syntax_error)r)
    except BaseException as e:
        print('REPRODUCED: raised %%s: %%s' %% (type(e).__name__, str(e)[:200]))
finally:
    shutil.rmtree(d, ignore_errors=True)
'''


def sweep(run, path, name, text, files=None, filename=None, step=1):
    import logging
    import supp.project as Pj
    import supp.assistant as A
    import supp.linter as L
    logging.disable(logging.CRITICAL)
    top = tempfile.mkdtemp(prefix='supp-c08-')
    signal.signal(signal.SIGALRM, _alarm)
    try:
        for fn, body in (files or {}).items():
            os.makedirs(os.path.dirname(os.path.join(top, fn)), exist_ok=True)
            open(os.path.join(top, fn), 'w').write(body)
        if filename:
            filename = os.path.join(top, filename)
        mk = lambda: Pj.Project([top])

        def report(label, what, call, on_se='not reproduced'):
            core.RUN.concretise = lambda model, ob: {'input': {'text': text, 'call': call}, 'script': REPLAY % {
                'repo': core.REPO, 'files': files or {}, 'text': text, 'call': call.replace('FILENAME', repr(filename and os.path.basename(filename))),
                'on_syntax_error': on_se}}
            prove(label, False, clause='%s [%s on program %r]' % (what, call, name), path=path)
            core.RUN.concretise = None

        # ---- lint
        try:
            compile(text, '<c08>', 'exec', ast.PyCF_ONLY_AST)
            perr = None
        except SyntaxError as e:
            perr = e
        except ValueError as e:       # source code string cannot contain null bytes
            perr = e
        bad = 0
        try:
            signal.alarm(20)
            diags = L.lint(mk(), text, filename)
            signal.alarm(0)
            ok = isinstance(diags, list) and all(isinstance(d, tuple) and len(d) == 5 and isinstance(d[0], str) and isinstance(d[1], str) for d in diags)
            e01 = [d for d in diags if d[0] == 'E01'] if ok else []
            if not ok:
                report('%s:lint-well-formed' % name, 'lint returns a list of 5-tuples', 'lint(p, text)')
                bad += 1
            elif isinstance(perr, SyntaxError):
                want = ('E01', perr.msg, perr.lineno, perr.offset)
                if not (len(diags) == 1 and diags[0][:4] == want):
                    report('%s:lint-one-E01' % name, 'a text that does not parse gets exactly one E01 with CPython\'s message and position %r, got %r' % (
                        want, [d[:4] for d in diags]), 'lint(p, text)')
                    bad += 1
            elif perr is None and e01:
                report('%s:lint-no-E01' % name, 'a text that parses gets no E01, got %r' % (e01,), 'lint(p, text)')
                bad += 1
        except Timeout:
            report('%s:lint-returns' % name, 'lint returns within 20 s', 'lint(p, text)')
            bad += 1
        except BaseException as e:
            signal.alarm(0)
            if not isinstance(perr, ValueError):
                report('%s:lint-raises-nothing(%s)' % (name, type(e).__name__), 'lint raises nothing [%s: %s]' % (type(e).__name__, str(e)[:120]), 'lint(p, text)')
                bad += 1
        if not bad:
            prove('%s:lint-total' % name, True, path=path)

        # ---- assist / location at every position
        lines = text.split('\n')
        npos = nbad = 0
        seen = set()
        for ln in range(1, len(lines) + 1):
            for col in range(0, len(lines[ln - 1]) + 1, step):
                for api, fn, wf in (('assist', A.assist, well_formed_assist), ('location', A.location, well_formed_loc)):
                    npos += 1
                    call = '%s(p, text, (%d, %d), FILENAME)' % (api, ln, col) if filename else '%s(p, text, (%d, %d))' % (api, ln, col)
                    try:
                        signal.alarm(20)
                        r = fn(mk(), text, (ln, col), filename)
                        signal.alarm(0)
                        if not wf(r):
                            key = (api, 'malformed')
                            if key not in seen:
                                seen.add(key)
                                report('%s:%s-well-formed@%d:%d' % (name, api, ln, col), '%s returns a well-formed result, got %r' % (api, r), call)
                            nbad += 1
                    except Timeout:
                        report('%s:%s-returns@%d:%d' % (name, api, ln, col), '%s returns within 20 s' % api, call)
                        nbad += 1
                    except SyntaxError:
                        signal.alarm(0)
                        if marked_text_parses(text, ln, col):
                            key = (api, 'SyntaxError', ln)
                            if key not in seen:
                                seen.add(key)
                                report('%s:%s-syntaxerror-only-if-the-marked-text-does-not-parse@%d:%d' % (name, api, ln, col),
                                       '%s raises SyntaxError although the text with an identifier at the cursor parses' % api, call,
                                       on_se='REPRODUCED: SyntaxError although the text with an identifier inserted at the cursor parses')
                            nbad += 1
                    except BaseException as e:
                        signal.alarm(0)
                        import traceback
                        tb = traceback.extract_tb(e.__traceback__)
                        where = '%s:%d' % (os.path.basename(tb[-1].filename), tb[-1].lineno) if tb else '?'
                        key = (api, type(e).__name__, where)
                        if key not in seen:
                            seen.add(key)
                            report('%s:%s-raises-only-SyntaxError(%s at %s)@%d:%d' % (name, api, type(e).__name__, where, ln, col),
                                   '%s raises only SyntaxError [%s: %s at %s]' % (api, type(e).__name__, str(e)[:100], where), call)
                        nbad += 1
        prove('%s:every-cursor-position-answered' % name, nbad == 0,
              clause='%d calls (assist and location at every position of %r): %d without a proper answer' % (npos, name, nbad), path=path)
    finally:
        signal.alarm(0)
        shutil.rmtree(top, ignore_errors=True)


BOUND = ('%d programs covering every statement and expression form of Python 3.12 (match, except*, PEP 695, async), %d texts that do not parse, '
         'cyclic definitions, a project with import cycles / star-import cycles / a module that does not parse; lint once, assist and location '
         'with the cursor at every (line, column) of every text; 20 s per call' % (len(CORPUS), len(BROKEN)))


def _mk(name, text):
    def h(run):
        core.explore(lambda: None, lambda p, out: sweep(run, p, name, text, filename='pkgdir/mod.py' if name == 'imports' else None,
                                                        files={'pkgdir/__init__.py': '', 'pkgdir/sibling.py': 'x = 1\n', 'pkgdir/pkg.py': 'name = 1\n',
                                                               'parent_mod.py': ''} if name == 'imports' else None))
    h.__name__ = 'every_position_%s' % name.replace('-', '_')
    h.__doc__ = 'BOUNDED whole-API stand-in, program %r: lint, and assist / location at every cursor position; not counted as proved' % name
    return h


for _n, _t in CORPUS.items():
    harness(['C08'], 'supp.linter.lint / supp.assistant.assist / location [every cursor position, program %s]' % _n, bounded=BOUND)(_mk(_n, _t))


@harness(['C08'], 'supp.linter.lint / supp.assistant.assist / location [every cursor position, texts that do not parse]', bounded=BOUND)
def every_position_broken(run):
    """BOUNDED whole-API stand-in: texts that do not parse (and texts with unusual line separators inside string literals)"""
    def go(p):
        for name, text in BROKEN.items():
            sweep(run, p, name, text)
    core.explore(lambda: None, lambda p, out: go(p))


def long_lived(path):
    """the server keeps ONE Project: the same requests again, one after the other inside check_changes(), on the project with import cycles"""
    import logging
    import supp.project as Pj
    import supp.assistant as A
    import supp.linter as L
    logging.disable(logging.CRITICAL)
    top = tempfile.mkdtemp(prefix='supp-c08-')
    try:
        for fn, body in PROJECT.items():
            os.makedirs(os.path.dirname(os.path.join(top, fn)), exist_ok=True)
            open(os.path.join(top, fn), 'w').write(body)
        p = Pj.Project([top])
        fname = os.path.join(top, 'main.py')
        bad = None
        lines = PROJECT_TEXT.split('\n')
        for rnd in range(3):
            for ln in range(1, len(lines) + 1):
                pos = (ln, len(lines[ln - 1]))
                for api in ('lint', 'assist', 'location'):
                    try:
                        with p.check_changes():
                            if api == 'lint':
                                L.lint(p, PROJECT_TEXT, fname)
                            else:
                                getattr(A, api)(p, PROJECT_TEXT, pos, fname)
                    except SyntaxError:
                        pass
                    except BaseException as e:
                        bad = bad or (rnd, api, pos, '%s: %s' % (type(e).__name__, str(e)[:80]))
        prove('project:long-lived-project-keeps-answering', bad is None,
              clause='three rounds of lint / assist / location on ONE Project with import cycles, each inside check_changes() [first failure: %r]' % (bad,), path=path)
    finally:
        shutil.rmtree(top, ignore_errors=True)


@harness(['C08'], 'supp.linter.lint / supp.assistant.assist / location [every cursor position, project with import cycles]', bounded=BOUND)
def every_position_project(run):
    """BOUNDED whole-API stand-in: a project whose modules import each other in cycles (from-import and star-import), and one that does not
    parse; also the same text without a file name"""
    def go(p):
        sweep(run, p, 'project', PROJECT_TEXT, files=PROJECT, filename='main.py')
        long_lived(p)
        sweep(run, p, 'project-no-filename', 'from . import x\nfrom .m import y\nimport mc\nmc.q\n', files=PROJECT)
    core.explore(lambda: None, lambda p, out: go(p))


LONG_REPLAY = '''import sys; sys.path.insert(0, %(repo)r)
from supp.assistant import assist, location
from supp.project import Project
n = %(n)d
src = 'def f(x):\\n' + ''.join('    if x:\\n        x = %%d\\n' %% i for i in range(n)) + '    return x\\n'
for fn in (assist, location):
    try:
        fn(Project(['/nonexistent']), src, (2 * n + 2, 12))
        print(fn.__name__, 'answers')
    except Exception as e:
        print('REPRODUCED: %%s at the last read of a function with %%d compound statements in a row raises %%s' %% (fn.__name__, n, type(e).__name__))
'''


@harness(['C08'], 'supp.assistant.assist / location [the last read of a long body]',
         bounded='a function body of N if statements in a row (and the same at module level, and as one elif chain), cursor on the read behind them, on a '
                 'freshly analysed text; N = 20, 60 (three times the longest such body of the standard library, which has 21) and 200')
def long_bodies(run):
    """BOUNDED: the first request on a fresh analysis may be for the last read of a long body; it answers (raises nothing but SyntaxError) whatever
    the number of statements before it.  Not counted as proved."""
    import logging
    import supp.assistant as A
    import supp.project as Pj

    def go(path):
        logging.disable(logging.CRITICAL)
        for n in (20, 60, 200):
            shapes = {
                'function-body': ('def f(x):\n' + ''.join('    if x:\n        x = %d\n' % i for i in range(n)) + '    return x\n', (2 * n + 2, 12)),
                'module-level': ('x = 0\n' + ''.join('if x:\n    x = %d\n' % i for i in range(n)) + 'print(x)\n', (2 * n + 2, 7)),
                'loops-and-try': ('def f(x):\n' + ''.join('    for i%d in x:\n        x = i%d\n    try:\n        x = %d\n    except KeyError:\n        pass\n' % (i, i, i)
                                                        for i in range(n // 2)) + '    return x\n', (6 * (n // 2) + 2, 12)),
            }
            for shape, (src, pos) in shapes.items():
                for fn in (A.assist, A.location):
                    try:
                        fn(Pj.Project(['/nonexistent']), src, pos)
                        exc = None
                    except SyntaxError:
                        exc = None
                    except BaseException as e:
                        exc = e
                    if exc is not None and shape == 'function-body':
                        core.RUN.concretise = lambda model, ob, n=n: {'input': 'a function of %d if statements in a row, cursor on the read behind them' % n,
                                                                      'script': LONG_REPLAY % {'repo': core.REPO, 'n': n}}
                    prove('%s-of-%d-statements:%s-answers' % (shape, n, fn.__name__), exc is None,
                          clause='raises nothing but SyntaxError [%s]' % (type(exc).__name__ if exc is not None else 'answered'), path=path)
                    core.RUN.concretise = None
    core.explore(lambda: None, lambda p, out: go(p))
