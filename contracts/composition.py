"""BOUNDED stand-in for the composition lemma of C01 / C02 / C03 (DESIGN 2.2, 8.4).

The per-construct obligations of contracts/nast_flow.py are the inductive steps; that they compose over whole programs is a stated lemma which
no contract within the verifier's reach can discharge (it is an induction over the program with the real region graph as the induction
hypothesis).  This module checks the composed claim itself on every program of a small statement grammar: the REAL lint / names_at on the
rendered text against a definitional interpreter that enumerates every execution (every branch outcome, 0..2 loop trips, raise / no raise at
the first and last statement of a try body) and records which binding site each read obtains.  Labelled bounded, never counted as proved.

The interpreter is written from the language reference, not from supp: an environment maps the tracked identifier to the binding site that
bound it last, or to `unbound`.  Two variants are run: STRICT (a read of an unbound name ends that execution; an exception leaves a try body
only before its first statement or instead of the binding of its last one) and LENIENT (the execution goes on after a failed read; an
exception may also leave the try body after its last statement completed).  The contracts are
    C02:  strict(r)  is a subset of  supp(r)          (a definition some execution reads is reported)
    C01:  strict(r) has a definition  =>  the name is visible at r (no E02 / E42)
    C03:  supp(r)  is a subset of  lenient(r);  `possibly unbound` and `undefined` agree with the interpreter on the same two sides
so that a program on which the two readings of the property's domain differ can never raise an alarm.
"""
import ast
import itertools

from pysym import core
from pysym.core import prove
from pysym.harness import harness

UNBOUND = 'unbound'


# ---------------------------------------------------------------------------
# the statement grammar: nodes are tuples; ('B', flavour) binds the tracked name a, ('U',) reads it, ('BU',) a = f(a)

class Render(object):
    """renders a program; records the (line, col) of every read and binding of the tracked name in rendering order"""

    def __init__(self, layout):
        self.lines = []
        self.reads = {}       # key -> (line, col)
        self.binds = {}       # key -> (line, col)
        self.layout = layout
        self.n = 0
        self.inline = None       # oneline layout: number of statements already put after the colon of the last header
        self.last_simple = None

    def key(self):
        self.n += 1
        return self.n

    def emit(self, indent, frags, simple=False):
        """frags: str | ('r', key) | ('b', key); the tracked name is written at r / b fragments.
        layouts: plain (4 spaces) | wide (8 spaces, blank lines, comments) | broken (line break after the first open bracket) |
        semi (consecutive simple statements joined by ';') | oneline (a body of simple statements follows the colon)"""
        ind = ' ' * (indent * (4 if self.layout != 'wide' else 8))
        if self.inline is not None and simple:
            # continue the header line (oneline) 
            text = self.lines.pop() + (' ' if self.inline == 0 else '; ')
            self.inline += 1
        elif self.layout == 'semi' and simple and self.last_simple == (indent, len(self.lines)) and self.lines:
            text = self.lines.pop() + '; '
        else:
            text = ind
        broke = False
        for f in frags:
            if isinstance(f, tuple):
                (self.reads if f[0] == 'r' else self.binds)[f[1]] = (len(self.lines) + 1, len(text))
                text += 'a'
            else:
                text += f
                if self.layout == 'broken' and not broke and f.endswith('(') and f is not frags[-1]:
                    self.lines.append(text)
                    text = ind + ' ' * 6
                    broke = True
        self.lines.append(text)
        self.last_simple = (indent, len(self.lines)) if simple else None
        if self.layout == 'wide':
            self.lines.append('')
            self.lines.append(ind + '# comment')

    def text(self):
        return '\n'.join(self.lines) + '\n'


def simples():
    return [('B', 'assign'), ('U',), ('BU',)]


def bind_flavours():
    return ['assign', 'annassign', 'tuple', 'import', 'fromimport', 'chained', 'starred', 'walrus-stmt', 'def', 'class', 'comp-walrus']


def seqs(items, maxlen):
    for n in range(1, maxlen + 1):
        for s in itertools.product(items, repeat=n):
            yield list(s)


# --- rendering + interpretation are written side by side, one function per construct ------------------------------------

class Interp(object):
    """definitional interpreter: state = set of environments (value of the tracked name: a binding key or UNBOUND)"""

    def __init__(self, strict):
        self.strict = strict
        self.read_vals = {}     # read key -> set of values
        self.readers = {}       # bind key -> set of read keys

    def read(self, S, key):
        out = set()
        for v in S:
            self.read_vals.setdefault(key, set()).add(v)
            if v != UNBOUND:
                self.readers.setdefault(v, set()).add(key)
            if v == UNBOUND and self.strict:
                continue          # NameError: this execution ends here
            out.add(v)
        self.read_vals.setdefault(key, set())
        return out

    def bind(self, S, key):
        return {key} if S else set()


def run_stmts(stmts, S, I, R, indent):
    for st in stmts:
        S = run_stmt(st, S, I, R, indent)
    return S


def render_test(test, R):
    """fragments of a test expression and its effect"""
    if test == 'plain':
        return ['c()'], None, None
    if test == 'reads':
        k = R.key()
        return ['c(', ('r', k), ')'], k, None
    if test == 'walrus':
        k = R.key()
        return ['(', ('b', k), ' := c())'], None, k
    if test == 'walrus-reads':
        kr, kb = R.key(), R.key()
        return ['(', ('b', kb), ' := c(', ('r', kr), '))'], kr, kb
    raise ValueError(test)


def eval_test(S, I, rk, bk):
    if rk is not None:
        S = I.read(S, rk)
    if bk is not None:
        S = I.bind(S, bk)
    return S


def is_simple(st):
    return st[0] in ('U', 'BU') or (st[0] == 'B' and st[1] not in ('def', 'class'))


def body_or_pass(stmts, S, I, R, indent):
    if R.layout == 'oneline' and R.inline is None and all(is_simple(st) for st in stmts):
        R.inline = 0
        try:
            if not stmts:
                R.emit(indent, ['pass'], simple=True)
                return S
            return run_stmts(stmts, S, I, R, indent)
        finally:
            R.inline = None
    if not stmts:
        R.emit(indent, ['pass'], simple=True)
        return S
    return run_stmts(stmts, S, I, R, indent)


def run_stmt(st, S, I, R, indent):
    kind = st[0]
    if kind == 'U':
        k = R.key()
        R.emit(indent, ['use(', ('r', k), ')'], simple=True)
        return I.read(S, k)
    if kind == 'BU':
        kr, kb = R.key(), R.key()
        R.emit(indent, [('b', kb), ' = f(', ('r', kr), ')'], simple=True)
        return I.bind(I.read(S, kr), kb)
    if kind == 'B':
        fl = st[1]
        k = R.key()
        if fl == 'assign':
            R.emit(indent, [('b', k), ' = new()'], simple=True)
        elif fl == 'annassign':
            R.emit(indent, [('b', k), ': int = new()'], simple=True)
        elif fl == 'tuple':
            R.emit(indent, ['(zz, ', ('b', k), ') = new()'], simple=True)
        elif fl == 'starred':
            R.emit(indent, ['zz, *', ('b', k), ' = new()'], simple=True)
        elif fl == 'chained':
            R.emit(indent, ['zz = ', ('b', k), ' = new()'], simple=True)
        elif fl == 'import':
            R.emit(indent, ['import os as ', ('b', k)], simple=True)
        elif fl == 'fromimport':
            R.emit(indent, ['from os import path as ', ('b', k)], simple=True)
        elif fl == 'walrus-stmt':
            R.emit(indent, ['use((', ('b', k), ' := new()))'], simple=True)
        elif fl == 'def':
            if R.layout == 'broken':
                # the name on a continuation line of its own
                R.emit(indent, ['def \\'])
                R.emit(indent + 2, [('b', k), '(): pass'])
            else:
                R.emit(indent, ['def ', ('b', k), '(): pass'])
        elif fl == 'class':
            if R.layout == 'broken':
                R.emit(indent, ['class \\'])
                R.emit(indent + 2, [('b', k), ': pass'])
            else:
                R.emit(indent, ['class ', ('b', k), ': pass'])
        else:
            raise ValueError(fl)
        return I.bind(S, k)
    if kind == 'if':
        _, test, body, orelse = st
        frags, rk, bk = render_test(test, R)
        R.emit(indent, ['if '] + frags + [':'])
        S = eval_test(S, I, rk, bk)
        S1 = body_or_pass(body, set(S), I, R, indent + 1)
        if orelse is not None:
            R.emit(indent, ['else:'])
            S2 = body_or_pass(orelse, set(S), I, R, indent + 1)
        else:
            S2 = set(S)
        return S1 | S2
    if kind == 'while':
        _, test, body, orelse = st
        frags, rk, bk = render_test(test, R)
        R.emit(indent, ['while '] + frags + [':'])
        # the body is rendered once; it is interpreted up to two times
        mark = len(R.lines)
        snap = (dict(R.reads), dict(R.binds), R.n, R.lines[-1], R.last_simple)
        exits = set()
        S = eval_test(S, I, rk, bk)
        exits |= S
        for trip in range(2):
            if trip:
                # re-interpret the same rendered body: restore the renderer so that keys and positions repeat
                del R.lines[mark:]
                R.reads, R.binds, R.n = dict(snap[0]), dict(snap[1]), snap[2]
                R.lines[mark - 1], R.last_simple = snap[3], snap[4]
            S = body_or_pass(body, set(S), I, R, indent + 1)
            S = eval_test(S, I, rk, bk)
            exits |= S
        if orelse is not None:
            R.emit(indent, ['else:'])
            exits = body_or_pass(orelse, exits, I, R, indent + 1)
        return exits
    if kind == 'for':
        _, target, it, body, orelse = st
        frags = ['for ']
        kt = None
        if target == 'a':
            kt = R.key()
            frags.append(('b', kt))
        elif target == 'tuple':
            kt = R.key()
            frags += ['(zz, ', ('b', kt), ')']
        else:
            frags.append('i')
        frags.append(' in ')
        kr = None
        if it == 'reads':
            kr = R.key()
            frags += ['it(', ('r', kr), ')']
        else:
            frags.append('it()')
        frags.append(':')
        R.emit(indent, frags)
        if kr is not None:
            S = I.read(S, kr)
        mark = len(R.lines)
        snap = (dict(R.reads), dict(R.binds), R.n, R.lines[-1], R.last_simple)
        exits = set(S)
        for trip in range(2):
            if trip:
                del R.lines[mark:]
                R.reads, R.binds, R.n = dict(snap[0]), dict(snap[1]), snap[2]
                R.lines[mark - 1], R.last_simple = snap[3], snap[4]
            if kt is not None:
                S = I.bind(S, kt)
            S = body_or_pass(body, set(S), I, R, indent + 1)
            exits |= S
        if orelse is not None:
            R.emit(indent, ['else:'])
            exits = body_or_pass(orelse, exits, I, R, indent + 1)
        return exits
    if kind == 'with':
        _, items, body = st
        frags = ['with ']
        effects = []
        for n, (rd, asn) in enumerate(items):
            if n:
                frags.append(', ')
            if rd:
                kr = R.key()
                frags += ['cm(', ('r', kr), ')']
                effects.append(('r', kr))
            else:
                frags.append('cm()')
            if asn == 'a':
                kb = R.key()
                frags += [' as ', ('b', kb)]
                effects.append(('b', kb))
            elif asn == 'tuple':
                kb = R.key()
                frags += [' as (zz, ', ('b', kb), ')']
                effects.append(('b', kb))
            elif asn == 'other':
                frags.append(' as w%d' % n)
        frags.append(':')
        R.emit(indent, frags)
        for e in effects:
            S = I.read(S, e[1]) if e[0] == 'r' else I.bind(S, e[1])
        return body_or_pass(body, S, I, R, indent + 1)
    if kind == 'try':
        _, body, handlers, orelse, final = st
        R.emit(indent, ['try:'])
        # the property's domain: an exception leaves the body only at its first or at its last statement, and is always caught - so a
        # try without handlers raises nothing.  "At the first statement": nothing of the body has taken effect.  "At the last statement":
        # everything before it has; its own binding has not.  LENIENT adds: after the last statement completed.
        raised = set(S) if handlers else set()
        cur = set(S)
        if not body:
            R.emit(indent + 1, ['pass'])
        for n, b in enumerate(body):
            if handlers and (n == len(body) - 1 or not I.strict):
                raised |= cur        # LENIENT: an exception may leave the body at any statement (Python's semantics outside the domain)
            cur = run_stmt(b, cur, I, R, indent + 1)
        done = cur
        if handlers and not I.strict:
            raised |= done
        outs = set()
        for n, (asname, hbody) in enumerate(handlers):
            R.emit(indent, ['except E%d as e%d:' % (n, n)] if asname else ['except E%d:' % n])
            outs |= body_or_pass(hbody, set(raised), I, R, indent + 1)
        if orelse is not None:
            R.emit(indent, ['else:'])
            outs |= body_or_pass(orelse, set(done), I, R, indent + 1)
        else:
            outs |= done
        if final is not None:
            R.emit(indent, ['finally:'])
            outs = body_or_pass(final, outs, I, R, indent + 1)
        return outs
    raise ValueError(kind)


# ---------------------------------------------------------------------------
# the supp side

def analyse(text, wrap):
    import supp.linter as L
    import supp.project as Pj
    from supp.util import Source, get_name_usages, np
    from supp.nast import extract_scope
    from supp.name import MultiName, UndefinedName
    project = Pj.Project(['/nonexistent'])
    diags = L.lint(project, text)
    source = Source(text, '<composition>')
    extract_scope(source, project)
    at = {}
    for name in get_name_usages(source.tree):
        if name.id != 'a':
            continue
        loc = np(name)
        try:
            flow = name.flow
        except AttributeError:
            at[loc] = ('unknown', set(), False)
            continue
        sname = flow.names_at(loc).get('a')
        if sname is None:
            at[loc] = ('absent', set(), True)
            continue
        alts = sname.alt_names if isinstance(sname, MultiName) else [sname]
        defs = set(getattr(n, 'declared_at', None) for n in alts if type(n) is not UndefinedName)
        undef = any(type(n) is UndefinedName for n in alts)
        at[loc] = ('present', defs, undef)
    return diags, at


def goto_sites(text, pos, binds):
    """the binding sites supp.assistant.location lists for the read at `pos` (cursor on its first character)"""
    import supp.assistant as A
    import supp.project as Pj
    out = set()
    res = A.location(Pj.Project(['/nonexistent']), text, pos, '<composition>')
    flat = []
    for r in res:
        flat.extend(r if isinstance(r, list) else [r])
    for r in flat:
        if r.get('file') == '<composition>' and r.get('loc'):
            out.add(site_of(tuple(r['loc']), binds))
    return out


def site_of(decl, binds):
    """binding key for a declared_at position: exact position, else the only binding on that line"""
    for k, pos in binds.items():
        if tuple(pos) == tuple(decl):
            return k
    on_line = [k for k, pos in binds.items() if pos[0] == decl[0]]
    return on_line[0] if len(on_line) == 1 else None


REPLAY = '''import sys; sys.path.insert(0, %(repo)r)
from supp.linter import lint
from supp.project import Project
from supp.util import Source, get_name_usages, np
from supp.nast import extract_scope
from supp.name import MultiName, UndefinedName
text = %(text)r
print(text)
p = Project(['/nonexistent'])
print('lint:', [d[:4] for d in lint(p, text)])
src = Source(text, '<replay>'); extract_scope(src, p)
for n in get_name_usages(src.tree):
    if n.id == 'a' and np(n) == %(pos)r:
        s = n.flow.names_at(np(n)).get('a')
        alts = s.alt_names if isinstance(s, MultiName) else ([s] if s is not None else [])
        got = sorted(getattr(x, 'declared_at', 'unbound') if type(x) is not UndefinedName else 'unbound' for x in alts) if s is not None else 'not visible'
        print('read at', np(n), ': supp associates', got)
        print('every execution (branch outcomes, 0..2 loop trips, raise at the first / last statement of a try body):', %(want)r)
        print(%(verdict)r)
'''


def check_program(prog, wrap, layout, prop, path, tag):
    """one program: render, interpret (strict and lenient), run the real analysis, emit the obligations of `prop`"""
    results = {}
    for strict in (True, False):
        R = Render(layout)
        ind = 0
        if wrap == 'function':
            R.emit(0, ['def F(p):'])
            ind = 1
        elif wrap == 'class':
            R.emit(0, ['class K:'])
            ind = 1
        I = Interp(strict)
        run_stmts(prog, {UNBOUND}, I, R, ind)
        results[strict] = (R, I)
    R, Is = results[True]
    Il = results[False][1]
    text = R.text()
    try:
        ast.parse(text)
    except SyntaxError:
        return 0
    diags, at = analyse(text, wrap)
    n = 0
    e02 = set((d[2], d[3]) for d in diags if d[0] in ('E02', 'E42'))
    unused = set((d[2], d[3]) for d in diags if d[0] in ('W01', 'W02'))
    bad = []
    for rk, pos in sorted(R.reads.items()):
        sv = Is.read_vals.get(rk, set())
        lv = Il.read_vals.get(rk, set())
        state, defs, undef = at.get(tuple(pos), ('missing', set(), False))
        supp_sites = set(site_of(d, R.binds) for d in defs)
        sdefs = set(v for v in sv if v != UNBOUND)
        ldefs = set(v for v in lv if v != UNBOUND)
        if prop == 'C01':
            ok = not sdefs or (state == 'present' and tuple(pos) not in e02)
            why = 'a binding reaches this read on some execution, so the name must be visible here (no E02 / E42)'
        elif prop == 'C02':
            ok = sdefs <= supp_sites
            why = 'every binding some execution reads here is among the definitions supp associates with the read'
            if ok and sdefs:
                # the second observation point of the property: go-to-definition from the read lists every such binding
                goto = goto_sites(text, tuple(pos), R.binds)
                if not sdefs <= goto:
                    ok = False
                    why = 'go-to-definition (supp.assistant.location) from the read lists every binding some execution reads here'
                    defs = set(R.binds[k] if k is not None else None for k in goto)
                    defs = set(tuple(d) if d is not None else None for d in defs)
        else:
            ok = (state != 'present' or (None not in supp_sites and supp_sites <= ldefs)) \
                and (not (state == 'present' and undef) or UNBOUND in lv) \
                and (UNBOUND not in sv or state != 'present' or undef or not sdefs) \
                and (not (lv == {UNBOUND} and sv) or state == 'absent' or wrap == 'class')
            why = ('every definition supp associates with the read reaches it on some execution; possibly-unbound exactly when some '
                   'execution reaches it unbound; never bound => undefined')
        n += 1
        if not ok:
            def show(vals):
                return sorted(('line %d' % R.binds[v][0]) if v != UNBOUND else 'unbound' for v in vals)
            bad.append((pos, why, 'strict %s / lenient %s' % (show(sv), show(lv)),
                        '%s %s%s' % (state, sorted(defs), ' + unbound' if undef else '')))
    if prop == 'C02':
        for bk, pos in sorted(R.binds.items()):
            if Is.readers.get(bk) and tuple(pos) in unused:
                n += 1
                bad.append((pos, 'a binding whose value some execution reads is never reported unused', 'read by %d read site(s)' % len(Is.readers[bk]),
                            'W01/W02 reported at %r' % (tuple(pos),)))
    label = '%s:%s' % (tag, layout)
    if not bad:
        prove(label, True, clause='supp agrees with every execution of the program', path=path)
    else:
        pos, why, want, got = bad[0]
        core.RUN.concretise = lambda model, ob: {'input': text, 'script': REPLAY % {
            'repo': core.REPO, 'text': text, 'pos': tuple(pos), 'want': want, 'verdict': 'REPRODUCED: ' + why + ' [supp: ' + got + ']'}}
        prove(label, False, clause='%s: read/binding at %r: executions give %s, supp gives %s, in\n%s' % (why, tuple(pos), want, got, text), path=path)
        core.RUN.concretise = None
    return n


LAYOUTS = ('plain', 'wide', 'broken', 'semi', 'oneline')


def render(prog, wrap, layout):
    R = Render(layout)
    ind = 0
    if wrap == 'function':
        R.emit(0, ['def F(p):'])
        ind = 1
    elif wrap == 'class':
        R.emit(0, ['class K:'])
        ind = 1
    run_stmts(prog, {UNBOUND}, Interp(False), R, ind)
    return R


def layout_view(R, wrap):
    """what supp says about the program, expressed in rendering-order keys (layout independent)"""
    text = R.text()
    diags, at = analyse(text, wrap)
    pos_key = {}
    for k, pos in R.reads.items():
        pos_key[tuple(pos)] = ('read', k)
    for k, pos in R.binds.items():
        pos_key[tuple(pos)] = ('bind', k)
    view = {}
    for rk, pos in R.reads.items():
        state, defs, undef = at.get(tuple(pos), ('missing', set(), False))
        view[rk] = (state, frozenset(site_of(d, R.binds) for d in defs), undef)
    dg = [(d[0], d[1], pos_key.get((d[2], d[3]), 'other')) for d in diags if d[1].endswith(': a')]
    return text, view, dg


LAYOUT_REPLAY = '''import sys; sys.path.insert(0, %(repo)r)
from supp.linter import lint
from supp.project import Project
a, b = %(a)r, %(b)r
p = Project(['/nonexistent'])
da, db = [d[:2] for d in lint(p, a)], [d[:2] for d in lint(p, b)]
print(a); print(da); print(b); print(db)
print(%(verdict)r)
'''


def check_layouts(prog, wrap, path):
    """C13: the same program in five layouts gives the same diagnostics and the same definitions at corresponding reads"""
    base = None
    for layout in LAYOUTS:
        R = render(prog, wrap, layout)
        try:
            ast.parse(R.text())
        except SyntaxError:
            if layout == 'plain':
                return
            prove('layout-%s-renders' % layout, False, kind='lemma', clause='checker: the %s layout of a program does not parse:\n%s' % (layout, R.text()), path=path)
            continue
        text, view, dg = layout_view(R, wrap)
        if layout == 'plain':
            base = (text, view, dg)
            continue
        same = view == base[1] and dg == base[2]
        if not same:
            diff = [k for k in view if view[k] != base[1].get(k)]
            core.RUN.concretise = lambda model, ob, a=base[0], b=text: {'input': {'plain': a, 'other': b}, 'script': LAYOUT_REPLAY % {
                'repo': core.REPO, 'a': a, 'b': b, 'verdict': 'REPRODUCED: the two layouts of one program are analysed differently'}}
        prove('same-as-plain:%s' % layout, same,
              clause='diagnostics and definitions at corresponding reads do not depend on the layout%s' % (
                  '' if same else ' [reads %r: plain %r, %s %r; diagnostics %r vs %r]\n%s\n%s' % (
                      diff, [base[1].get(k) for k in diff], layout, [view[k] for k in diff], base[2], dg, base[0], text)), path=path)
        core.RUN.concretise = None


# ---------------------------------------------------------------------------
# enumeration

BODY1 = [[('B', 'assign')], [('U',)], [('BU',)], [('B', 'assign'), ('U',)], [('U',), ('B', 'assign')]]
TESTS = ['plain', 'reads', 'walrus', 'walrus-reads']


def compounds_depth1(kind):
    if kind == 'if':
        for t in TESTS:
            for b in BODY1:
                for o in [None] + BODY1[:3]:
                    yield ('if', t, b, o)
    elif kind == 'while':
        for t in TESTS:
            for b in BODY1:
                for o in [None] + BODY1[:2]:
                    yield ('while', t, b, o)
    elif kind == 'for':
        for tg in ('a', 'i', 'tuple'):
            for it in ('plain', 'reads'):
                for b in BODY1:
                    for o in [None] + BODY1[:2]:
                        yield ('for', tg, it, b, o)
    elif kind == 'with':
        for items in ([(False, 'a')], [(True, 'a')], [(True, None)], [(False, 'a'), (True, 'other')], [(False, 'other'), (True, 'a')],
                      [(False, 'tuple')], [(True, 'a'), (True, 'a')]):
            for b in BODY1:
                yield ('with', items, b)
    elif kind == 'try':
        hb = [[], [('B', 'assign')], [('U',)]]
        for b in BODY1:
            for hs in ([(False, h)] for h in hb):
                for o in [None, [('B', 'assign')], [('U',)]]:
                    for f in [None, [('B', 'assign')], [('U',)]]:
                        yield ('try', b, hs, o, f)
            for h1 in hb[1:]:
                for h2 in hb:
                    yield ('try', b, [(False, h1), (True, h2)], None, None)


def small(kind):
    """a reduced set of compounds of one kind, used as the INNER statement of nested programs"""
    if kind == 'if':
        return [('if', 'plain', [('B', 'assign')], None), ('if', 'plain', [('B', 'assign')], [('B', 'assign')]), ('if', 'reads', [('U',)], [('B', 'assign')]),
                ('if', 'walrus', [('U',)], None)]
    if kind == 'while':
        return [('while', 'reads', [('B', 'assign')], None), ('while', 'plain', [('U',), ('B', 'assign')], None), ('while', 'plain', [('B', 'assign')], [('U',)])]
    if kind == 'for':
        return [('for', 'a', 'plain', [('U',)], None), ('for', 'i', 'reads', [('B', 'assign')], None), ('for', 'i', 'plain', [('U',), ('B', 'assign')], [('B', 'assign')])]
    if kind == 'with':
        return [('with', [(True, 'a')], [('U',)]), ('with', [(False, 'other')], [('B', 'assign')])]
    if kind == 'try':
        return [('try', [('B', 'assign')], [(False, [('B', 'assign')])], None, None), ('try', [('U',)], [(False, [])], [('B', 'assign')], None),
                ('try', [('B', 'assign')], [], None, [('U',)]), ('try', [('B', 'assign')], [(False, [('U',)])], None, [('B', 'assign')])]
    raise ValueError(kind)


KINDS = ('if', 'while', 'for', 'with', 'try')


def outer_shells(kind, inner):
    """programs of nesting depth two: `inner` placed in every statement list of a compound of `kind`, with or without a sibling"""
    sib = [[], [('B', 'assign')], [('U',)]]
    for before in sib:
        for after in sib[:1] + sib[2:]:
            blk = before + [inner] + after
            if kind == 'if':
                yield ('if', 'plain', blk, None)
                yield ('if', 'plain', [('B', 'assign')], blk)
                yield ('if', 'reads', blk, [('U',)])
            elif kind == 'while':
                yield ('while', 'plain', blk, None)
                yield ('while', 'reads', blk, None)
                yield ('while', 'plain', [('U',)], blk)
            elif kind == 'for':
                yield ('for', 'i', 'plain', blk, None)
                yield ('for', 'a', 'reads', blk, None)
                yield ('for', 'i', 'plain', [('B', 'assign')], blk)
            elif kind == 'with':
                yield ('with', [(True, 'a')], blk)
            elif kind == 'try':
                yield ('try', blk, [(False, [('U',)])], None, None)
                yield ('try', [('B', 'assign')], [(False, blk)], None, None)
                yield ('try', [('U',)], [(False, [])], blk, None)
                yield ('try', [('B', 'assign')], [(False, [])], None, blk)
                yield ('try', [('B', 'assign')], [], None, blk)


def programs(kind, depth):
    pre = [[], [('B', 'assign')]]
    post = [[('U',)], [('U',), ('B', 'assign'), ('U',)]]
    if depth == 1:
        for c in compounds_depth1(kind):
            for a in pre:
                for b in post[:1]:
                    yield a + [c] + b
    else:
        for ik in KINDS:
            for inner in small(ik):
                for shell in outer_shells(kind, inner):
                    for a in pre:
                        yield a + [shell] + post[0]


def flavour_programs():
    """every binding flavour of the grammar, straight-line and in a branch"""
    for fl in bind_flavours():
        if fl == 'comp-walrus':
            continue
        yield [('B', fl), ('U',)]
        yield [('U',), ('B', fl), ('U',)]
        yield [('if', 'plain', [('B', fl)], None), ('U',)]
        yield [('for', 'i', 'plain', [('U',), ('B', fl)], None), ('U',)]


BOUND = ('every program  [a = new()]? ; C ; use(a)  over one tracked identifier where C is a compound statement (if / while / for / with / try with '
         'handlers, else, finally) whose statement lists hold up to two simple statements (bind, read, a = f(a)) - tests and iterables plain, '
         'reading, binding by walrus - and every nesting of a second compound statement inside each statement list of the first (with a '
         'sibling before / after); every binding flavour (assignment forms, imports, def, class, walrus) straight-line, in a branch and in a '
         'loop; at module level, inside a function body and inside a class body; in two layouts (4-space, 8-space with blank lines and '
         'comments); executions: every branch outcome, loop trips 0..2, raise at the first / last statement of a try body')


def make(kind):
    def h(run):
        def go(path):
            prop = core.RUN.prop
            n = 0
            for depth in (1, 2):
                for i, prog in enumerate(programs(kind, depth)):
                    if prop == 'C13':
                        if depth == 1 or i % 5 == 0:
                            run.case = '%s-depth%d-%d-function' % (kind, depth, i)
                            check_layouts(prog, 'function', path)
                        continue
                    for wrap in ('module', 'function'):
                        run.case = '%s-depth%d-%d-%s' % (kind, depth, i, wrap)
                        n += check_program(prog, wrap, 'plain', prop, path, 'agrees')
                    if i % 7 == 0:
                        run.case = '%s-depth%d-%d-function' % (kind, depth, i)
                        check_program(prog, 'function', 'wide', prop, path, 'agrees')
            run.case = None
        core.explore(lambda: None, lambda p, out: go(p))
    h.__name__ = 'composition_%s' % kind
    h.__doc__ = ('BOUNDED stand-in for the composition lemma, outer construct `%s`: the real lint / names_at on every program of the small grammar '
                 'against the definitional interpreter; not counted as proved' % kind)
    return h


for _k in KINDS:
    harness(['C01', 'C02', 'C03', 'C13'], 'supp.nast.extract_scope + Flow.names_at + lint [whole programs, outer %s]' % _k, bounded=BOUND)(make(_k))


@harness(['C01', 'C02', 'C03', 'C13'], 'supp.nast.extract_scope + Flow.names_at + lint [whole programs, binding flavours]', bounded=BOUND)
def composition_flavours(run):
    """BOUNDED stand-in for the composition lemma: every binding flavour; not counted as proved"""
    def go(path):
        prop = core.RUN.prop
        for i, prog in enumerate(flavour_programs()):
            if prop == 'C13':
                for wrap in ('module', 'function'):
                    run.case = 'flavour-%d-%s' % (i, wrap)
                    check_layouts(prog, wrap, path)
                continue
            for wrap in ('module', 'function', 'class'):
                run.case = 'flavour-%d-%s' % (i, wrap)
                check_program(prog, wrap, 'plain', prop, path, 'agrees')
        run.case = None
    core.explore(lambda: None, lambda p, out: go(p))
