"""Sidecar contracts for the text-position functions of supp/scope.py and supp/util.py (C11):
SourceScope.find_id_loc, np."""
import ast

import z3

from pysym import core, loader
from pysym.core import prove, assume, axiom, EngineEscape
from pysym.harness import harness
from pysym.loader import LoopSpec
from pysym.proxies import SInt, SBool, Proxy, lift
from pysym.strings import SStr, is_s, is_ident_char, is_ascii, Int

MOD = 'supp.scope'
NL = 10


class CharSet(object):
    """a literal string used as a set of characters: `c in CHARS`"""
    def __init__(self, chars):
        self.chars = chars

    def __contains__(self, c):
        if type(c) is str:
            return c in self.chars
        if not is_s(c):
            raise EngineEscape('in CharSet: %r' % (c,))
        core.prove('charset-member-is-one-char', c.n() == 1, kind='pre')
        return core.CUR.branch(self.has(c.at(0)))

    def has(self, ct):
        return z3.Or(*[ct == ord(x) for x in self.chars])


class WindowLines(object):
    """source.lines: slicing gives the window; '\\n'.join(window) is the window text W (an arbitrary string)"""
    def __init__(self, W):
        self.W = W
        self.slices = []

    def __getitem__(self, sl):
        self.slices.append(sl)
        return Window(self.W)


class Window(Proxy):
    def __init__(self, W):
        self.W = W


def find_id_loc_loader(holder):
    import supp.scope as S

    def inv(L, st):
        pos = lift(st['pos'])
        W, ident, start_col = holder['W'], holder['id'], holder['start_col']
        j = z3.Int('ij')
        return z3.And(pos >= start_col,
                      z3.ForAll([j], z3.Implies(z3.And(j > start_col, j <= pos),
                                                z3.Not(z3.And(W.match_abs(j, ident), holder['admissible'](j))))))

    def hav(L, st):
        return {'pos': SInt(core.fresh('pos', Int))}

    def __strlit_join(lit, meth, *args):
        raise EngineEscape('unexpected')
    f = loader.load(MOD, 'SourceScope.find_id_loc',
                    stubs=dict(IMPORT_DELIMETERS=CharSet(S.IMPORT_DELIMETERS), IMPORT_END_DELIMETERS=CharSet(S.IMPORT_END_DELIMETERS)),
                    cuts={0: LoopSpec(inv, hav, temps=('ep', 'sl'))}, strlit=True)
    # '\n'.join(window) -> W : the loader's __strlit__ calls strings.concat on the parts of the window; give it W
    g = f.__globals__
    real_strlit = g['__strlit__']

    def strlit(lit, meth, *args):
        if meth == 'join' and lit == '\n' and args and isinstance(args[0], Window):
            return args[0].W
        return real_strlit(lit, meth, *args)
    g['__strlit__'] = strlit
    return f


def admissible_spec(W, ident, delim, S):
    """the delimiter rule of find_id_loc, as the property's anchors state it: preceded by start-of-text or a
    delimiter, followed by end-of-text or an end delimiter (when delimiters are requested)"""
    d1, d2 = CharSet(S.IMPORT_DELIMETERS), CharSet(S.IMPORT_END_DELIMETERS)
    if not delim:
        return lambda j: z3.BoolVal(True)
    m = ident.n()
    return lambda j: z3.And(z3.Or(j == W.lo, d1.has(W.base.ch(j - 1))),
                            z3.Or(j + m >= W.hi, d2.has(W.base.ch(j + m))))


WINDOW_REPLAY = '''import sys; sys.path.insert(0, %(repo)r)
from supp.linter import lint
from supp.project import Project
n = %(n)d
src = "from os import (\\n" + "\\n" * n + "    path)\\n"
r = [x[:4] for x in lint(Project(['/nonexistent']), src)]
lines = src.splitlines()
bad = [x for x in r if x[0] == 'W02' and lines[x[2]-1][x[3]:x[3]+4] != 'path']
if bad:
    print('REPRODUCED: an import statement spanning %%d lines: %%r, the text there is %%r' %% (n + 2, bad[0], lines[bad[0][2]-1][bad[0][3]:bad[0][3]+6])); sys.exit(1)
print('not reproduced')
'''

FIND_REPLAY = '''import sys; sys.path.insert(0, %(repo)r)
from supp.scope import SourceScope
from supp.util import Source
text, ident, start, shift, delim = %(text)r, %(ident)r, %(start)r, %(shift)d, %(delim)r
sc = SourceScope(Source(text))
loc = sc.find_id_loc(ident, start, shift, delim)
lines = text.splitlines() or ['']
if tuple(loc) == tuple(start):
    print('not reproduced: not found'); sys.exit(0)
l, c = loc
got = lines[l-1][c-shift:c-shift+len(ident)] if 0 < l <= len(lines) else None
if got != ident:
    print('REPRODUCED: find_id_loc(%%r, %%r) on %%r = %%r, where the text is %%r' %% (ident, start, text, loc, got)); sys.exit(1)
print('not reproduced')
'''


@harness('C11', 'supp.scope.SourceScope.find_id_loc', twins=('spec-column-off-by-one',))
def find_id_loc(run, twin=None):
    """for every window text W, identifier id (no newline in it), start column, shift, both delimiter modes: the
    result is either `start` (then no admissible occurrence follows start.col) or the (line, column) of the FIRST
    admissible occurrence after start.col: W has id at the offset whose line index is L - sl and whose column is
    C - shift.  Loop invariant: no admissible occurrence in (start.col, pos]."""
    import supp.scope as S
    holder = {}
    f = find_id_loc_loader(holder)
    for delim in (True, False):
        def body(delim=delim):
            W = SStr.sym('W')
            ident = SStr.sym('id')
            k = z3.Int('ak')
            axiom(z3.ForAll([k], z3.Implies(z3.And(k >= 0, k < W.base.n), is_ascii(W.base.ch(k)))))
            axiom(z3.ForAll([k], z3.Implies(z3.And(k >= 0, k < ident.base.n), ident.base.ch(k) != NL)))
            assume(ident.n() >= 1)
            sl, sc, shift = z3.Int('sl'), z3.Int('start_col'), z3.Int('shift')
            assume(z3.And(sl >= 1, sc >= 0, shift >= 0))
            def conc(model, ob, delim=delim):
                if 'window-covers' in ob.name:
                    return conc_window(model, ob)
                ev = lambda t: model.eval(t, model_completion=True).as_long()
                Wn, idn = ev(W.base.n), ev(ident.base.n)
                if Wn > 40 or idn > 10:
                    return None
                fix = lambda c: chr(c) if (32 <= c < 127 or c == 10) else '?'
                text = ''.join(fix(ev(W.base.ch(z3.IntVal(i)))) for i in range(Wn))
                idt = ''.join(fix(ev(ident.base.ch(z3.IntVal(i)))) for i in range(idn))
                return {'input': {'text': text, 'id': idt, 'start': [1, ev(sc)], 'shift': ev(shift), 'delimeters': delim},
                        'script': FIND_REPLAY % {'repo': core.REPO, 'text': text, 'ident': idt, 'start': (1, ev(sc)),
                                                 'shift': ev(shift), 'delim': delim}}
            nice = lambda c: z3.Or(z3.And(c >= 97, c <= 122), c == 10, c == 32, c == 44)
            run.small_model_hints = [z3.And(W.base.n <= m, ident.base.n <= 2, shift == 0, *[nice(W.base.ch(i)) for i in range(m)])
                                     for m in (4, 6)]
            conc_window = lambda model, ob: ({'input': 'parenthesised import spanning %d lines' % (model.eval(holder['el'] - sl, model_completion=True).as_long() + 1),
                                                 'script': WINDOW_REPLAY % {'repo': core.REPO, 'n': max(0, model.eval(holder['el'] - sl, model_completion=True).as_long() - 1)}}
                                                if 'window-covers' in ob.name else None)
            run.concretise = conc
            holder.update(W=W, id=ident, start_col=sc, sl=sl, shift=shift, finds=[], rfinds=[], counts=[],
                          admissible=admissible_spec(W, ident, delim, S))
            # observe the searches the code makes (the values, not their meaning)
            orig_find, orig_rfind, orig_count = W.find, W.rfind, W.count
            W.find = lambda *a: holder['finds'].append(orig_find(*a)) or holder['finds'][-1]
            W.rfind = lambda *a: holder['rfinds'].append(orig_rfind(*a)) or holder['rfinds'][-1]
            W.count = lambda *a: holder['counts'].append(orig_count(*a)) or holder['counts'][-1]

            class Src(object):
                lines = WindowLines(W)

            class Self(object):
                source = Src()
            start = (SInt(sl), SInt(sc))
            holder['start'] = start
            el = z3.Int('stmt_end_line')
            assume(el >= sl)
            holder['el'] = el
            holder['lines'] = Self.source.lines
            import inspect
            params = list(inspect.signature(f).parameters)
            if len(params) >= 6:
                return f(Self(), ident, start, SInt(shift), delim, SInt(el))
            return f(Self(), ident, start, SInt(shift), delim)

        def on_path(p, out, delim=delim):
            lab = 'delim' if delim else 'nodelim'
            W, ident, sc, sl, shift = holder['W'], holder['id'], holder['start_col'], holder['sl'], holder['shift']
            adm = holder['admissible']
            j = z3.Int('pj')
            if out[0] != 'ok':
                prove('%s-no-exception(%s)' % (lab, type(out[1]).__name__), False, path=p)
                return
            res = out[1]
            sls = holder['lines'].slices
            if len(sls) == 1 and sls[0].step is None:
                lo_, hi_ = lift(sls[0].start), lift(sls[0].stop)
                prove('%s-window-covers-the-statement' % lab, z3.And(lo_ == sl - 1, hi_ >= holder['el']),
                      clause='the searched window lines[sl-1 : hi] contains every line of the statement (through its last line)', path=p)
            else:
                prove('%s-window-covers-the-statement' % lab, False, path=p)
            if res is holder['start']:
                prove('%s-notfound-means-no-occurrence' % lab,
                      z3.ForAll([j], z3.Implies(z3.And(j > sc, j + ident.n() <= W.hi),
                                                z3.Not(z3.And(W.match_abs(j, ident), adm(j))))),
                      clause='returns `start` only when no admissible occurrence follows the start column', path=p)
                return
            L, C = lift(res[0]), lift(res[1])
            # the offset the spec assigns to (L, C): line index L - sl, column C - shift
            cnt = W.base.cnt['\n'] if getattr(W.base, 'cnt', None) else None
            o = z3.Int('o')       # the offset
            q = z3.Int('q')       # last newline before o, or -1
            lastnl = z3.And(q >= -1, q < o, z3.Or(q == -1, W.base.ch(q) == NL),
                            z3.ForAll([j], z3.Implies(z3.And(j > q, j < o), W.base.ch(j) != NL)))
            if cnt is None:
                prove('%s-found-position-computed' % lab, False, path=p)
                return
            col = C - shift + (1 if twin else 0)
            offset_of = z3.And(o >= 0, o <= W.hi, lastnl, cnt(o) == L - sl, o - q - 1 == col)
            # such an offset exists, and id is there, admissible, and first
            found = holder['finds'][-1]
            ot = lift(found)
            qt = lift(holder['rfinds'][-1]) if holder['rfinds'] else None
            if qt is None:
                prove('%s-found-position-computed' % lab, False, path=p)
                return
            exists = z3.substitute(offset_of, (o, ot), (q, qt))
            prove('%s-found-offset-has-that-line-and-column' % lab, exists,
                  clause='(L, C) are the line (count of newlines before) and column (distance to the last newline, plus shift) of an offset o', path=p)
            prove('%s-found-text-is-id' % lab, z3.And(ot + ident.n() <= W.hi, W.match_abs(ot, ident)),
                  clause='the text at that offset is exactly the identifier', path=p)
            prove('%s-found-is-admissible' % lab, adm(ot), clause='delimiter rule holds there', path=p)
            prove('%s-found-is-first' % lab,
                  z3.And(ot > sc, z3.ForAll([j], z3.Implies(z3.And(j > sc, j < ot), z3.Not(z3.And(W.match_abs(j, ident), adm(j)))))),
                  clause='it is the first admissible occurrence after the start column', path=p)
        core.explore(body, on_path)


# ---------------------------------------------------------------------------
# call sites of find_id_loc: the NAME token they look for must be an admissible occurrence in every
# token context the lexical grammar allows (Python reference, "Lexical analysis": whitespace between
# tokens is blank / tab / form feed; '#' starts a comment; '\\' joins lines; ';' separates simple
# statements; ',', '(', ')', '.' are delimiters; inside parentheses newlines are whitespace)

BLANK = [' ', '\t', '\x0c']
CONTEXTS = {
    # construct: (characters that may precede the NAME token, characters that may follow it; None = end of text)
    'import-alias': (BLANK + ['\n', ',', '('], BLANK + ['\n', ',', ')', ';', '#', '\\', '.', None]),
    'def-name': (BLANK + ['\n'], BLANK + ['(', '\\', '\n']),
    'class-name': (BLANK + ['\n'], BLANK + ['(', ':', '\\', '\n']),
}


class TopStub(object):
    def __init__(self):
        self.calls = []
        self._imports = []
        self._star_imports = []
        self.end_lines = []

    def find_id_loc(self, id, start, shift=0, delimeters=True, end_line=None):
        self.calls.append((id, start, shift, delimeters))
        self.end_lines.append(end_line)
        return start

    def add_flow(self, flow):
        return flow


def site_args(kind):
    """run the REAL binding code on a minimal node and record what it asks find_id_loc for"""
    import supp.scope as S
    import supp.nast as N
    top = TopStub()
    if kind == 'import-alias':
        out = []
        for src in ('import modname', 'import (\n\n modname)'.replace('import (', 'from q import ('), 'import modname.sub', 'import a.b as modname', 'from x import modname', 'from x import y as modname'):
            node = ast.parse(src).body[0]
            v = N.extract_visitor()
            v.top = top
            asked, given = [], []

            class F(object):
                scope = None

                def add_name(self, n):
                    given.append(n)
            v.flow = F()
            v.alias_loc = lambda node_, alias, name, start: asked.append((node_, alias, name, start)) or ('declared', len(asked))
            v.visit(node)
            out.append((src, node, asked, given))
        return out
    if kind == 'def-name':
        node = ast.parse('def modname(): pass').body[0]
        S.FuncScope(None, node, top)
        return [('def modname(): pass', top.calls[-1])]
    node = ast.parse('class modname: pass').body[0]
    S.ClassScope(None, node, top)
    return [('class modname: pass', top.calls[-1])]


CTX_REPLAY = '''import sys; sys.path.insert(0, %(repo)r)
from supp.scope import SourceScope
from supp.nast import extract
from supp.util import Source
src = %(src)r
sc = SourceScope(Source(src)); extract(sc.source.tree, sc.flow)
lines = src.splitlines()
bad = []
for flow, name in sc.all_names:
    l, c = name.declared_at
    if name.name == %(name)r and lines[l-1][c:c+len(name.name)] != name.name:
        bad.append((name.name, name.declared_at, lines[l-1][c:c+len(name.name)]))
if bad:
    print('REPRODUCED: %%r: binding %%r reported at %%r where the text is %%r' %% ((src,) + bad[0])); sys.exit(1)
print('not reproduced')
'''


def pipeline_ok(src, name):
    """the real extraction on a concrete program: every binding of `name` is reported where the text is `name`, and an `as name` binding
    at the LAST occurrence of the word in its alias"""
    import supp.scope as S
    from supp.nast import extract
    from supp.util import Source
    sc = S.SourceScope(Source(src))
    extract(sc.source.tree, sc.flow)
    lines = src.split('\n')
    found = [n.declared_at for _, n in sc.all_names if n.name == name]
    if not found:
        return False
    want = []
    for node in ast.walk(sc.source.tree):
        if isinstance(node, ast.alias) and (node.asname or node.name.partition('.')[0]) == name:
            want.append((node.end_lineno, node.end_col_offset - len(name)) if node.asname else (node.lineno, node.col_offset))
    return sorted(found) == sorted(want) and all(0 < l <= len(lines) and lines[l - 1][c:c + len(name)] == name for l, c in found)


@harness('C11', 'supp.nast.extract_visitor.alias_loc')
def alias_loc_contract(run):
    """alias_loc(statement, alias, bound name, start): where the parser records the extent of the alias, the position of its LAST token when the
    alias has an `as` clause (end of the alias minus the length of the name) and of its FIRST token otherwise - never an earlier occurrence of
    the same word in the statement; without recorded extents, what find_id_loc finds from the statement start up to the statement end"""
    run.trust('CPython parser (3.10+): an alias node spans from the first character of its dotted name to the last character of its `as` name; '
              'columns are UTF-8 byte offsets (the property quantifies over ASCII-only lines)')
    f = loader.load('supp.nast', 'extract_visitor.alias_loc')
    holder = {}

    class Top(object):
        def find_id_loc(self, id, start, shift=0, delimeters=True, end_line=None):
            holder['asked'] = (id, start, shift, delimeters, end_line)
            return ('found',)

    class V(object):
        top = Top()

    def body():
        case = core.choice(4)
        l, c, el, ec, n = [core.fresh(k, Int) for k in ('lineno', 'col', 'end_lineno', 'end_col', 'len')]
        assume(z3.And(l >= 1, c >= 0, el >= l, ec >= 0, n >= 1))
        name = SStr.fresh('name') if hasattr(SStr, 'fresh') else None
        holder.clear()
        holder.update(case=case, l=l, c=c, el=el, ec=ec)

        class Name(str):
            pass
        nm = 'bound_name'
        a = ast.alias(name='x.y', asname=nm if case in (0, 2) else None)
        if case in (0, 1):
            a.lineno, a.col_offset, a.end_lineno, a.end_col_offset = SInt(l), SInt(c), SInt(el), SInt(ec)
        else:
            for k in ('lineno', 'col_offset', 'end_lineno', 'end_col_offset'):
                a.__dict__.pop(k, None)
        node = ast.Import(names=[a])
        node.lineno, node.col_offset, node.end_lineno = 3, 4, 9
        return f(V(), node, a, nm if case in (0, 2) else 'x', (3, 4))

    def on_path(p, out):
        case = holder['case']
        run.case = ('as-name', 'plain', 'as-name-no-extents', 'plain-no-extents')[case]
        if out[0] != 'ok':
            prove('no-exception', False, clause='alias_loc raises nothing [%r]' % (out[1],), path=p)
            return
        r = out[1]
        if case == 0:
            prove('as-name-is-the-last-token-of-the-alias', z3.And(lift(r[0]) == holder['el'], lift(r[1]) == holder['ec'] - len('bound_name')),
                  clause='(end line, end column - len(name)) of the alias', path=p)
        elif case == 1:
            prove('plain-name-is-the-first-token-of-the-alias', z3.And(lift(r[0]) == holder['l'], lift(r[1]) == holder['c']),
                  clause='(line, column) of the alias', path=p)
        else:
            want = ('bound_name' if case == 2 else 'x', (3, 4), 0, True, 9)
            prove('without-extents-searches-the-statement', r == ('found',) and holder.get('asked') == want,
                  clause='find_id_loc(name, statement start, end_line=statement end) [%r]' % (holder.get('asked'),), path=p)
    core.explore(body, on_path)
    run.case = None


@harness('C11', 'find_id_loc call sites (visit_Import, visit_ImportFrom, FuncScope.__init__, ClassScope.__init__)')
def find_id_loc_call_sites(run):
    """requires-clause of find_id_loc at each call site: with the arguments the real code passes, the NAME token is an
    admissible occurrence in every token context the lexical grammar allows (otherwise the call falls back to the statement
    start, whose text is a keyword).  Ground obligations over the grammar's context sets and the module's delimiter constants."""
    import supp.scope as S
    run.trust('Python lexical grammar: the characters that may precede / follow a NAME token in import, def and class '
              'statements (CONTEXTS table, from the language reference)')
    NAME = 'modname'

    def example(kind, src, b, a):
        """a program that puts the NAME token in that context"""
        if kind == 'import-alias':
            head = 'import' if src.startswith('import') and ' as ' not in src else None
            if b in (',',):
                s = 'import os,%s' % NAME
            elif b == '(':
                s = 'from os import(%s' % NAME
            elif b == '\n':
                s = 'from os import (\n%s' % NAME
            else:
                s = 'import%s%s' % (b, NAME)
            closes = ')' if '(' in s else ''
            if a is None:
                return s + closes if not closes else s + ')'
            if a == ',':
                return s + ',sys' + closes
            if a == ')':
                return (s if '(' in s else 'from os import (%s' % NAME) + ')'
            if a == ';':
                return s + closes + ';x=1' if not closes else None
            if a == '#':
                return s + '#c\n' + closes
            if a == '\\':
                return (s + '\\\n, sys') if not closes else None
            if a == '.':
                return (s + '.path') if s.startswith('import') and '(' not in s and ',' not in s else None
            return s + a + closes
        kw = 'def' if kind == 'def-name' else 'class'
        pre = kw + (b if b != '\n' else ' \\\n')
        if a == '(':
            tail = '(): pass' if kw == 'def' else '(object): pass'
        elif a == ':':
            tail = ': pass'
        elif a == '\\':
            tail = '\\\n(): pass' if kw == 'def' else '\\\n: pass'
        elif a == '\n':
            return None
        else:
            tail = a + ('(): pass' if kw == 'def' else ': pass')
        return pre + NAME + tail

    def go(path):
        d1, d2 = S.IMPORT_DELIMETERS, S.IMPORT_END_DELIMETERS
        # imports: the visitors ask alias_loc (contract below) for the position of the bound name of each alias and bind the name there
        for src, node, asked, given in site_args('import-alias'):
            ok = (len(asked) == len(node.names) == len(given) and all(
                q[0] is node and q[1] is a and q[2] == (a.asname or a.name.partition('.')[0] if isinstance(node, ast.Import) else a.asname or a.name)
                and q[3] == (node.lineno, node.col_offset) and g.declared_at == ('declared', k + 1) and g.name == q[2]
                for k, (a, q, g) in enumerate(zip(node.names, asked, given))))
            prove('import-alias-position-comes-from-alias_loc[%s]' % src, ok, kind='pre',
                  clause='each alias is bound at alias_loc(statement, alias, bound name, statement start)', path=path)
        before, after = CONTEXTS['import-alias']
        for b in before:
            for a in after:
                for asname in (False, True):
                    ex = example('import-alias', 'import x', b, a)
                    if ex is None:
                        continue
                    if asname:
                        ex = ex.replace(NAME, 'modname.modname as' + (b if b in BLANK else ' ') + NAME, 1) if ex.startswith('import') else ex.replace(NAME, NAME + ' as' + (b if b in BLANK else ' ') + NAME, 1)
                    try:
                        tree = ast.parse(ex)
                    except SyntaxError:
                        continue
                    core.RUN.concretise = (lambda ex: lambda model, ob: {
                        'input': {'source': ex}, 'script': CTX_REPLAY % {'repo': core.REPO, 'src': ex, 'name': NAME}})(ex)
                    prove('import-alias%s-found-when-preceded-by-%r-followed-by-%r' % ('-as' if asname else '', b, a), pipeline_ok(ex, NAME), kind='pre',
                          clause='the text at the position of the binding is the bound name, after the last earlier occurrence of the word, in %r' % ex, path=path)
        core.RUN.concretise = None
        for kind, (before, after) in CONTEXTS.items():
            if kind == 'import-alias':
                continue
            for src, (ident, start, shift, delim) in site_args(kind):
                lead = ident[:len(ident) - len(NAME)] if ident.endswith(NAME) else None
                prove('%s-searches-for-the-bound-name[%s]' % (kind, src), lead is not None and shift == len(lead),
                      clause='the identifier searched is the bound name (plus `shift` leading characters)', kind='pre', path=path)
                if lead is None:
                    continue
                for b in before:
                    ok_b = (b in d1) if delim else True
                    if lead:
                        ok_b = ok_b and lead[-1] == b        # the literal lead must be what precedes the token
                    ex = example(kind, src, b, after[0])
                    core.RUN.concretise = (lambda ex: lambda model, ob: ex and {
                        'input': {'source': ex}, 'script': CTX_REPLAY % {'repo': core.REPO, 'src': ex, 'name': NAME}})(ex)
                    prove('%s-admissible-when-preceded-by-%r[%s]' % (kind, b, src.split()[0]), bool(ok_b), kind='pre',
                          clause='the token is found when preceded by %r' % b, path=path)
                for a in after:
                    ok_a = (a is None or a in d2) if delim else True
                    ex = example(kind, src, before[0], a)
                    core.RUN.concretise = (lambda ex: lambda model, ob: ex and {
                        'input': {'source': ex}, 'script': CTX_REPLAY % {'repo': core.REPO, 'src': ex, 'name': NAME}})(ex)
                    prove('%s-admissible-when-followed-by-%r[%s]' % (kind, a, src.split()[0]), bool(ok_a), kind='pre',
                          clause='the token is found when followed by %r' % (a,), path=path)
        core.RUN.concretise = None
    core.explore(lambda: None, lambda p, out: go(p))
