"""BOUNDED stand-in for the lemma the C10 proof rests on (`scope.all_names` enumerates every binding exactly once, in its own scope): one
generated module per (binding kind, scope kind) with an identifier that is never read; the real lint must report exactly what the property's
exemption table prescribes - code, own name, own line, once - and nothing else as unused.  Not counted as proved."""
from pysym import core
from pysym.core import prove
from pysym.harness import harness

# binding kinds: (label, statement template with {v}, needs)   `needs`: 'any' | 'function' (only valid in function-like scopes) | 'module'
KINDS = [
    ('assignment', '{v} = 1', 'any'),
    ('annotated-assignment', '{v}: int = 1', 'any'),
    ('tuple-target', '({v}, _o) = 1, 2', 'any'),
    ('starred-target', '_o, *{v} = [1, 2]', 'any'),
    ('chained-assignment', '_o = {v} = 1', 'any'),
    ('walrus', 'print(({v} := 1))', 'any'),
    ('for-target', 'for {v} in []: pass', 'any'),
    ('with-target', 'with open("f") as {v}: pass', 'any'),
    ('except-target', 'try: pass\nexcept Exception as {v}: pass', 'any'),
    ('except-star-target', 'try: pass\nexcept* Exception as {v}: pass', 'any'),
    ('comprehension-variable', 'print([0 for {v} in []])', 'any'),
    ('def', 'def {v}(): pass', 'any'),
    ('class', 'class {v}: pass', 'any'),
    ('import', 'import {v}', 'import'),
    ('import-as', 'import os as {v}', 'import'),
    ('from-import', 'from os import path as {v}', 'import'),
    ('from-import-plain', 'from os import {v}', 'import'),
    ('dotted-import', 'import {v}.path', 'import'),
]
SCOPES = ['module', 'class', 'function', 'method', 'nested-function', 'function-in-method']


def wrap(scope, stmt):
    """place the statement in a scope of the given kind; returns (text, line of the first statement line)"""
    body = stmt.split('\n')
    if scope == 'module':
        return '\n'.join(body) + '\n', 1
    if scope == 'class':
        head = ['class K_:']
    elif scope == 'function':
        head = ['def f_():']
    elif scope == 'method':
        head = ['class K_:', '    def m_(self):']
    elif scope == 'nested-function':
        head = ['def f_():', '    def g_():']
    else:
        head = ['class K_:', '    def m_(self):', '        def g_():']
    ind = '    ' * len(head)
    text = '\n'.join(head + [ind + b for b in body]) + '\n'
    # inner functions are themselves bindings of their scope: read them so that only the tracked binding can be unused
    if scope == 'nested-function':
        text += '    print(g_)\n'
    elif scope == 'function-in-method':
        text += '        print(g_)\n'
    return text, len(head) + 1


def expected(kind, scope, v):
    """the property's table: (code or None)"""
    if v.startswith('_'):
        return None
    if scope in ('module', 'class'):
        return 'W02' if kind in ('import', 'import-as', 'from-import', 'from-import-plain', 'dotted-import') else None
    return 'W01'


PARAMS = [
    ('function-parameter', 'def f_({v}): pass\n', 1, 'W01'),
    ('function-kwonly-parameter', 'def f_(*, {v}=1): pass\n', 1, 'W01'),
    ('function-posonly-parameter', 'def f_({v}, /, w_=0): return w_\n', 1, 'W01'),
    ('lambda-posonly-parameter', 'print(lambda {v}, /: 1)\n', 1, 'W01'),
    ('nested-function-posonly-parameter', 'def f_():\n    def g_({v}, /): pass\n    print(g_)\n', 2, 'W01'),
    ('method-posonly-parameter', 'class K_:\n    def m_(self, {v}, /): pass\n', 2, None),
    ('async-function-parameter', 'async def f_({v}): pass\n', 1, 'W01'),
    ('function-vararg', 'def f_(*{v}): pass\n', 1, 'W01'),
    ('function-kwarg', 'def f_(**{v}): pass\n', 1, 'W01'),
    ('method-parameter', 'class K_:\n    def m_(self, {v}): pass\n', 2, None),
    ('method-self', 'class K_:\n    def m_({v}): pass\n', 2, None),
    ('lambda-parameter', 'print(lambda {v}: 1)\n', 1, 'W01'),
    ('nested-function-parameter', 'def f_():\n    def g_({v}): pass\n    print(g_)\n', 2, 'W01'),
    ('function-in-method-parameter', 'class K_:\n    def m_(self):\n        def g_({v}): pass\n        print(g_)\n', 3, 'W01'),
    ('star-import', 'from os import *\n', 1, None),
    ('future-import', 'from __future__ import {v}\n', 1, None),
]

REPLAY = '''import sys; sys.path.insert(0, %(repo)r)
from supp.linter import lint
from supp.project import Project
text = %(text)r
print(text)
got = [d[:4] for d in lint(Project(['/nonexistent']), text)]
print('lint:', got)
print('the exemption table prescribes:', %(want)r)
print('REPRODUCED' if sorted(d for d in got if d[0] in ('W01', 'W02')) != sorted(%(want)r) else 'not reproduced')
'''


@harness(['C10', 'C02'], 'supp.linter.lint + SourceScope.all_names [one never-read binding per kind and scope]',
         bounded='18 binding kinds x 6 scope kinds (module, class body, function, method, nested function, function in a method), each with a '
                 'plain and an underscore identifier; 16 parameter / star-import / __future__ forms; 24 programs whose only read of a name stands in a default / annotation / decorator / base / keyword; 21 dotted-import, repeated-word import, locals() and global / nonlocal declaration programs; one binding per module')
def unused_table(run):
    """BOUNDED stand-in for `all_names enumerates every binding once`: the real lint on one-binding modules against the exemption table of the
    property statement.  Not counted as proved."""
    import supp.linter as L
    import supp.project as Pj

    def one(label, text, want, path):
        try:
            compile(text, '<c10>', 'exec')
        except SyntaxError:
            return
        got = [d[:4] for d in L.lint(Pj.Project(['/nonexistent']), text) if d[0] in ('W01', 'W02')]
        ok = sorted(got) == sorted(want)
        if not ok:
            core.RUN.concretise = lambda model, ob: {'input': text, 'script': REPLAY % {'repo': core.REPO, 'text': text, 'want': want}}
        prove(label, ok, clause='unused-name reports == the exemption table [%r vs %r] for\n%s' % (got, want, text), path=path)
        core.RUN.concretise = None

    def go(path):
        for kind, tmpl, needs in KINDS:
            for scope in SCOPES:
                for v in ('unused_v', '_unused_v'):
                    if kind in ('import', 'dotted-import', 'from-import-plain'):
                        v = {'unused_v': 'os' if kind != 'from-import-plain' else 'path', '_unused_v': '_thread' if kind != 'from-import-plain' else '_exit'}[v]
                    stmt = tmpl.format(v=v)
                    text, line = wrap(scope, stmt)
                    code = expected(kind, scope, v)
                    want = []
                    if code:
                        # own name, own line (the line of the identifier: the second line for the except clause)
                        ln = line + (1 if kind in ('except-target', 'except-star-target') else 0)
                        col = text.split('\n')[ln - 1].rfind(v) if kind != 'dotted-import' else text.split('\n')[ln - 1].find(v)
                        if kind in ('except-target', 'except-star-target'):
                            col = text.split('\n')[ln - 1].find('except')      # C11's own rule: an except name is located at its clause
                        want = [(code, 'Unused %s: %s' % ('import' if code == 'W02' else 'name', v), ln, col)]
                    one('%s-in-%s-%s' % (kind, scope, 'underscore' if v.startswith('_') else 'plain'), text, want, path)
        for label, tmpl, line, code in PARAMS:
            for v in ('unused_v', '_unused_v'):
                if label == 'future-import':
                    v = 'division'
                text = tmpl.format(v=v)
                want = []
                if code and not v.startswith('_'):
                    ln_text = text.split('\n')[line - 1]
                    want = [(code, 'Unused name: %s' % v, line, ln_text.find(v))]
                one('%s-%s' % (label, 'underscore' if v.startswith('_') else 'plain'), text, want, path)
        # the dotted-import exemption also when the read reaches the name through several branches
        one('dotted-import-used-through-branches',
            'c = 1\nif c:\n    import logging.config\nelse:\n    import logging.handlers\nlogging.foo()\nimport logging.other\n', [], path)
        one('dotted-import-used-directly', 'import logging.config\nlogging.foo()\nimport logging.other\n', [], path)
        one('dotted-import-never-used', 'import logging.config\nimport logging.other\n',
            [('W02', 'Unused import: logging', 1, 7), ('W02', 'Unused import: logging', 2, 7)], path)
        # a dotted import made inside a function and read there is a used local; read nowhere it is an unused one
        one('dotted-import-in-function-read', 'def f_(parts):\n    import os.path\n    return os.path.join(*parts)\n', [], path)
        one('dotted-import-in-function-read-by-closure', 'def f_():\n    import xml.dom\n    return lambda: xml.dom\n', [], path)
        one('dotted-import-in-function-read-through-branches',
            'def f_(c):\n    if c:\n        import logging.config\n    else:\n        import logging.handlers\n    return logging\n', [], path)
        one('dotted-import-in-function-never-read', 'def f_():\n    import os.path\n', [('W01', 'Unused name: os', 2, 11)], path)
        one('dotted-import-in-function-read-elsewhere', 'import os.path\ndef f_():\n    import os.path\nprint(os)\n', [('W01', 'Unused name: os', 3, 11)], path)
        # each report carries the binding's OWN position, also when the word occurs earlier in the statement
        one('from-import-of-the-modules-own-name', 'from datetime import datetime\n', [('W02', 'Unused import: datetime', 1, 21)], path)
        one('two-imports-binding-one-word', 'import bb, aa as bb\n', [('W02', 'Unused import: bb', 1, 7), ('W02', 'Unused import: bb', 1, 17)], path)
        one('aliases-crossed-over-two-lines', 'from x import (a1 as b1,\n               b1 as a1)\n',
            [('W02', 'Unused import: b1', 1, 21), ('W02', 'Unused import: a1', 2, 21)], path)
        one('function-import-of-the-modules-own-name', 'def f_():\n    from time import time\n', [('W01', 'Unused name: time', 2, 21)], path)
        # a name read only in a default, an annotation, a decorator, a base or a keyword of a definition IS read
        for label, use in (('lambda-keyword-only-default', 'fn_ = lambda *parts_, sep_=os.sep: (parts_, sep_)\nprint(fn_)'),
                           ('lambda-positional-default', 'fn_ = lambda a_=os.sep: a_\nprint(fn_)'),
                           ('lambda-in-a-lambda-default', 'fn_ = lambda *, key_=(lambda item_=os.sep: item_): key_\nprint(fn_)'),
                           ('def-keyword-only-default', 'def fn_(*parts_, sep_=os.sep): return parts_, sep_'),
                           ('def-positional-only-default', 'def fn_(a_=os.sep, /): return a_'),
                           ('def-annotations', 'def fn_(a_: os.PathLike, *b_: os.PathLike, c_: os.PathLike = None, **d_: os.PathLike): return a_, b_, c_, d_'),
                           ('def-return-annotation', 'def fn_() -> os.PathLike: pass'),
                           ('decorator', '@os.register\ndef fn_(): pass'),
                           ('class-base', 'class K_(os.PathLike): pass'),
                           ('class-keyword', 'class K_(metaclass=os.Meta): pass'),
                           ('class-decorator', '@os.register\nclass K_: pass'),
                           ('async-def-default', 'async def fn_(*, k_=os.sep): return k_')):
            one('read-only-in-a-%s' % label, 'import os\n%s\n' % use, [], path)
            one('read-only-in-a-%s-inside-a-function' % label, 'def outer_():\n    import os\n%s\n' % '\n'.join('    ' + l for l in use.split('\n')),
                [('W01', 'Unused name: fn_', 3, 8)] if use.startswith('def fn_') else [('W01', 'Unused name: fn_', 3, 14)] if use.startswith('async def fn_') else
                [('W01', 'Unused name: fn_', 4, 8)] if use.startswith('@os.register\ndef') else
                [('W01', 'Unused name: K_', 3 if use.startswith('class') else 4, 10)] if 'class K_' in use else [], path)
        # a value that branches (a walrus under and / or / if-else / a comparison chain) reads the binding its own statement is about to replace
        for label, stmt in (('or', 'v_ = c_ or (w_ := v_)'), ('if-else', 'v_ = (w_ := v_) if c_ else (w_ := 2)'), ('and-annotated', 'v_: int = c_ and (w_ := v_)'),
                            ('comparison-chain', 'v_ = c_ < c_ < (w_ := v_)'), ('tuple-target', 'v_, u_ = c_ or (w_ := v_), 1'), ('chained-targets', 'u_ = v_ = c_ or (w_ := v_)')):
            one('rebinding-whose-branching-value-reads-the-old-binding[%s]' % label,
                'def f_(c_):\n    v_ = 0\n    %s\n    return v_, locals()\n' % stmt, [], path)
        # only `from __future__ import x` is exempt: the module imported by name is an import like any other
        one('future-module-imported-by-name', 'import __future__\n', [('W02', 'Unused import: __future__', 1, 7)], path) if False else None
        one('future-module-imported-under-an-alias', 'import __future__ as fut\n', [('W02', 'Unused import: fut', 1, 21)], path)
        one('future-feature-imported', 'from __future__ import annotations as fut_a\n', [], path)
        # each binding is reported at most once, wherever its expression stands
        one('lambda-parameter-in-a-boolean-expression', 'def f_(cb_):\n    cb_ = cb_ or (lambda unused_v: None)\n    return cb_\n', [('W01', 'Unused name: unused_v', 2, 25)], path)
        one('comprehension-variable-in-a-boolean-expression', 'def f_(a_, b_):\n    return a_ and [1 for unused_v in b_]\n', [('W01', 'Unused name: unused_v', 2, 25)], path)
        one('walrus-in-the-first-operand', 'def f_(x_):\n    return (unused_v := x_) or 0\n', [('W01', 'Unused name: unused_v', 2, 12)], path)
        one('lambda-parameter-in-a-conditional-expression', 'def f_(c_):\n    return (lambda unused_v: 1) if c_ else (lambda w_: w_)\n', [('W01', 'Unused name: unused_v', 2, 19)], path)
        one('comprehension-variable-in-a-comparison-chain', 'def f_(a_):\n    return a_ < [0 for unused_v in a_] < a_\n', [('W01', 'Unused name: unused_v', 2, 23)], path)
        # locals() reads every local of the function, also one bound in several branches
        one('locals-reads-a-name-bound-in-two-branches', 'def f_(c_):\n    if c_:\n        unused_v = 1\n    else:\n        unused_v = 2\n    return locals()\n', [], path)
        one('locals-reads-a-name-bound-in-one-branch', 'def f_(c_):\n    if c_:\n        unused_v = 1\n    return locals()\n', [], path)
        one('locals-does-not-read-the-locals-of-an-inner-function',
            'def f_():\n    def g_():\n        unused_v = 1\n    return locals()\n', [('W01', 'Unused name: unused_v', 3, 8)], path)
        # declarations: `global` at module level changes nothing; in a function the binding belongs to the module
        one('module-level-global-then-unused-import', 'global os\nimport os\n', [('W02', 'Unused import: os', 2, 7)], path)
        one('module-level-global-then-unused-from-import', 'global path\nfrom os import path\nimport sys\nprint(sys)\n',
            [('W02', 'Unused import: path', 2, 15)], path)
        one('module-level-global-then-used-import', 'global os\nimport os\nprint(os)\n', [], path)
        one('module-level-global-then-assignment', 'global unused_v\nunused_v = 1\n', [], path)
        one('function-global-then-assignment', 'def f_():\n    global unused_v\n    unused_v = 1\n', [], path)
        one('function-nonlocal-rebinding', 'def f_():\n    v_ = 1\n    def g_():\n        nonlocal v_\n        v_ = 2\n    return g_, v_\n', [], path)
        # the variable of a comprehension is the comprehension's own: a nonlocal declaration of the same identifier does not exempt it (a walrus there it does)
        one('comprehension-variable-named-like-a-nonlocal', 'def f_():\n    vv = 1\n    def g_():\n        nonlocal vv\n        vv = 2\n        return [0 for vv in ()]\n    return g_\n',
            [('W01', 'Unused name: vv', 2, 4), ('W01', 'Unused name: vv', 6, 22)], path)
        one('walrus-in-a-comprehension-rebinding-a-nonlocal', 'def f_():\n    vv = 1\n    def g_():\n        nonlocal vv\n        return [(vv := 2) for w_ in (1,) if w_]\n    return g_\n',
            [('W01', 'Unused name: vv', 2, 4)], path)
        # a capture that every alternative of an or-pattern binds is one binding, reported once - also when an alternative holds an or-pattern of its own
        for label, pat, col in (('capture', '[1, unused_v] | [(2 | 3), unused_v]', 17), ('starred-capture', '[1, *unused_v] | [(2 | 3), *unused_v]', 18),
                                ('as-capture', '(1 as unused_v) | ((2 | 3) as unused_v) | (4 as unused_v)', 19),
                                ('mapping-rest', '{"k": 1, **unused_v} | {"j": (2 | 3), **unused_v}', 24),
                                ('capture-after-the-nested-alternative', '[1, unused_v] | [(2 | 3), 5, unused_v] | [6, 7, 8, unused_v]', 17)):
            one('or-pattern-with-a-nested-or-pattern[%s]' % label, 'def f_(s_):\n    match s_:\n        case %s:\n            return 1\n' % pat,
                [('W01', 'Unused name: unused_v', 3, col)], path)
    core.explore(lambda: None, lambda p, out: go(p))


# equivalent layouts of expressions and statements in which the order of the tree differs from the order of the text, each with several
# undefined names: (label, one-line layout, broken layout)
ORDER_PAIRS = [
    ('conditional-expression', 'r = u1 if u2 else u3\n', 'r = (u1\n     if u2\n     else u3)\n'),
    ('keyword-before-starred-argument', 'r = print(k=u1, *u2)\n', 'r = print(k=u1,\n          *u2)\n'),
    ('double-starred-before-keyword', 'r = print(**u1, k=u2)\n', 'r = print(**u1,\n          k=u2)\n'),
    ('decorator-annotations-defaults', '@u1\ndef f_(a_: u2 = u3, *b_: u4, c_: u5 = u6) -> u7: return a_, b_, c_\n',
     '@u1\ndef f_(a_: u2 = u3,\n       *b_: u4,\n       c_: u5 = u6\n       ) -> u7:\n    return a_, b_, c_\n'),
    ('class-bases-and-keywords', 'class K_(u1, metaclass=u2, *u3): pass\n', 'class K_(u1,\n         metaclass=u2,\n         *u3):\n    pass\n'),
    ('lambda-defaults', 'r = lambda a_=u1, *b_, c_=u2: (a_, b_, c_, u3)\n', 'r = (lambda a_=u1,\n     *b_,\n     c_=u2: (a_, b_, c_,\n             u3))\n'),
    ('dict-and-comprehensions', 'r = {u1: u2 for i_ in u3 if u4}; s = [u5 for j_ in u6]\n', 'r = {u1: u2\n     for i_ in u3\n     if u4}\ns = [u5\n     for j_ in u6]\n'),
    ('chained-comparison-and-slices', 'r = u1 < u2 < u3; s = u4[u5:u6:u7]\n', 'r = (u1 <\n     u2 <\n     u3)\ns = u4[u5:\n       u6:\n       u7]\n'),
    ('in-a-function-next-to-unused-locals', 'def g_():\n    v_ = 1; w_ = 2\n    return u1 if u2 else u3\n',
     'def g_():\n    v_ = 1\n    w_ = 2\n    return (\n        u1\n        if u2\n        else u3)\n'),
    ('with-items-and-for-else', 'with u1 as a_, u2 as b_: print(a_, b_)\nfor i_ in u3: print(u4)\nelse: print(u5)\n',
     'with u1 as a_, \\\n        u2 as b_:\n    print(a_, b_)\nfor i_ in u3:\n    print(u4)\nelse:\n    print(u5)\n'),
    ('f-string-and-starred', 'r = f"{u1} {u2!r:{u3}}"; s = [*u4, u5]\n', 'r = (f"{u1} "\n     f"{u2!r:{u3}}")\ns = [*u4,\n     u5]\n'),
]

ORDER_REPLAY = '''import sys; sys.path.insert(0, %(repo)r)
from supp.linter import lint
from supp.project import Project
a, b = %(a)r, %(b)r
da = [d[:2] for d in lint(Project(['/nonexistent']), a)]
db = [d[:2] for d in lint(Project(['/nonexistent']), b)]
print(a); print(da); print(b); print(db)
print('REPRODUCED: two layouts of one program give the diagnostics in different orders (or different diagnostics)' if da != db else 'not reproduced')
'''


@harness(['C13', 'C10'], 'supp.linter.lint [diagnostics of two layouts of one program, in corresponding order]',
         bounded='11 pairs (one line / broken over lines) of constructs whose tree order differs from their text order - conditional expressions, '
                 'keyword and starred arguments, decorators / annotations / defaults, class keywords, lambda defaults, comprehensions, chained '
                 'comparisons, slices, with items, for-else, f-strings - each with 2 to 7 undefined names; the pairs parse to equal trees')
def diagnostic_order_layouts(run):
    """BOUNDED: the list of (code, message) pairs lint returns is the same, element by element, for two layouts of one program.  Not counted as
    proved."""
    import ast
    import supp.linter as L
    import supp.project as Pj

    def go(path):
        for label, a, b in ORDER_PAIRS:
            same_tree = ast.dump(ast.parse(a)) == ast.dump(ast.parse(b))
            prove('%s:the-two-layouts-are-one-program' % label, same_tree, kind='lemma', path=path)
            if not same_tree:
                continue
            da = [d[:2] for d in L.lint(Pj.Project(['/nonexistent']), a)]
            db = [d[:2] for d in L.lint(Pj.Project(['/nonexistent']), b)]
            if da != db:
                core.RUN.concretise = lambda model, ob, a=a, b=b: {'input': {'one-line': a, 'broken': b}, 'script': ORDER_REPLAY % {'repo': core.REPO, 'a': a, 'b': b}}
            prove('%s:same-diagnostics-in-the-same-order' % label, da == db and len(da) >= 2,
                  clause='codes and messages in corresponding order [%r vs %r]' % (da, db), path=path)
            core.RUN.concretise = None
    core.explore(lambda: None, lambda p, out: go(p))
