"""BOUNDED stand-in for C05 on whole modules: generated modules with nested def / class / lambda scopes, shadowing, `global` and `nonlocal`
declarations; the scope the CPython compiler resolves every read of the tracked identifier to (module `symtable`, i.e. the compiler's own
symbol tables) against the scopes of the bindings the real supp analysis associates with that read.  Not counted as proved.

The deductive obligations of contracts/scopes.py are per function (entry table of a scope, add_name, the names of each scope kind); that they
compose over arbitrarily nested modules is what this stand-in samples exhaustively for nesting depth <= 3."""
import ast
import itertools
import symtable

from pysym import core
from pysym.core import prove
from pysym.harness import harness

OPTS = ('none', 'bind', 'global', 'global+bind', 'nonlocal', 'nonlocal+bind', 'other-global+bind')
KINDS = ('def', 'class')
# other statements that make x a local of the scope they stand in (language reference 4.2.1 "binding of names"); `real`: an object is bound
FORMS = {
    'aug': ('x += 1', False), 'ann': ('x: int', False), 'ann-value': ('x: int = 1', True), 'del': ('del x', False),
    'for': ('for x in []: pass', True), 'with': ('with cm() as x: pass', True), 'with-tuple': ('with cm() as (x, _o): pass', True),
    'with-starred-list': ('with cm() as [_o, *x]: pass', True), 'for-tuple': ('for _o, (x, _p) in []: pass', True), 'except': ('try: pass\nexcept E as x: pass', False),
    'import': ('import x', True), 'import-as': ('import os as x', True), 'from-import': ('from os import x', True),
    'def': ('def x(): pass', True), 'class': ('class x: pass', True), 'walrus': ('print((x := 1))', True),
    'tuple': ('(x, _o) = 1, 2', True), 'match': ('match p:\n    case x: pass', True), 'match-as': ('match p:\n    case str() as x: pass', True),
    'match-star': ('match p:\n    case [_o, *x]: pass', True), 'match-rest': ('match p:\n    case {1: _o, **x}: pass', True),
    'type-alias': ('type x = int', True), 'ann-parenthesised': ('(x): int', False), 'ann-parenthesised-value': ('(x): int = 1', True),
    'try-star': ('try: pass\nexcept* E as x: pass', False), 'comprehension': ('print([0 for _o in [] if (x := 1)])', True),
}


def render(chain, module_binds, leaf_lambda):
    """chain: [(kind, opt)] outermost first.  Returns text, reads {line: scope index}, binds {line: scope index}; scope 0 is the module"""
    lines, reads, binds, headers = [], {}, {}, {}

    def emit(ind, text):
        lines.append('    ' * ind + text)
        return len(lines)

    if module_binds:
        binds[emit(0, 'x = 0')] = 0
    reads[emit(0, 'use(x)')] = 0

    def level(i, ind):
        kind, opt = chain[i]
        sid = i + 1
        headers[emit(ind, ('def f%d(p%d):' % (sid, sid)) if kind == 'def' else ('class C%d:' % sid))] = sid
        if opt.startswith('other-global'):
            emit(ind + 1, 'global zz_other')        # a declaration about another name: x stays what it would be without it
        if opt.startswith('global'):
            emit(ind + 1, 'global x')
        if opt.startswith('nonlocal'):
            emit(ind + 1, 'nonlocal x')
        reads[emit(ind + 1, 'use(x)')] = sid
        if opt.endswith('bind'):
            binds[emit(ind + 1, 'x = %d' % sid)] = sid
        if 'form:' in opt:
            text, real = FORMS[opt.split('form:')[1]]
            first = None
            for t in text.split('\n'):
                ln = emit(ind + 1, t)
                if 'x' in t.replace('except', '').replace('pass', '') or first is None:
                    first = ln if first is None else first
                    if ' x' in t or t.startswith('x') or '(x' in t or '*x' in t:
                        binds[ln] = sid
        reads[emit(ind + 1, 'use(x)')] = sid
        if i + 1 < len(chain):
            level(i + 1, ind + 1)
        elif leaf_lambda:
            ln = emit(ind + 1, 'lam = lambda%s: use(x)' % ('' if leaf_lambda == 'no-parameter' else ' q'))
            reads[ln] = ('lambda', sid)
            headers[('lambda', ln)] = ('lambda', sid)
        reads[emit(ind + 1, 'use(x)')] = sid
    level(0, 0)
    reads[emit(0, 'use(x)')] = 0
    return '\n'.join(lines) + '\n', reads, binds, headers


def compiler_owner(text, chain, headers):
    """scope index that owns `x` for code in each scope, by the compiler's symbol tables: {scope: owner | 'unresolved-global'}"""
    top = symtable.symtable(text, '<c05>', 'exec')
    tables = {0: (top, None)}

    def walk(tab, parent_sid):
        for ch in tab.get_children():
            ln = ch.get_lineno()
            if ch.get_name() == 'lambda':
                sid = ('lambda', parent_sid)
            else:
                sid = headers.get(ln)
            tables[sid] = (ch, parent_sid)
            walk(ch, sid)
    walk(top, 0)
    owner = {}
    for sid, (tab, parent) in tables.items():
        try:
            sym = tab.lookup('x')
        except KeyError:
            continue
        if sid == 0:
            owner[sid] = 0
        elif sym.is_global():
            owner[sid] = 0
        elif sym.is_free():
            p = parent
            own = None
            while p is not None and p != 0:
                pt, pp = tables[p]
                if pt.get_type() == 'function':
                    try:
                        ps = pt.lookup('x')
                        if ps.is_local():
                            own = p
                            break
                    except KeyError:
                        pass
                p = pp
            owner[sid] = own
        elif sym.is_local():
            owner[sid] = sid
        else:
            owner[sid] = None
    kinds = {sid: tab.get_type() for sid, (tab, _) in tables.items()}
    return owner, kinds


def supp_view(text):
    import supp.project as Pj
    from supp.util import Source, get_name_usages, np
    from supp.nast import extract_scope
    from supp.name import MultiName, UndefinedName
    project = Pj.Project(['/nonexistent'])
    source = Source(text, '<c05>')
    extract_scope(source, project)
    out = {}
    for name in get_name_usages(source.tree):
        if name.id != 'x':
            continue
        loc = np(name)
        sname = name.flow.names_at(loc).get('x')
        if sname is None:
            out[loc[0]] = None
            continue
        alts = sname.alt_names if isinstance(sname, MultiName) else [sname]
        out[loc[0]] = [getattr(n, 'declared_at', ('runtime', type(n).__name__)) for n in alts if type(n) is not UndefinedName]
    return out


REPLAY = '''import sys, symtable; sys.path.insert(0, %(repo)r)
from supp.project import Project
from supp.util import Source, get_name_usages, np
from supp.nast import extract_scope
from supp.name import MultiName, UndefinedName
text = %(text)r
print(text)
src = Source(text, '<replay>'); extract_scope(src, Project(['/nonexistent']))
for n in get_name_usages(src.tree):
    if n.id == 'x' and n.lineno == %(line)d:
        s = n.flow.names_at(np(n)).get('x')
        alts = (s.alt_names if isinstance(s, MultiName) else [s]) if s is not None else []
        print('read of x at line %(line)d: supp resolves it to the bindings at', [getattr(a, 'declared_at', a) for a in alts if type(a) is not UndefinedName])
print(%(verdict)r)
'''


def check_module(text, chain, reads, binds, headers, path):
    owner, tkinds = compiler_owner(text, chain, headers)
    # semantic owner of every binding line: the scope the compiler gives x in the scope that contains the line
    bind_owner = {ln: owner.get(sid) for ln, sid in binds.items()}
    view = supp_view(text)
    bad = None
    for ln, sid in sorted(reads.items(), key=lambda kv: kv[0]):
        own = owner.get(sid)
        if tkinds.get(sid) == 'class' and own == sid:
            continue            # the class binds x itself: outside the comparison
        got = view.get(ln, 'missing')
        if got == 'missing':
            bad = (ln, 'the read is not analysed', own, got)
            break
        if got is None:
            continue            # not visible: C05 constrains only what IS resolved (visibility is C01)
        for d in got:
            bo = bind_owner.get(d[0], 'unknown-line')
            if bo != own:
                bad = (ln, 'resolved to a binding of another scope', own, got)
                break
        if bad:
            break
    if bad:
        ln, why, own, got = bad
        core.RUN.concretise = lambda model, ob, text=text, ln=ln, why=why, own=own: {'input': text, 'script': REPLAY % {
            'repo': core.REPO, 'text': text, 'line': ln,
            'verdict': 'REPRODUCED: %s (the compiler resolves x there to scope #%r; 0 = module, k = k-th nested scope)' % (why, own)}}
    prove('resolves-to-the-compilers-scope', bad is None,
          clause='every binding supp gives a read of x belongs to the scope the compiler resolves x to%s' % (
              '' if bad is None else ' [line %d: %s; compiler scope %r; supp bindings %r]\n%s' % (bad[0], bad[1], bad[2], bad[3], text)),
          path=path)
    core.RUN.concretise = None
    if core.RUN.prop == 'C01':
        # visibility (C01): a read inside a function that the compiler resolves to the module sees the module's binding of line 1
        lost = None
        for ln, sid in sorted(reads.items(), key=lambda kv: kv[0]):
            if tkinds.get(sid) == 'function' and owner.get(sid) == 0 and binds.get(1) == 0:
                got = view.get(ln)
                if not got or all(d[0] != 1 for d in got):
                    lost = (ln, got)
                    break
        if lost:
            core.RUN.concretise = lambda model, ob, text=text, ln=lost[0]: {'input': text, 'script': REPLAY % {
                'repo': core.REPO, 'text': text, 'line': ln,
                'verdict': 'REPRODUCED: the compiler resolves x there to the module, whose binding x = 0 of line 1 is not among the bindings supp reports'}}
        prove('module-binding-visible-where-the-compiler-resolves-to-the-module', lost is None,
              clause='a read in a function that the compiler resolves to the module sees the module-level binding%s' % (
                  '' if lost is None else ' [line %d: supp bindings %r]\n%s' % (lost[0], lost[1], text)), path=path)
        core.RUN.concretise = None


@harness(['C05', 'C01', 'C03'], 'supp.nast.extract_scope + Flow.names_at [whole modules against the compiler\'s symbol tables]',
         bounded='every module  [x = 0]? ; use(x) ; S1 ; use(x)  where S1 is a chain of up to 3 nested def / class scopes (optionally ending in a '
                 'lambda with or without a parameter, in a def or a class body), each level with one of {nothing, x = .., global x, global x + binding, nonlocal x, nonlocal x + binding} and a read '
                 'of x before the binding, after it and after the nested scope; only modules the compiler accepts')
def scopes_against_symtable(run):
    """BOUNDED stand-in: for every read of x, every binding supp associates with it belongs to the scope the compiler's symbol table resolves x
    to from that read's scope (class-body reads are compared only when the class does not bind x; a read the compiler resolves to the module
    may also see nothing).  Not counted as proved."""
    def go(path):
        n = 0
        for depth in (1, 2, 3):
            for kinds in itertools.product(KINDS, repeat=depth):
                for opts in itertools.product(OPTS, repeat=depth):
                    for module_binds in (False, True):
                        # the innermost scope may end in a lambda, with or without a parameter, in a def and in a class body alike
                        for leaf_lambda in ((False, 'parameter', 'no-parameter') if depth < 3 or kinds[-1] == 'def' else (False,)):
                            chain = list(zip(kinds, opts))
                            text, reads, binds, headers = render(chain, module_binds, leaf_lambda)
                            try:
                                compile(text, '<c05>', 'exec')
                            except SyntaxError:
                                continue
                            n += 1
                            run.case = 'd%d-%d' % (depth, n)
                            check_module(text, chain, reads, binds, headers, path)
        run.case = None
    core.explore(lambda: None, lambda p, out: go(p))


@harness(['C05', 'C01', 'C03'], 'supp.nast.extract_scope + Flow.names_at [every statement that makes a name local, against the compiler\'s symbol tables]',
         bounded='modules  [x = 0]? ; use(x) ; S1 ; use(x)  with S1 a chain of 1-2 nested def / class scopes where one level holds one of 21 '
                 'binding statements for x (augmented assignment, bare and valued annotation, del, for, with, except, except*, imports, def, '
                 'class, walrus, tuple target, match captures, walrus in a comprehension) and the other level one of {nothing, x = .., global x}')
def binding_forms_against_symtable(run):
    """BOUNDED stand-in: as scopes_against_symtable, for every statement form that makes x a local of its scope.  Not counted as proved."""
    def go(path):
        n = 0
        for depth in (1, 2):
            for kinds in itertools.product(KINDS, repeat=depth):
                for pos in range(depth):
                    for form in FORMS:
                        for other in (('none',) if depth == 1 else ('none', 'bind', 'global')):
                            for module_binds in (False, True):
                                opts = [other] * depth
                                opts[pos] = 'form:' + form
                                chain = list(zip(kinds, opts))
                                text, reads, binds, headers = render(chain, module_binds, False)
                                try:
                                    compile(text, '<c05>', 'exec')
                                except SyntaxError:
                                    continue
                                n += 1
                                run.case = 'f%d-%d' % (depth, n)
                                check_module(text, chain, reads, binds, headers, path)
        # a declaration and, in the same scope, a statement that would otherwise make the name local: the declaration wins, and the name
        # stays visible (the enclosing function / the module binds it before the nested scope is entered)
        for decl in ('nonlocal', 'global'):
            for form in ('aug', 'ann-value', 'del', 'for', 'walrus', 'import-as', 'tuple'):
                for inner_kind in KINDS:
                    chain = [('def', 'bind'), (inner_kind, '%s+form:%s' % (decl, form))]
                    text, reads, binds, headers = render(chain, True, False)
                    try:
                        compile(text, '<c05>', 'exec')
                    except SyntaxError:
                        continue
                    n += 1
                    run.case = 'decl-%s-%s-%s' % (decl, form, inner_kind)
                    check_module(text, chain, reads, binds, headers, path)
                    if form in ('aug', 'del') and inner_kind == 'def':
                        view = supp_view(text)
                        first_inner_read = min(ln for ln, sid in reads.items() if sid == 2)
                        prove('declared-name-stays-visible', view.get(first_inner_read) is not None,
                              clause='a name declared %s and then only augmented / deleted in a function is still resolved there (C01) [line %d of]\n%s' % (
                                  decl, first_inner_read, text), path=path)
        run.case = None
    core.explore(lambda: None, lambda p, out: go(p))


PEP695 = [
    ('function-type-parameter-read-in-the-body', 'x = 0\ndef tp[x](a):\n    return x\n', 3),
    ('function-type-parameter-read-in-an-annotation', 'x = 0\ndef tp[x](a: x):\n    return a\n', 2),
    ('class-type-parameter-read-in-a-method', 'x = 0\nclass G[x]:\n    def m(self):\n        return x\n', 4),
    ('type-alias-parameter', 'x = 0\ntype Al[x] = list[x]\n', 2),
]


@harness(['C05'], 'supp.nast.extract_scope + Flow.names_at [PEP 695 type parameters]', bounded='4 programs: a type parameter named like a module variable')
def type_parameters(run):
    """BOUNDED: a PEP 695 type parameter is a variable of its own annotation scope - a read of it is never satisfied by the module-level
    binding of the same name.  Not counted as proved."""
    def go(path):
        for label, text, line in PEP695:
            try:
                compile(text, '<c05>', 'exec')
            except SyntaxError:
                continue
            got = supp_view(text).get(line, 'missing')
            ok = got != 'missing' and (got is None or all(d[0] != 1 for d in got))
            if not ok:
                core.RUN.concretise = lambda model, ob, text=text, line=line: {'input': text, 'script': REPLAY % {
                    'repo': core.REPO, 'text': text, 'line': line,
                    'verdict': 'REPRODUCED: the read of the type parameter x is resolved to the module-level x = 0 of line 1'}}
            prove('type-parameter:%s' % label, ok, clause='a read of a type parameter does not resolve to the module binding of the same name '
                  '[supp bindings %r]\n%s' % (got, text), path=path)
            core.RUN.concretise = None
    core.explore(lambda: None, lambda p, out: go(p))


COMP_PROGRAMS = [
    # (label, program; every read of it succeeds under CPython, which the harness first checks by running it)
    ('read-before-a-comprehension-with-the-same-variable', 'x = 1\ndef f():\n    print(x)\n    return [x for x in range(3)]\nf()\n'),
    ('read-before-a-comprehension-that-only-binds', 'x = 1\ndef f():\n    r = x\n    return [0 for x in range(3)], r\nf()\n'),
    ('generator-dict-and-set-comprehensions', 'k = v = 1\ndef f():\n    a = k, v\n    return {k: v for k, v in [(1, 2)]}, {k for k in (1,)}, list(v for v in (2,)), a\nf()\n'),
    ('nested-function-reads-the-enclosing-variable', 'def outer():\n    y = 1\n    def inner():\n        r = y\n        return [y for y in range(2)], r\n    return inner()\nouter()\n'),
    ('lambda-reads-the-module-variable', 'z = 1\nfn = lambda: (z, [z for z in range(2)])\nfn()\n'),
    ('conditional-expression-whose-test-binds', 'def f():\n    r = w if (w := 1) else 0\n    return r, w\nf()\n'),
    ('conditional-expression-whose-test-binds-at-module-level', 'r = u if (u := 1) else 0\nprint(r, u)\n'),
]


@harness(['C01', 'C05'], 'supp.linter.lint [reads that succeed under CPython: comprehension variables and tests that bind]',
         bounded='7 programs, each first run under CPython: a name read in a function before a comprehension whose variable has the same name '
                 '(list / set / dict / generator, nested function, lambda), and conditional expressions whose test binds what the first arm reads')
def reads_that_succeed(run):
    """BOUNDED: C01's own oracle on programs whose reads all succeed at run time - lint reports no Undefined / UNKNOWN name for them.  The
    variable of a comprehension belongs to the comprehension: it does not make the name a local of the function around it.  Not counted as
    proved."""
    import io
    import contextlib
    import supp.linter as L
    import supp.project as Pj

    def go(path):
        for label, text in COMP_PROGRAMS:
            try:
                with contextlib.redirect_stdout(io.StringIO()):
                    exec(compile(text, '<c01>', 'exec'), {})
                ran = True
            except Exception as e:
                ran = 'raised %s' % type(e).__name__
            prove('%s:runs-under-cpython' % label, ran is True, kind='lemma', clause='the witness program runs without a NameError [%r]' % (ran,), path=path)
            if ran is not True:
                continue
            got = [d[:4] for d in L.lint(Pj.Project(['/nonexistent']), text) if d[0] in ('E02', 'E42')]
            if got:
                core.RUN.concretise = lambda model, ob, text=text: {'input': text, 'script': (
                    'import sys; sys.path.insert(0, %r)\nfrom supp.linter import lint\nfrom supp.project import Project\ntext = %r\nexec(compile(text, "<w>", "exec"), {})\n'
                    'r = [d[:4] for d in lint(Project(["/nonexistent"]), text) if d[0] in ("E02", "E42")]\n'
                    'print("REPRODUCED: the program runs, lint reports %%r" %% (r,) if r else "not reproduced")\n') % (core.REPO, text)}
            prove('%s:no-undefined-name-for-a-read-that-succeeds' % label, not got, clause='lint reports %r for\n%s' % (got, text), path=path)
            core.RUN.concretise = None
    core.explore(lambda: None, lambda p, out: go(p))


READ_BINDINGS = [
    # (label, program, position of a read, positions of the bindings an execution reads there)
    ('first-arm-reads-what-the-test-binds', 'def f(g):\n    r = w if (w := g()) else 0\n    return r\n', (2, 8), [(2, 14)]),
    ('first-arm-reads-what-the-test-rebinds', 'def f(g):\n    w = 0\n    r = w if (w := g()) else 1\n    return r\n', (3, 8), [(3, 14)]),
    ('else-arm-reads-what-the-test-binds', 'def f(g):\n    r = 1 if not (w := g()) else w\n    return r\n', (2, 33), [(2, 18)]),
    ('first-arm-of-a-nested-conditional', 'def f(g):\n    return (w.a if (w := g()) else 2) if g else 3\n', (2, 12), [(2, 20)]),
    ('at-module-level', 'import os\nr = u if (u := os.sep) else 0\nprint(r)\n', (2, 4), [(2, 10)]),
    ('second-operand-of-an-and-reads-what-the-first-binds', 'def f(g):\n    return (w := g()) and w.a\n', (2, 26), [(2, 12)]),
    ('context-expression-reads-what-its-own-target-rebinds', 'def f(c, m):\n    x = 1\n    with (c or (y := m(x))) as x:\n        print(x, y)\n', (3, 23), [(2, 4)]),
    ('second-item-reads-the-target-of-the-first', 'def f(a, b):\n    with a() as x, (b or (y := x)) as z:\n        print(x, y, z)\n', (2, 31), [(2, 16)]),
    ('later-comparator-reads-what-an-earlier-one-binds', 'def f(g):\n    return 0 < (w := g()) < w + 1\n', (2, 28), [(2, 16)]),
]


@harness(['C02'], 'supp.linter.lint / supp.assistant.location [bindings made inside the expression that reads them]',
         bounded='9 programs: a walrus in the test of a conditional expression read in an arm written before or after it, in a boolean operand, in a comparator; a with item whose context expression branches and reads what its target rebinds; '
                 'each binding is read by every execution that reaches the read')
def bindings_read_inside_their_expression(run):
    """BOUNDED: C02 at its two observation points for bindings that stand to the right of (or inside the same expression as) the read that
    obtains them: lint does not call the binding unused, go-to-definition from the read lists it.  Not counted as proved."""
    import supp.linter as L
    import supp.assistant as A
    import supp.project as Pj

    def go(path):
        for label, text, read, defs in READ_BINDINGS:
            compile(text, '<c02>', 'exec')
            ln, col = read
            line = text.split('\n')[ln - 1]
            word = line[col:].split('.')[0].split(' ')[0].split(')')[0]
            prove('%s:the-read-and-the-bindings-are-where-the-row-says' % label,
                  word.isidentifier() and all(text.split('\n')[l - 1][c:].startswith(word) for l, c in defs), kind='lemma',
                  clause='the row names the same identifier at the read and at each binding [%r]' % (word,), path=path)
            diags = [d[:4] for d in L.lint(Pj.Project(['/nonexistent']), text)]
            unused = [d for d in diags if d[0] in ('W01', 'W02') and (d[2], d[3]) in defs]
            res = A.location(Pj.Project(['/nonexistent']), text, read, '<c02>')
            flat = []
            for r in res:
                flat.extend(r if isinstance(r, list) else [r])
            got = sorted(tuple(r['loc']) for r in flat if r.get('file') == '<c02>')
            script = ('import sys; sys.path.insert(0, %r)\nfrom supp.linter import lint\nfrom supp.assistant import location\nfrom supp.project import Project\n'
                      'text = %r\nprint(text)\nd = [x[:4] for x in lint(Project(["/nonexistent"]), text)]\nprint("lint:", d)\n'
                      'g = location(Project(["/nonexistent"]), text, %r, "<c02>")\nprint("go-to-definition from %r:", g)\n'
                      'flat = []\nfor r in g: flat.extend(r if isinstance(r, list) else [r])\n'
                      'bad = [x for x in d if x[0] in ("W01", "W02") and (x[2], x[3]) in %r] or [p for p in %r if p not in [tuple(r["loc"]) for r in flat]]\n'
                      'print("REPRODUCED: the binding at %r is read by the execution, supp: %%r" %% (bad,) if bad else "not reproduced")\n'
                      ) % (core.REPO, text, read, read, defs, defs, defs)
            core.RUN.concretise = lambda model, ob, text=text, script=script: {'input': text, 'script': script}
            prove('%s:the-binding-is-not-reported-unused' % label, not unused, clause='lint reports %r for a binding the read at %r obtains\n%s' % (unused, read, text), path=path)
            prove('%s:go-to-definition-lists-the-binding' % label, all(d in got for d in defs),
                  clause='go-to-definition from %r lists %r, the execution reads %r\n%s' % (read, got, defs, text), path=path)
            core.RUN.concretise = None
    core.explore(lambda: None, lambda p, out: go(p))


STAR_MODULES = {
    'with_all.py': '__all__ = ["_hidden", "shown"]\n_hidden = 1\nshown = 2\nnot_listed = 3\n',
    'with_all_tuple.py': '__all__ = ("t_one", "_t_two")\nt_one = 1\n_t_two = 2\nt_three = 3\n',
    'without_all.py': 'plain = 1\n_private = 2\n',
    'reexporting.py': 'from with_all import *\n__all__ = ["shown", "own"]\nown = 4\n',
    # an __all__ that is not a display of literals: what it lists cannot be read off the text (the default rule is the best guess)
    'computed_all.py': 'NAME = "alpha"\n__all__ = [NAME, "beta"]\nalpha = 1\nbeta = 2\n',
    'augmented_all.py': '__all__ = ["first"]\n__all__ += ["second"]\nfirst = 1\nsecond = 2\n',
    'star_of_computed.py': 'from computed_all import *\nmore = 3\n',
}
STAR_READS = [('computed_all', ['alpha', 'beta']), ('star_of_computed', ['more', 'beta']), ('augmented_all', ['first']),
              ('with_all', ['_hidden', 'shown', 'not_listed']), ('with_all_tuple', ['t_one', '_t_two', 't_three']), ('without_all', ['plain', '_private']),
              ('reexporting', ['shown', 'own', '_hidden', 'not_listed'])]


@harness(['C01', 'C03', 'C08'], 'supp.scope.SourceScope.resolve_star_imports [what a star import binds, against CPython]',
         bounded='7 project modules (with __all__ as a list and as a tuple, computed or augmented, listing underscore names and leaving public ones out; without __all__; '
                 're-exporting a star import under an __all__ of its own) x a read of every name of theirs after `from m import *`, each run under CPython')
def star_import_names(run):
    """BOUNDED: after `from m import *` a read of name n is reported undefined by lint exactly when CPython raises NameError for it: a module's
    __all__ (a literal list or tuple of strings) decides what is copied, underscore names included; without it every name that does not start
    with an underscore.  Not counted as proved."""
    import os
    import shutil
    import subprocess
    import sys
    import tempfile
    import supp.linter as L
    import supp.project as Pj

    def go(path):
        top = tempfile.mkdtemp(prefix='supp-c01-')
        try:
            for fn, text in STAR_MODULES.items():
                with open(os.path.join(top, fn), 'w') as f:
                    f.write(text)
            for mod, names in STAR_READS:
                for n in names:
                    text = 'from %s import *\nprint(%s)\n' % (mod, n)
                    r = subprocess.run([sys.executable, '-c', text], cwd=top, capture_output=True, text=True, timeout=60,
                                       env=dict(os.environ, PYTHONPATH=top, PYTHONDONTWRITEBYTECODE='1'))
                    runs = r.returncode == 0
                    if not runs and 'NameError' not in r.stderr:
                        prove('%s.%s:witness-runs-or-raises-NameError' % (mod, n), False, kind='lemma', clause=r.stderr[-200:], path=path)
                        continue
                    try:
                        got = [d[:2] for d in L.lint(Pj.Project([top]), text, os.path.join(top, 'edited.py')) if d[0] in ('E02', 'E42')]
                    except Exception as e:
                        got = ['lint raised %s: %s' % (type(e).__name__, e)]
                    ok = (got == []) if runs else (got == [('E02', 'Undefined name: %s' % n)])
                    if not ok:
                        core.RUN.concretise = lambda model, ob, text=text: {'input': text, 'script': (
                            'import sys, os, tempfile; sys.path.insert(0, %r)\nd = tempfile.mkdtemp()\nfor fn, t in %r.items(): open(os.path.join(d, fn), "w").write(t)\n'
                            'from supp.linter import lint\nfrom supp.project import Project\ntext = %r\n'
                            'print([x[:2] for x in lint(Project([d]), text, os.path.join(d, "edited.py"))])\n'
                            'print("REPRODUCED: lint and CPython disagree on whether the star import binds the name (CPython: %s)")\n') % (
                                core.REPO, STAR_MODULES, text, 'the read succeeds' if runs else 'NameError')}
                    prove('from %s import *: %s' % (mod, n), ok,
                          clause='lint reports Undefined name exactly when CPython raises NameError [CPython: %s; lint: %r]' % ('runs' if runs else 'NameError', got), path=path)
                    core.RUN.concretise = None
        finally:
            shutil.rmtree(top, ignore_errors=True)
    core.explore(lambda: None, lambda p, out: go(p))
