"""Sidecar contracts for supp/umsgpack.py (property C14; reused by C15/C16).

Every harness executes the real function from /repo/supp/umsgpack.py (loader.load)
with proxy arguments; `struct`, `bytes`, the stream and recursive callees are
contract stubs.  Spec functions come from spec/msgpack.py (written from the
MessagePack specification).  Byte strings are chunk lists (pysym.proxies): one
BV8 term per literal byte, opaque blobs for payloads, `rep` chunks for the
concatenation of the first k element encodings.
"""
import struct as _struct

import z3

from pysym import core, loader
from pysym import proxies as P
from pysym.core import prove, assume, EngineEscape
from pysym.harness import harness
from pysym.loader import LoopSpec, Mutable
from pysym.proxies import SInt, SBool, SBytes, Proxy, lift, chunks_of, cat, lit, blob, mk_bytes, beq
from spec import msgpack as M

MOD = 'supp.umsgpack'
Int = z3.IntSort()
T_UTF8 = ("str.encode('utf-8') / bytes.decode('utf-8'): mutually inverse on valid data, UnicodeDecodeError exactly "
          "on invalid UTF-8 (uninterpreted utf8/unutf8/valid_utf8)")
T_STRUCT = ("struct.pack/unpack (b B >h >H >i >I >q >Q >d >f): big-endian two's complement of exactly n bytes, "
            "struct.error outside the range or on a wrong buffer size; >d round-trips bit-for-bit")
T_IO = 'io.BytesIO.read/write: sequential stream; read(n) returns min(n, remaining) bytes and advances'


# ---------------------------------------------------------------------------
# proxies specific to this module

class SFloat(Proxy):
    _pyclass = float

    def __init__(self, t):
        self.t = t


class SStr(Proxy):
    """an arbitrary Python str, known only through its UTF-8 image"""
    _pyclass = str

    def __init__(self, t):
        self.t = t

    def encode(self, enc='utf-8'):
        if enc != 'utf-8':
            raise EngineEscape('encode(%r)' % enc)
        core.RUN.trust(T_UTF8)
        u, n = M.utf8(self.t), M.utf8_len(self.t)
        assume(z3.And(n >= 0, M.valid_utf8(u, n), M.unutf8(u, n) == self.t))
        return SBytes((blob(u, n),))


class _BytesMeta(type):
    def __instancecheck__(cls, x):
        return isinstance(x, bytes) or getattr(x, '_pyclass', None) is bytes

    def __subclasscheck__(cls, c):
        return issubclass(c, bytes)


class BytesModel(metaclass=_BytesMeta):
    """stands for the builtin `bytes` in the namespace copy: bytes.decode(b, 'utf-8')"""
    @staticmethod
    def decode(b, enc='utf-8'):
        if enc != 'utf-8':
            raise EngineEscape('decode(%r)' % enc)
        core.RUN.trust(T_UTF8)
        if isinstance(b, bytes):
            return b.decode('utf-8')
        ch = P.norm_chunks(b.chunks)
        if len(ch) == 0:
            return ''
        if len(ch) != 1 or ch[0][0] != 'blob':
            raise EngineEscape('decode of a composite byte string')
        u, n = ch[0][1], ch[0][2]
        if core.branch(M.valid_utf8(u, n)):
            return SStr(M.unutf8(u, n))
        raise UnicodeDecodeError('utf-8', b'', 0, 1, 'model: invalid utf-8')


FMT = {'b': (1, True), 'B': (1, False), 'h': (2, True), 'H': (2, False), 'i': (4, True), 'I': (4, False),
       'q': (8, True), 'Q': (8, False)}


class StructStub(object):
    """assumed contract of struct.pack/unpack"""
    error = _struct.error

    @staticmethod
    def _codes(fmt):
        f = fmt[1:] if fmt[0] in '<>!=@' else fmt
        if fmt[0] in '<=@' and any(FMT.get(c, (8,))[0] > 1 for c in f):
            raise EngineEscape('struct format %r is not big-endian' % fmt)
        return list(f)

    @classmethod
    def pack(cls, fmt, *vals):
        core.RUN.trust(T_STRUCT)
        codes = cls._codes(fmt)
        if len(codes) != len(vals):
            raise _struct.error('model: pack expected %d items' % len(codes))
        out = []
        for c, v in zip(codes, vals):
            if c == 'd':
                if not isinstance(v, SFloat):
                    raise EngineEscape('struct.pack d of %r' % (v,))
                assume(M.f64_of(M.f64_bits(v.t)) == v.t)
                out.append(M.f64_chunks(v.t))
                continue
            if c not in FMT:
                raise EngineEscape('struct code %r' % c)
            if isinstance(v, Proxy) and not isinstance(v, SInt):
                raise EngineEscape('struct.pack %s of %r' % (c, v))
            n, signed = FMT[c]
            lo, hi = (-(1 << (8 * n - 1)), (1 << (8 * n - 1)) - 1) if signed else (0, (1 << (8 * n)) - 1)
            t = lift(v)
            if not core.branch(z3.And(t >= lo, t <= hi)):
                raise _struct.error("model: '%s' format requires %d <= number <= %d" % (c, lo, hi))
            out.append(P.be(t, n))
        return mk_bytes(cat(*out))

    @classmethod
    def unpack(cls, fmt, data):
        core.RUN.trust(T_STRUCT)
        codes = cls._codes(fmt)
        size = sum(8 if c == 'd' else 4 if c == 'f' else FMT[c][0] for c in codes)
        if isinstance(data, bytes):
            if len(data) != size:
                raise _struct.error('model: unpack requires a buffer of %d bytes' % size)
            data = SBytes(chunks_of(data))
        if not core.branch(P.chunks_len(data.chunks) == size):
            raise _struct.error('model: unpack requires a buffer of %d bytes' % size)
        off = 0
        out = []
        for c in codes:
            if c in 'df':
                n = 8 if c == 'd' else 4
                bits = z3.Concat(*[data.byte_at(off + i) for i in range(n)])
                out.append(SFloat((M.f64_of if c == 'd' else M.f32_of)(bits)))
            else:
                n, signed = FMT[c]
                v = z3.simplify(P.be_val([data.byte_at(off + i) for i in range(n)], signed))
                out.append(v.as_long() if z3.is_int_value(v) else SInt(v))
            off += n
        return tuple(out)


class OutStream(Mutable):
    """file-like object, write side: sequential append (assumed contract of io.BytesIO.write)"""

    def __init__(self, chunks=()):
        self.chunks = tuple(chunks)

    def write(self, b):
        core.RUN.trust(T_IO)
        self.chunks = cat(self.chunks, b)
        self.touched()

    def havoc(self, L, chunks):
        self.chunks = tuple(chunks)
        self._hav = L


class InStream(Mutable):
    """file-like object, read side over the input M.Data"""

    def __init__(self, data, pos=0):
        self.data = data
        self.pos = z3.IntVal(pos) if isinstance(pos, int) else pos

    def read(self, n):
        core.RUN.trust(T_IO)
        nt = lift(n)
        if core.CUR.feasible(nt < 0):
            raise EngineEscape('read with a possibly negative count')
        rem = self.data.total - self.pos
        self.touched()
        if core.branch(rem >= nt):
            p = self.pos
            self.pos = z3.simplify(self.pos + nt)
            if isinstance(n, int) and n <= 16:
                return mk_bytes(tuple(lit(self.data.byte(z3.simplify(p + i))) for i in range(n)))
            return SBytes((self.data.slice(p, nt),))
        # short read: everything that is left (content irrelevant to the callers' contracts)
        p = self.pos
        self.pos = self.data.total
        return SBytes((self.data.slice(p, rem),))

    def havoc(self, L, pos):
        self.pos = pos
        self._hav = L


def um():
    import importlib
    return importlib.import_module(MOD)


BASE_STUBS = lambda: {'struct': StructStub, 'bytes': BytesModel}
PRE = (blob(z3.Const('pre', P.BlobSort), z3.Int('pre.len')),)


def prove_cases(label, actual, cases, clause, path, prefix=()):
    """actual bytes == the spec case whose condition holds (one obligation per feasible case)
    + the cases are exhaustive"""
    conds = []
    for i, (cond, want) in enumerate(cases):
        cond = z3.BoolVal(cond) if isinstance(cond, bool) else cond
        conds.append(cond)
        if not path.feasible(cond):
            continue
        eq = beq(actual, cat(prefix, want))
        claim = z3.Implies(cond, eq) if eq is not None else z3.Not(cond)
        prove('%s-case%d' % (label, i), claim, clause=clause + ('' if eq is not None else '  [shape mismatch]'), path=path)
    prove('%s-cases-exhaustive' % label, z3.Or(*conds), clause='the spec cases cover this path', path=path)


# ---------------------------------------------------------------------------
# pack side

def check_pack(fname, make_obj, enc_of, in_range, label, extra_stubs=None):
    m = um()
    f = loader.load(MOD, fname, stubs=dict(BASE_STUBS(), **(extra_stubs or {})))
    holder = {}

    def body():
        fp = OutStream(PRE)
        obj = make_obj()
        holder['obj'], holder['fp'] = obj, fp
        f(obj, fp)
        return fp

    def on_path(p, out):
        obj = holder['obj']
        rng = in_range(obj)
        if out[0] == 'ok':
            prove('%s-in-range' % label, rng, clause='returns normally only for values of the data model', path=p)
            p.assume(rng, check=False)
            prove_cases('%s-bytes' % label, holder['fp'].chunks, enc_of(obj),
                        'fp.data == old(fp.data) ++ enc(obj)   [enc: MessagePack spec, smallest format]', p, PRE)
        else:
            e = out[1]
            if isinstance(e, m.UnsupportedTypeException):
                prove('%s-refused-only-outside' % label, z3.Not(rng) if not isinstance(rng, bool) else (not rng),
                      clause='raises UnsupportedTypeException exactly outside the representable range', path=p)
            else:
                prove('%s-no-other-exception(%s)' % (label, type(e).__name__), False,
                      clause='raises nothing but UnsupportedTypeException', path=p)
    core.explore(body, on_path)


INT_REPLAY = '''import sys; sys.path.insert(0, %(repo)r)
from supp import umsgpack as u
import struct
x = %(x)s
def ref(x):   # MessagePack spec, integer family, smallest format
    if 0 <= x <= 127: return struct.pack('B', x)
    if -32 <= x < 0: return struct.pack('b', x)
    for code, f, lo, hi in ((0xcc,'B',0,2**8-1),(0xcd,'>H',0,2**16-1),(0xce,'>I',0,2**32-1),(0xcf,'>Q',0,2**64-1)):
        if lo <= x <= hi: return bytes([code]) + struct.pack(f, x)
    for code, f, lo in ((0xd0,'b',-2**7),(0xd1,'>h',-2**15),(0xd2,'>i',-2**31),(0xd3,'>q',-2**63)):
        if lo <= x < 0: return bytes([code]) + struct.pack(f, x)
    return None
want = ref(x)
try:
    got = u.packb(x)
except u.UnsupportedTypeException:
    got = None
except Exception as e:
    print('REPRODUCED: packb(%%d) raised %%r' %% (x, e)); sys.exit(1)
if got != want:
    print('REPRODUCED: packb(%%d) = %%r, the spec says %%r' %% (x, got, want)); sys.exit(1)
print('not reproduced')
'''


def _int_replay(model, ob):
    x = model.get('obj')
    if x is None:
        return None
    return {'input': {'obj': x}, 'script': INT_REPLAY % {'x': x, 'repo': core.REPO}}


@harness('C14', 'supp.umsgpack._pack_integer', twins=('spec-off-by-one',))
def pack_integer(run, twin=None):
    """all integers: fp gets enc_int(obj), or UnsupportedTypeException exactly outside [-2^63, 2^64)"""
    x = z3.Int('obj')
    run.concretise = _int_replay
    enc = M.enc_int
    if twin:
        enc = lambda t: M.enc_int(z3.If(t == 2 ** 16, t + 1, t))
    check_pack('_pack_integer', lambda: SInt(x), lambda o: enc(o.t), lambda o: M.int_in_range(o.t), 'int')


@harness('C14', 'supp.umsgpack._pack_nil')
def pack_nil(run):
    check_pack('_pack_nil', lambda: None, lambda o: M.enc_nil(), lambda o: True, 'nil')


@harness('C14', 'supp.umsgpack._pack_boolean', twins=('swapped',))
def pack_boolean(run, twin=None):
    for b in (True, False):
        check_pack('_pack_boolean', lambda: b, lambda o: M.enc_bool(o if not twin else not o), lambda o: True, 'bool-%s' % b)


@harness('C14', 'supp.umsgpack._pack_float')
def pack_float(run):
    """doubles are moved, not interpreted: 0xcb ++ the 8 bytes struct gives"""
    x = z3.Const('obj', M.D)
    if um()._float_size != 64:
        raise EngineEscape('_float_size != 64 on this interpreter')
    check_pack('_pack_float', lambda: SFloat(x), lambda o: M.enc_f64(o.t), lambda o: True, 'float')


@harness('C14', 'supp.umsgpack._pack_string', twins=('fixstr-limit-32',))
def pack_string(run, twin=None):
    s = z3.Const('obj', M.S)
    enc = M.enc_str
    if twin:
        enc = lambda st: M._with_payload(M.len_hdr(M.utf8_len(st), 0xa0, 32, 0xd9, 0xda, 0xdb),
                                         (blob(M.utf8(st), M.utf8_len(st)),))
    check_pack('_pack_string', lambda: SStr(s), lambda o: enc(o.t), lambda o: M.utf8_len(o.t) <= M.LEN_MAX, 'str')


def sym_bytes(name):
    b, n = z3.Const(name, P.BlobSort), z3.Int(name + '.len')
    return b, n


@harness('C14', 'supp.umsgpack._pack_binary', twins=('bin8-limit-256',))
def pack_binary(run, twin=None):
    b, n = sym_bytes('obj')
    enc = M.enc_bin
    if twin:
        def enc(bb, nn):
            cs = M.enc_bin(bb, nn)
            cs[0] = (z3.And(nn >= 0, nn <= 256), cs[0][1])
            return cs

    def mk():
        assume(n >= 0)
        return SBytes((blob(b, n),))
    check_pack('_pack_binary', mk, lambda o: enc(b, n), lambda o: n <= M.LEN_MAX, 'bin')


@harness('C14', 'supp.umsgpack._pack_ext', twins=('fixext-3',))
def pack_ext(run, twin=None):
    """Ext objects as Ext.__init__ admits them (0 <= type <= 127, data bytes)"""
    m = um()
    ty = z3.Int('ty')
    d, n = sym_bytes('extdata')

    def mk():
        assume(z3.And(ty >= 0, ty <= 127, n >= 0))
        o = m.Ext.__new__(m.Ext)
        o.type = SInt(ty)
        o.data = SBytes((blob(d, n),))
        return o
    enc = M.enc_ext
    if twin:
        def enc(t, dd, nn):
            return [(nn == 3, cat(M.bconst(b'\xd5'), P.be(t, 1), (blob(dd, nn),)))] + \
                   [(z3.And(c, nn != 3), b) for c, b in M.enc_ext(t, dd, nn)]
    check_pack('_pack_ext', mk, lambda o: enc(ty, d, n), lambda o: n <= M.LEN_MAX, 'ext')


# ---------------------------------------------------------------------------
# containers: loop cut + modular call of pack()

class SListP(Mutable):
    """a list/tuple of unknown length whose elements are opaque values"""

    def __init__(self, name, pyclass=list):
        self.n = z3.Int(name + '.len')
        self.name = name
        self._pyclass = pyclass

    def slen(self):
        return SInt(self.n)

    def elem_at(self, k):
        return Elem(self, k)


class Elem(Proxy):
    def __init__(self, owner, k, part=None):
        self.owner, self.k, self.part = owner, k, part


class SDictP(Mutable):
    _pyclass = dict

    def __init__(self, name):
        self.n = z3.Int(name + '.len')
        self.name = name

    def slen(self):
        return SInt(self.n)

    def items(self):
        return SItems(self)


class SItems(Proxy):
    def __init__(self, d):
        self.d = d

    def slen(self):
        return SInt(self.d.n)

    def elem_at(self, k):
        return (Elem(self.d, k, 'key'), Elem(self.d, k, 'value'))


# induction hypothesis on the elements: enc(e_k) is some byte string (opaque), defined when e_k is in the data model
_encf = {part: (z3.Function('enc_%s' % part, Int, P.BlobSort), z3.Function('enc_%s.len' % part, Int, Int),
                z3.Function('%s_ok' % part, Int, z3.BoolSort())) for part in ('elem', 'key', 'value')}


def enc_chunk(part, k):
    f, fl, ok = _encf[part]
    return blob(f(k), fl(k))


flat_len = z3.Function('flat.len', Int, Int)
P.REP['array-elems'] = (lambda k: (enc_chunk('elem', k),), lambda k: flat_len(k))
P.REP['map-items'] = (lambda k: (enc_chunk('key', k), enc_chunk('value', k)), lambda k: flat_len(k))
P.REP['map-items-swapped'] = (lambda k: (enc_chunk('value', k), enc_chunk('key', k)), lambda k: flat_len(k))


def pack_contract(e, fp):
    """modular call: the contract of pack() itself (induction hypothesis; decreases = nesting depth):
    appends enc(e) to fp, or raises UnsupportedTypeException when e is outside the data model"""
    if not isinstance(e, Elem):
        raise EngineEscape('pack() called on %r' % (e,))
    part = e.part or 'elem'
    if not core.branch(_encf[part][2](e.k)):
        raise um().UnsupportedTypeException('model: element outside the data model')
    fp.write(SBytes((enc_chunk(part, e.k),)))


def _container(fname, label, mk, hdr, repkey):
    m = um()

    def snapshot(L, st):
        L.snap = st['fp'].chunks

    def inv(L, st):
        r = beq(st['fp'].chunks, cat(L.snap, (P.rep(repkey, L.k),)))
        return z3.BoolVal(False) if r is None else r

    def hav(L, st):
        st['fp'].havoc(L, cat(L.snap, (P.rep(repkey, L.k),)))
        return {}
    spec = LoopSpec(inv, hav, temps=('e', 'k', 'v'))
    spec.snapshot = snapshot
    f = loader.load(MOD, fname, stubs=dict(BASE_STUBS(), pack=pack_contract), cuts={0: spec})
    holder = {}

    def body():
        obj = mk()
        fp = OutStream(PRE)
        holder['obj'], holder['fp'] = obj, fp
        assume(obj.n >= 0)
        f(obj, fp)
        return fp

    def on_path(p, out):
        n = holder['obj'].n
        if out[0] == 'ok':
            prove('%s-len-in-range' % label, n <= M.LEN_MAX, path=p)
            p.assume(n <= M.LEN_MAX, check=False)
            cases = [(c, cat(h, (P.rep(repkey, n),))) for c, h in hdr(n)]
            prove_cases('%s-bytes' % label, holder['fp'].chunks, cases,
                        'fp.data == old ++ header(len) ++ concat(enc(e_j), j < len)', p, PRE)
        elif isinstance(out[1], m.UnsupportedTypeException):
            j = z3.Int('j')
            oks = [_encf[part][2](j) for part in (('elem',) if 'array' in repkey else ('key', 'value'))]
            allok = z3.ForAll([j], z3.Implies(z3.And(j >= 0, j < n), z3.And(*oks)))
            prove('%s-refused-only-outside' % label, z3.Not(z3.And(n <= M.LEN_MAX, allok)),
                  clause='UnsupportedTypeException only for len > 2^32-1 or an element outside the data model', path=p)
        else:
            prove('%s-no-other-exception(%s)' % (label, type(out[1]).__name__), False, path=p)
    core.explore(body, on_path)


@harness('C14', 'supp.umsgpack._pack_array', twins=('header-len-minus-1',))
def pack_array(run, twin=None):
    """loop invariant: data == data-at-loop-entry ++ concat(enc(e_j), j<k); pack(e, fp) is a modular call"""
    hdr = M.hdr_array if not twin else (lambda n: [(z3.And(n >= 1, c), h) for c, h in M.hdr_array(n - 1)] +
                                        [(n == 0, M.bconst(b'\x90'))])
    _container('_pack_array', 'array', lambda: SListP('obj'), hdr, 'array-elems')


@harness('C14', 'supp.umsgpack._pack_map', twins=('value-before-key',))
def pack_map(run, twin=None):
    _container('_pack_map', 'map', lambda: SDictP('obj'), M.hdr_map, 'map-items' if not twin else 'map-items-swapped')
