"""Sidecar contracts for supp/umsgpack.py (property C14; reused by C15/C16).

Every harness executes the real function from /repo/supp/umsgpack.py (loader.load)
with proxy arguments; `struct`, `bytes`, the stream and recursive callees are
contract stubs.  Spec functions come from spec/msgpack.py (written from the
MessagePack specification).  Byte strings are chunk lists (pysym.proxies): one
BV8 term per literal byte, opaque blobs for payloads, `rep` chunks for the
concatenation of the first k element encodings.
"""
import struct as _struct

import z3

from pysym import core, loader
from pysym import proxies as P
from pysym.core import prove, assume, EngineEscape
from pysym.harness import harness
from pysym.loader import LoopSpec, Mutable
from pysym.proxies import SInt, SBool, SBytes, Proxy, lift, chunks_of, cat, lit, blob, mk_bytes, beq
from spec import msgpack as M

MOD = 'supp.umsgpack'
import os as _os
VERIF = _os.path.dirname(_os.path.dirname(_os.path.abspath(__file__)))
Int = z3.IntSort()
T_UTF8 = ("str.encode('utf-8') / bytes.decode('utf-8'): mutually inverse on valid data, UnicodeDecodeError exactly "
          "on invalid UTF-8 (uninterpreted utf8/unutf8/valid_utf8)")
T_STRUCT = ("struct.pack/unpack (b B >h >H >i >I >q >Q >d >f): big-endian two's complement of exactly n bytes, "
            "struct.error outside the range or on a wrong buffer size; >d round-trips bit-for-bit")
T_IO = 'io.BytesIO.read/write: sequential stream; read(n) returns min(n, remaining) bytes and advances'


# ---------------------------------------------------------------------------
# proxies specific to this module

class SFloat(Proxy):
    _pyclass = float

    def __init__(self, t):
        self.t = t


class SStr(Proxy):
    """an arbitrary Python str, known only through its UTF-8 image"""
    _pyclass = str

    def __init__(self, t):
        self.t = t

    def encode(self, enc='utf-8'):
        if enc != 'utf-8':
            raise EngineEscape('encode(%r)' % enc)
        core.RUN.trust(T_UTF8)
        u, n = M.utf8(self.t), M.utf8_len(self.t)
        assume(z3.And(n >= 0, M.valid_utf8(u, n), M.unutf8(u, n) == self.t))
        return SBytes((blob(u, n),))


class _BytesMeta(type):
    def __instancecheck__(cls, x):
        return isinstance(x, bytes)

    def __subclasscheck__(cls, c):
        return issubclass(c, bytes)


class BytesModel(metaclass=_BytesMeta):
    """stands for the builtin `bytes` in the namespace copy: bytes.decode(b, 'utf-8')"""
    @staticmethod
    def decode(b, enc='utf-8'):
        if enc != 'utf-8':
            raise EngineEscape('decode(%r)' % enc)
        core.RUN.trust(T_UTF8)
        if type(b) is bytes:
            return b.decode('utf-8')
        ch = P.norm_chunks(b.chunks)
        if len(ch) == 0:
            return ''
        if len(ch) != 1 or ch[0][0] != 'blob':
            raise EngineEscape('decode of a composite byte string')
        u, n = ch[0][1], ch[0][2]
        if core.branch(M.valid_utf8(u, n)):
            return SStr(M.unutf8(u, n))
        raise UnicodeDecodeError('utf-8', b'', 0, 1, 'model: invalid utf-8')


FMT = {'b': (1, True), 'B': (1, False), 'h': (2, True), 'H': (2, False), 'i': (4, True), 'I': (4, False),
       'q': (8, True), 'Q': (8, False)}


class StructStub(object):
    """assumed contract of struct.pack/unpack"""
    error = _struct.error

    @staticmethod
    def _codes(fmt):
        f = fmt[1:] if fmt[0] in '<>!=@' else fmt
        if fmt[0] in '<=@' and any(FMT.get(c, (8,))[0] > 1 for c in f):
            raise EngineEscape('struct format %r is not big-endian' % fmt)
        return list(f)

    @classmethod
    def pack(cls, fmt, *vals):
        core.RUN.trust(T_STRUCT)
        codes = cls._codes(fmt)
        if len(codes) != len(vals):
            raise _struct.error('model: pack expected %d items' % len(codes))
        out = []
        for c, v in zip(codes, vals):
            if c == 'd':
                if not isinstance(v, SFloat):
                    raise EngineEscape('struct.pack d of %r' % (v,))
                assume(M.f64_of(M.f64_bits(v.t)) == v.t)
                out.append(M.f64_chunks(v.t))
                continue
            if c not in FMT:
                raise EngineEscape('struct code %r' % c)
            if isinstance(v, Proxy) and not isinstance(v, SInt):
                raise EngineEscape('struct.pack %s of %r' % (c, v))
            n, signed = FMT[c]
            lo, hi = (-(1 << (8 * n - 1)), (1 << (8 * n - 1)) - 1) if signed else (0, (1 << (8 * n)) - 1)
            t = lift(v)
            if not core.branch(z3.And(t >= lo, t <= hi)):
                raise _struct.error("model: '%s' format requires %d <= number <= %d" % (c, lo, hi))
            out.append(P.be(t, n))
        return mk_bytes(cat(*out))

    @classmethod
    def unpack(cls, fmt, data):
        core.RUN.trust(T_STRUCT)
        codes = cls._codes(fmt)
        size = sum(8 if c == 'd' else 4 if c == 'f' else FMT[c][0] for c in codes)
        if type(data) is bytes:
            if len(data) != size:
                raise _struct.error('model: unpack requires a buffer of %d bytes' % size)
            data = SBytes(chunks_of(data))
        if not core.branch(P.chunks_len(data.chunks) == size):
            raise _struct.error('model: unpack requires a buffer of %d bytes' % size)
        off = 0
        out = []
        for c in codes:
            if c in 'df':
                n = 8 if c == 'd' else 4
                bits = z3.Concat(*[data.byte_at(off + i) for i in range(n)])
                out.append(SFloat((M.f64_of if c == 'd' else M.f32_of)(bits)))
            else:
                n, signed = FMT[c]
                v = z3.simplify(P.be_val([data.byte_at(off + i) for i in range(n)], signed))
                out.append(v.as_long() if z3.is_int_value(v) else SInt(v))
            off += n
        return tuple(out)


class OutStream(Mutable):
    """file-like object, write side: sequential append (assumed contract of io.BytesIO.write)"""

    def __init__(self, chunks=()):
        self.chunks = tuple(chunks)

    def write(self, b):
        core.RUN.trust(T_IO)
        self.chunks = cat(self.chunks, b)
        self.touched()

    def havoc(self, L, chunks):
        self.chunks = tuple(chunks)
        self._hav = L


class InStream(Mutable):
    """file-like object, read side over the input M.Data"""

    def __init__(self, data, pos=0):
        self.data = data
        self.pos = z3.IntVal(pos) if type(pos) is int else pos

    def read(self, n):
        core.RUN.trust(T_IO)
        nt = lift(n)
        if core.CUR.feasible(nt < 0):
            raise EngineEscape('read with a possibly negative count')
        rem = self.data.total - self.pos
        self.touched()
        if core.branch(rem >= nt):
            p = self.pos
            self.pos = z3.simplify(self.pos + nt)
            if type(n) is int and n <= 16:
                return mk_bytes(tuple(lit(self.data.byte(z3.simplify(p + i))) for i in range(n)))
            return SBytes((self.data.slice(p, nt),))
        # short read: everything that is left (content irrelevant to the callers' contracts)
        p = self.pos
        self.pos = self.data.total
        return SBytes((self.data.slice(p, rem),))

    def havoc(self, L, pos):
        self.pos = pos
        self._hav = L


def um():
    import importlib
    return importlib.import_module(MOD)


BASE_STUBS = lambda: {'struct': StructStub, 'bytes': BytesModel}
PRE = (blob(z3.Const('pre', P.BlobSort), z3.Int('pre.len')),)


def prove_cases(label, actual, cases, clause, path, prefix=()):
    """actual bytes == the spec case whose condition holds (one obligation per feasible case)
    + the cases are exhaustive"""
    conds = []
    for i, (cond, want) in enumerate(cases):
        cond = z3.BoolVal(cond) if isinstance(cond, bool) else cond
        conds.append(cond)
        if not path.feasible(cond):
            continue
        eq = beq(actual, cat(prefix, want))
        claim = z3.Implies(cond, eq) if eq is not None else z3.Not(cond)
        prove('%s-case%d' % (label, i), claim, clause=clause + ('' if eq is not None else '  [shape mismatch]'), path=path)
    prove('%s-cases-exhaustive' % label, z3.Or(*conds), clause='the spec cases cover this path', path=path)


# ---------------------------------------------------------------------------
# pack side

def check_pack(fname, make_obj, enc_of, in_range, label, extra_stubs=None):
    m = um()
    f = loader.load(MOD, fname, stubs=dict(BASE_STUBS(), **(extra_stubs or {})))
    holder = {}

    def body():
        fp = OutStream(PRE)
        obj = make_obj()
        holder['obj'], holder['fp'] = obj, fp
        f(obj, fp)
        return fp

    def on_path(p, out):
        obj = holder['obj']
        rng = in_range(obj)
        if out[0] == 'ok':
            prove('%s-in-range' % label, rng, clause='returns normally only for values of the data model', path=p)
            p.assume(rng, check=False)
            prove_cases('%s-bytes' % label, holder['fp'].chunks, enc_of(obj),
                        'fp.data == old(fp.data) ++ enc(obj)   [enc: MessagePack spec, smallest format]', p, PRE)
        else:
            e = out[1]
            if isinstance(e, m.UnsupportedTypeException):
                prove('%s-refused-only-outside' % label, z3.Not(rng) if not isinstance(rng, bool) else (not rng),
                      clause='raises UnsupportedTypeException exactly outside the representable range', path=p)
            else:
                prove('%s-no-other-exception(%s)' % (label, type(e).__name__), False,
                      clause='raises nothing but UnsupportedTypeException', path=p)
    core.explore(body, on_path)


INT_REPLAY = '''import sys; sys.path.insert(0, %(repo)r)
from supp import umsgpack as u
import struct
x = %(x)s
def ref(x):   # MessagePack spec, integer family, smallest format
    if 0 <= x <= 127: return struct.pack('B', x)
    if -32 <= x < 0: return struct.pack('b', x)
    for code, f, lo, hi in ((0xcc,'B',0,2**8-1),(0xcd,'>H',0,2**16-1),(0xce,'>I',0,2**32-1),(0xcf,'>Q',0,2**64-1)):
        if lo <= x <= hi: return bytes([code]) + struct.pack(f, x)
    for code, f, lo in ((0xd0,'b',-2**7),(0xd1,'>h',-2**15),(0xd2,'>i',-2**31),(0xd3,'>q',-2**63)):
        if lo <= x < 0: return bytes([code]) + struct.pack(f, x)
    return None
want = ref(x)
try:
    got = u.packb(x)
except u.UnsupportedTypeException:
    got = None
except Exception as e:
    print('REPRODUCED: packb(%%d) raised %%r' %% (x, e)); sys.exit(1)
if got != want:
    # another format than the smallest one?  valid MessagePack that an independent decoder reads back to the same value is what C14 asks for
    sys.path.insert(0, %(verif)r)
    from spec.msgpack_ref import ref_unpack
    try:
        back, end = ref_unpack(got) if got is not None else (None, -1)
    except Exception:
        back, end = None, -1
    if got is not None and want is not None and end == len(got) and type(back) is int and back == x:
        print('PROPERTY-HOLDS-ON-THE-COUNTEREXAMPLE: packb(%%d) = %%r is not the smallest format (%%r) but is valid and reads back to the same value' %% (x, got, want)); sys.exit(0)
    print('REPRODUCED: packb(%%d) = %%r, the spec says %%r' %% (x, got, want)); sys.exit(1)
print('not reproduced')
'''


def _int_replay(model, ob):
    x = model.eval(z3.Int('obj'), model_completion=True).as_long()
    return {'input': {'obj': x}, 'script': INT_REPLAY % {'x': x, 'repo': core.REPO, 'verif': VERIF}}


DEC_REPLAY = '''import sys, io, os
sys.path.insert(0, %(repo)r); sys.path.insert(0, %(verif)r)
from supp import umsgpack as u
from spec.msgpack_ref import *
inp = bytes.fromhex(%(hex)r)
def run_ref():
    try:
        v, end = ref_unpack(inp); return ('ok', v, end)
    except RefInsufficient: return ('insufficient',)
    except RefReserved: return ('reserved',)
    except RefInvalidUtf8: return ('invalid-utf8',)
def run_real():
    fp = io.BytesIO(inp)
    try:
        v = u.unpack(fp); return ('ok', v, fp.tell())
    except u.InsufficientDataException: return ('insufficient',)
    except u.ReservedCodeException: return ('reserved',)
    except u.InvalidStringException: return ('invalid-utf8',)
    except Exception as e: return ('other', type(e).__name__, str(e))
a, b = run_ref(), run_real()
agree = a[0] == b[0] and (a[0] != 'ok' or (same(b[1], a[1]) and a[2] == b[2]))
if not agree:
    print('REPRODUCED: unpack(%%r): the spec reference gives %%r, supp.umsgpack gives %%r' %% (inp[:64], a, b)); sys.exit(1)
print('not reproduced: both give %%r' %% (a,))
'''


def dec_replay(inp):
    return {'input': {'bytes_hex': inp.hex()},
            'script': DEC_REPLAY % {'hex': inp.hex(), 'repo': core.REPO, 'verif': VERIF}}


@harness('C14', 'supp.umsgpack._pack_integer', twins=('spec-off-by-one',))
def pack_integer(run, twin=None):
    """all integers: fp gets enc_int(obj), or UnsupportedTypeException exactly outside [-2^63, 2^64)"""
    x = z3.Int('obj')
    run.concretise = _int_replay
    enc = M.enc_int
    if twin:
        enc = lambda t: M.enc_int(z3.If(t == 2 ** 16, t + 1, t))
    check_pack('_pack_integer', lambda: SInt(x), lambda o: enc(o.t), lambda o: M.int_in_range(o.t), 'int')


@harness('C14', 'supp.umsgpack._pack_nil')
def pack_nil(run):
    check_pack('_pack_nil', lambda: None, lambda o: M.enc_nil(), lambda o: True, 'nil')


@harness('C14', 'supp.umsgpack._pack_boolean', twins=('swapped',))
def pack_boolean(run, twin=None):
    for b in (True, False):
        check_pack('_pack_boolean', lambda: b, lambda o: M.enc_bool(o if not twin else not o), lambda o: True, 'bool-%s' % b)


@harness('C14', 'supp.umsgpack._pack_float')
def pack_float(run):
    """doubles are moved, not interpreted: 0xcb ++ the 8 bytes struct gives"""
    x = z3.Const('obj', M.D)
    if um()._float_size != 64:
        raise EngineEscape('_float_size != 64 on this interpreter')
    check_pack('_pack_float', lambda: SFloat(x), lambda o: M.enc_f64(o.t), lambda o: True, 'float')


@harness('C14', 'supp.umsgpack._pack_string', twins=('fixstr-limit-32',))
def pack_string(run, twin=None):
    s = z3.Const('obj', M.S)
    enc = M.enc_str
    if twin:
        enc = lambda st: M._with_payload(M.len_hdr(M.utf8_len(st), 0xa0, 32, 0xd9, 0xda, 0xdb),
                                         (blob(M.utf8(st), M.utf8_len(st)),))
    check_pack('_pack_string', lambda: SStr(s), lambda o: enc(o.t), lambda o: M.utf8_len(o.t) <= M.LEN_MAX, 'str')


def sym_bytes(name):
    b, n = z3.Const(name, P.BlobSort), z3.Int(name + '.len')
    return b, n


@harness('C14', 'supp.umsgpack._pack_binary', twins=('bin8-limit-256',))
def pack_binary(run, twin=None):
    b, n = sym_bytes('obj')
    enc = M.enc_bin
    if twin:
        def enc(bb, nn):
            cs = M.enc_bin(bb, nn)
            cs[0] = (z3.And(nn >= 0, nn <= 256), cs[0][1])
            return cs

    def mk():
        assume(n >= 0)
        return SBytes((blob(b, n),))
    check_pack('_pack_binary', mk, lambda o: enc(b, n), lambda o: n <= M.LEN_MAX, 'bin')


@harness('C14', 'supp.umsgpack._pack_ext', twins=('fixext-3',))
def pack_ext(run, twin=None):
    """Ext objects as Ext.__init__ admits them (-128 <= type <= 127, data bytes; see harness ext_init)"""
    m = um()
    ty = z3.Int('ty')
    d, n = sym_bytes('extdata')

    def mk():
        assume(z3.And(ty >= -128, ty <= 127, n >= 0))
        o = loader.bare_instance(m.Ext)
        o.type = SInt(ty)
        o.data = SBytes((blob(d, n),))
        return o
    enc = M.enc_ext
    if twin:
        def enc(t, dd, nn):
            return [(nn == 3, cat(M.bconst(b'\xd5'), P.be(t, 1), (blob(dd, nn),)))] + \
                   [(z3.And(c, nn != 3), b) for c, b in M.enc_ext(t, dd, nn)]
    check_pack('_pack_ext', mk, lambda o: enc(ty, d, n), lambda o: n <= M.LEN_MAX, 'ext')


# ---------------------------------------------------------------------------
# containers: loop cut + modular call of pack()

class SListP(Mutable):
    """a list/tuple of unknown length whose elements are opaque values"""

    def __init__(self, name, pyclass=list):
        self.n = z3.Int(name + '.len')
        self.name = name
        self._pyclass = pyclass

    def slen(self):
        return SInt(self.n)

    def elem_at(self, k):
        return Elem(self, k)


class Elem(Proxy):
    def __init__(self, owner, k, part=None):
        self.owner, self.k, self.part = owner, k, part


class SDictP(Mutable):
    _pyclass = dict

    def __init__(self, name):
        self.n = z3.Int(name + '.len')
        self.name = name

    def slen(self):
        return SInt(self.n)

    def items(self):
        return SItems(self)


class SItems(Proxy):
    def __init__(self, d):
        self.d = d

    def slen(self):
        return SInt(self.d.n)

    def elem_at(self, k):
        return (Elem(self.d, k, 'key'), Elem(self.d, k, 'value'))


# induction hypothesis on the elements: enc(e_k) is some byte string (opaque), defined when e_k is in the data model
_encf = {part: (z3.Function('enc_%s' % part, Int, P.BlobSort), z3.Function('enc_%s.len' % part, Int, Int),
                z3.Function('%s_ok' % part, Int, z3.BoolSort())) for part in ('elem', 'key', 'value')}


def enc_chunk(part, k):
    f, fl, ok = _encf[part]
    return blob(f(k), fl(k))


flat_len = z3.Function('flat.len', Int, Int)
P.REP['array-elems'] = (lambda k: (enc_chunk('elem', k),), lambda k: flat_len(k))
P.REP['map-items'] = (lambda k: (enc_chunk('key', k), enc_chunk('value', k)), lambda k: flat_len(k))
P.REP['map-items-swapped'] = (lambda k: (enc_chunk('value', k), enc_chunk('key', k)), lambda k: flat_len(k))


def pack_contract(e, fp):
    """modular call: the contract of pack() itself (induction hypothesis; decreases = nesting depth):
    appends enc(e) to fp, or raises UnsupportedTypeException when e is outside the data model"""
    if not isinstance(e, Elem):
        raise EngineEscape('pack() called on %r' % (e,))
    part = e.part or 'elem'
    if not core.branch(_encf[part][2](e.k)):
        raise um().UnsupportedTypeException('model: element outside the data model')
    fp.write(SBytes((enc_chunk(part, e.k),)))


def _container(fname, label, mk, hdr, repkey):
    m = um()

    def snapshot(L, st):
        L.snap = st['fp'].chunks

    def inv(L, st):
        r = beq(st['fp'].chunks, cat(L.snap, (P.rep(repkey, L.k),)))
        return z3.BoolVal(False) if r is None else r

    def hav(L, st):
        st['fp'].havoc(L, cat(L.snap, (P.rep(repkey, L.k),)))
        return {}
    spec = LoopSpec(inv, hav, temps=('e', 'k', 'v'))
    spec.snapshot = snapshot
    f = loader.load(MOD, fname, stubs=dict(BASE_STUBS(), pack=pack_contract), cuts={0: spec})
    holder = {}

    def body():
        obj = mk()
        fp = OutStream(PRE)
        holder['obj'], holder['fp'] = obj, fp
        assume(obj.n >= 0)
        f(obj, fp)
        return fp

    def on_path(p, out):
        n = holder['obj'].n
        if out[0] == 'ok':
            prove('%s-len-in-range' % label, n <= M.LEN_MAX, path=p)
            p.assume(n <= M.LEN_MAX, check=False)
            cases = [(c, cat(h, (P.rep(repkey, n),))) for c, h in hdr(n)]
            prove_cases('%s-bytes' % label, holder['fp'].chunks, cases,
                        'fp.data == old ++ header(len) ++ concat(enc(e_j), j < len)', p, PRE)
        elif isinstance(out[1], m.UnsupportedTypeException):
            j = z3.Int('j')
            oks = [_encf[part][2](j) for part in (('elem',) if 'array' in repkey else ('key', 'value'))]
            allok = z3.ForAll([j], z3.Implies(z3.And(j >= 0, j < n), z3.And(*oks)))
            prove('%s-refused-only-outside' % label, z3.Not(z3.And(n <= M.LEN_MAX, allok)),
                  clause='UnsupportedTypeException only for len > 2^32-1 or an element outside the data model', path=p)
        else:
            prove('%s-no-other-exception(%s)' % (label, type(out[1]).__name__), False, path=p)
    core.explore(body, on_path)


@harness('C14', 'supp.umsgpack._pack_array', twins=('header-len-minus-1',))
def pack_array(run, twin=None):
    """loop invariant: data == data-at-loop-entry ++ concat(enc(e_j), j<k); pack(e, fp) is a modular call"""
    hdr = M.hdr_array if not twin else (lambda n: [(z3.And(n >= 1, c), h) for c, h in M.hdr_array(n - 1)] +
                                        [(n == 0, M.bconst(b'\x90'))])
    _container('_pack_array', 'array', lambda: SListP('obj'), hdr, 'array-elems')


@harness('C14', 'supp.umsgpack._pack_map', twins=('value-before-key',))
def pack_map(run, twin=None):
    _container('_pack_map', 'map', lambda: SDictP('obj'), M.hdr_map, 'map-items' if not twin else 'map-items-swapped')


# ---------------------------------------------------------------------------
# unpack side

def exc_kind(m, e):
    if isinstance(e, m.InsufficientDataException):
        return M.INSUFFICIENT
    if isinstance(e, m.ReservedCodeException):
        return M.RESERVED
    if isinstance(e, m.InvalidStringException):
        return M.INVALID_UTF8
    return 'other:' + type(e).__name__


def read_except_contract(fp, n):
    """contract of _read_except (verified by harness read_except): the next n bytes and
    advance, or InsufficientDataException when fewer remain"""
    nt = lift(n)
    rem = fp.data.total - fp.pos
    if core.branch(rem >= nt):
        return fp.read(n)
    raise um().InsufficientDataException()


@harness('C14', 'supp.umsgpack._read_except', twins=('accepts-one-byte-short',))
def read_except(run, twin=None):
    """returns exactly the next n bytes and advances by n; raises InsufficientDataException iff fewer remain"""
    m = um()
    f = loader.load(MOD, '_read_except', stubs=BASE_STUBS())
    data = M.Data()
    p0, n = z3.Int('pos'), z3.Int('n')
    holder = {}

    def body():
        assume(z3.And(p0 >= 0, p0 <= data.total, n >= 0))
        fp = InStream(data, p0)
        holder['fp'] = fp
        return f(fp, SInt(n))

    def on_path(p, out):
        rem = data.total - p0
        need = n if not twin else n - 1
        if out[0] == 'ok':
            prove('enough', rem >= need, clause='returns only when n bytes remain', path=p)
            eq = beq(out[1], (data.slice(p0, n),))
            prove('bytes', eq if eq is not None else False, clause='result == data[pos:pos+n]', path=p)
            prove('advance', holder['fp'].pos == p0 + n, clause='stream position advanced by n', path=p)
        elif isinstance(out[1], m.InsufficientDataException):
            prove('short', rem < need, clause='InsufficientDataException iff fewer than n bytes remain', path=p)
        else:
            prove('no-other-exception(%s)' % type(out[1]).__name__, False, path=p)
    core.explore(body, on_path)


def match_value(m, res, v, data):
    """z3 Bool: the Python value `res` is the spec value v"""
    k = v.kind
    if k == 'nil':
        return res is None
    if k == 'bool':
        return res is v.b
    if k == 'int':
        if type(res) is bool or not (isinstance(res, SInt) or type(res) is int):
            return False
        return lift(res) == v.t
    if k == 'float':
        if not isinstance(res, SFloat):
            return False
        return res.t == (M.f64_of if v.n == 8 else M.f32_of)(v.bits)
    if k == 'str':
        pay = P.slice_of(data.id, v.start, v.n)
        if type(res) is str:
            return z3.And(v.n == 0) if res == '' else False
        if not isinstance(res, SStr):
            return False
        return res.t == M.unutf8(pay, v.n)
    if k == 'bin':
        if not (isinstance(res, SBytes) or type(res) is bytes):
            return False
        eq = beq(res, (data.slice(v.start, v.n),))
        return eq if eq is not None else False
    if k == 'ext':
        if not isinstance(res, m.Ext):
            return False
        eq = beq(res.data, (data.slice(v.start, v.n),))
        return z3.And(lift(res.type) == v.ty, eq if eq is not None else False)
    raise AssertionError(k)


def sym_code(fmt):
    """the first byte: concrete for single-code formats, a constrained BV8 for the fix ranges"""
    name, lo, hi, fam = fmt
    if lo == hi:
        return bytes([lo]), z3.IntVal(lo)
    c = z3.BitVec('code', 8)
    assume(z3.And(z3.UGE(c, lo), z3.ULE(c, hi)))
    return SBytes((lit(c),)), z3.BV2Int(c)


def check_decoder(fname, fmts, twin=None, expect_table=True):
    m = um()
    f = loader.load(MOD, fname, stubs=dict(BASE_STUBS(), _read_except=read_except_contract))
    data = M.Data()
    p0 = z3.Int('pos')
    for fmt in fmts:
        holder = {}

        def conc(model, ob):
            ev = lambda t: model.eval(t, model_completion=True).as_long()
            c, p, tot = ev(holder['c']), ev(p0), ev(data.total)
            if tot - p > 1 << 16:
                return None
            return dec_replay(bytes([c]) + bytes(ev(z3.BV2Int(data.byte(i))) for i in range(p, tot)))
        core.RUN.concretise = conc

        def body(fmt=fmt):
            assume(z3.And(p0 >= 1, p0 <= data.total))
            code, cint = sym_code(fmt)
            fp = InStream(data, p0)
            holder['fp'], holder['c'] = fp, cint
            return f(code, fp)

        def on_path(p, out, fmt=fmt):
            lab = fmt[0].replace(' ', '')
            cases = M.parse_scalar(fmt, holder['c'], data, p0)
            if twin == 'spec-unsigned-int16' and fmt[0] == 'int 16':
                cases = M.parse_scalar(('uint 16', 0xd1, 0xd1, 'int'), holder['c'], data, p0)
            conds = []
            for i, (cond, outcome) in enumerate(cases):
                conds.append(cond)
                if not p.feasible(cond):
                    continue
                if outcome[0] == M.OK:
                    if out[0] == 'ok':
                        mv = match_value(m, out[1], outcome[1], data)
                        claim = z3.And(mv, holder['fp'].pos == outcome[2]) if not isinstance(mv, bool) else \
                            (holder['fp'].pos == outcome[2] if mv else False)
                    else:
                        claim = False
                    cl = 'decodes to the value the spec assigns (%s) and consumes exactly its bytes' % fmt[0]
                else:
                    claim = out[0] == 'exc' and exc_kind(m, out[1]) == outcome[0]
                    cl = 'raises the exception for `%s` exactly when the spec says so' % outcome[0]
                if isinstance(claim, bool):
                    claim = z3.BoolVal(claim)
                prove('%s-case%d%s' % (lab, i, '' if out[0] == 'ok' else '-raises-' + type(out[1]).__name__),
                      z3.Implies(cond, claim), clause=cl, path=p)
            prove('%s-cases-exhaustive' % lab, z3.Or(*conds), path=p)
        core.explore(body, on_path)


def fam_formats(fam):
    return [f for f in M.FORMATS if f[3] == fam]


@harness('C14', 'supp.umsgpack._unpack_integer', twins=('spec-unsigned-int16',))
def unpack_integer(run, twin=None):
    """all 10 integer formats (non-minimal forms included), every payload, every truncation"""
    check_decoder('_unpack_integer', fam_formats('int'), twin)


@harness('C14', 'supp.umsgpack._unpack_nil')
def unpack_nil(run):
    check_decoder('_unpack_nil', fam_formats('nil'))


@harness('C14', 'supp.umsgpack._unpack_boolean')
def unpack_boolean(run):
    check_decoder('_unpack_boolean', fam_formats('bool'))


@harness('C14', 'supp.umsgpack._unpack_reserved')
def unpack_reserved(run):
    check_decoder('_unpack_reserved', fam_formats('reserved'))


@harness('C14', 'supp.umsgpack._unpack_float')
def unpack_float(run):
    check_decoder('_unpack_float', fam_formats('float'))


@harness('C14', 'supp.umsgpack._unpack_string')
def unpack_string(run):
    if um().compatibility:
        raise EngineEscape('compatibility mode is on')
    check_decoder('_unpack_string', fam_formats('str'))


@harness('C14', 'supp.umsgpack._unpack_binary')
def unpack_binary(run):
    check_decoder('_unpack_binary', fam_formats('bin'))


@harness('C14', 'supp.umsgpack._unpack_ext')
def unpack_ext(run):
    """ext 8/16/32 and fixext 1..16: signed 8-bit type (negative = predefined types), data bytes"""
    check_decoder('_unpack_ext', fam_formats('ext'))


# ---------------------------------------------------------------------------
# Ext.__init__ (the data-model side of ext: which (type, data) pairs exist)

@harness('C14', 'supp.umsgpack.Ext.__init__', twins=('type-range-0-127',))
def ext_init(run, twin=None):
    """an Ext exists exactly for -128 <= type <= 127 (the spec's signed 8-bit type) and bytes data"""
    m = um()
    f = loader.load(MOD, 'Ext.__init__', stubs=BASE_STUBS())
    ty = z3.Int('ty')
    d, n = sym_bytes('extdata')
    holder = {}
    run.concretise = lambda model, ob: {'input': {'type': model.eval(ty, model_completion=True).as_long()}, 'script': (
        'import sys; sys.path.insert(0, %r)\nfrom supp import umsgpack as u\nt = %d\n'
        'try:\n    u.Ext(t, b"x"); ok = True\nexcept TypeError:\n    ok = False\n'
        'if ok != (-128 <= t <= 127):\n    print("REPRODUCED: Ext(%%d, b\'x\') accepted=%%s; the spec\'s ext type is a signed 8-bit integer" %% (t, ok)); sys.exit(1)\n'
        'print("not reproduced")\n') % (core.REPO, model.eval(ty, model_completion=True).as_long())}

    def body():
        assume(n >= 0)
        o = loader.bare_instance(m.Ext)
        holder['o'] = o
        f(o, SInt(ty), SBytes((blob(d, n),)))
        return o
    lo, hi = (-128, 127) if not twin else (0, 127)

    def on_path(p, out):
        rng = z3.And(ty >= lo, ty <= hi)
        if out[0] == 'ok':
            prove('accepted-only-in-range', rng, clause='constructs only for -128 <= type <= 127', path=p)
            o = holder['o']
            prove('fields', z3.And(lift(o.type) == ty, beq(o.data, (blob(d, n),))), clause='stores type and data unchanged', path=p)
        elif isinstance(out[1], TypeError):
            prove('refused-only-outside', z3.Not(rng), clause='TypeError exactly outside the signed 8-bit range', path=p)
        else:
            prove('no-other-exception(%s)' % type(out[1]).__name__, False, path=p)
    core.explore(body, on_path)
    for bad in ('x', 1.5, None):
        def body2(bad=bad):
            return f(loader.bare_instance(m.Ext), bad, b'')

        def on2(p, out, bad=bad):
            prove('non-int-type-%s-refused' % type(bad).__name__, out[0] == 'exc' and isinstance(out[1], TypeError), path=p)
        core.explore(body2, on2)


# ---------------------------------------------------------------------------
# nested values: the contract of _unpack itself (induction hypothesis) over uninterpreted
# parse functions of the position:  P_err(p) (0 = ok), P_end(p), the value PVal(p)

P_err = z3.Function('parse_err', Int, Int)     # 0 ok, 1 insufficient, 2 reserved, 3 invalid utf-8, 4 unhashable key, 5 duplicate key
P_end = z3.Function('parse_end', Int, Int)
S_end = z3.Function('seq_end', Int, Int, Int)  # S_end(q, j): position after j consecutive values starting at q
ERRS = {1: 'InsufficientDataException', 2: 'ReservedCodeException', 3: 'InvalidStringException',
        4: 'UnhashableKeyException', 5: 'DuplicateKeyException'}


class PVal(Proxy):
    """the value a conforming decoder reads at position p (opaque)"""

    def __init__(self, p):
        self.p = p

    def __str__(self):
        return '<value parsed at %s>' % (self.p,)


def err_code(m, e):
    for c, nm in ERRS.items():
        if type(e) is getattr(m, nm):
            return c
    return None


def unpack_hypothesis(fp):
    """modular call of _unpack(fp): induction hypothesis (decreases: remaining bytes)"""
    m = um()
    p = fp.pos
    for c, nm in ERRS.items():
        if core.branch(P_err(p) == c):
            raise getattr(m, nm)('model')
    assume(P_err(p) == 0)
    fp.pos = P_end(p)
    fp.touched()
    return PVal(p)


def seq_axioms(q):
    j = z3.Int('j')
    assume(S_end(q, 0) == q)
    core.axiom(z3.ForAll([j], z3.Implies(j >= 0, S_end(q, j + 1) == P_end(S_end(q, j))), patterns=[S_end(q, j + 1)]))


class SRange(Proxy):
    def __init__(self, n):
        self.n = n


def m_range(*a):
    if len(a) == 1 and isinstance(a[0], SInt):
        return SRange(a[0].t)
    return P.m_range(*a)


class ParsedList(Proxy):
    """[PVal(S_end(q, j)) for j < n]"""
    _pyclass = list

    def __init__(self, q, n):
        self.q, self.n = q, n


@harness('C14', 'supp.umsgpack._unpack_array', twins=('spec-skips-first-element',))
def unpack_array(run, twin=None):
    """header per spec, then n consecutive values read by _unpack (modular); the comprehension is cut
    with the invariant  pos == S_end(q, k) and no element before k failed"""
    m = um()
    data = M.Data()
    p0 = z3.Int('pos')
    j = z3.Int('j')
    holder = {}

    def schema(kind, iterable, elt, conds):
        if kind != 'list' or conds or not isinstance(iterable, SRange):
            raise EngineEscape('comprehension changed shape')
        fp, n = holder['fp'], iterable.n
        q = fp.pos
        holder['q'], holder['n'] = q, n
        seq_axioms(q)
        noerr = lambda k: z3.ForAll([j], z3.Implies(z3.And(j >= 0, j < k), P_err(S_end(q, j)) == 0))
        if core.choice(2) == 0:
            k = core.fresh('k', Int)
            assume(z3.And(k >= 0, k < n))
            core.axiom(noerr(k))
            fp.havoc(None, S_end(q, k))
            holder['k'] = k
            v = elt(SInt(k))
            prove('comp-elem-is-next-value', isinstance(v, PVal) and v.p == S_end(q, k), kind='loop',
                  clause='element k is the value parsed at S_end(q, k)')
            prove('comp-inv-preserved', z3.And(fp.pos == S_end(q, k + 1), noerr(k + 1)), kind='loop',
                  clause='pos == S_end(q, k+1) and no element up to k failed')
            raise core.PathEnd()
        core.axiom(noerr(n))
        fp.havoc(None, S_end(q, n))
        holder['k'] = None
        return ParsedList(q, n)

    f = loader.load(MOD, '_unpack_array', stubs=dict(BASE_STUBS(), _read_except=read_except_contract,
                                                      _unpack=unpack_hypothesis, range=m_range), comps={0: schema})
    for fmt in fam_formats('array'):
        def body(fmt=fmt):
            holder.clear()
            assume(z3.And(p0 >= 1, p0 <= data.total))
            code, cint = sym_code(fmt)
            fp = InStream(data, p0)
            holder['fp'], holder['c'] = fp, cint
            return f(code, fp)

        def on_path(p, out, fmt=fmt):
            lab = fmt[0].replace(' ', '')
            cases = M.parse_scalar(fmt, holder['c'], data, p0)      # header only
            for i, (cond, outcome) in enumerate(cases):
                if not p.feasible(cond):
                    continue
                if outcome[0] != M.OK:
                    prove('%s-header-case%d' % (lab, i), z3.BoolVal(out[0] == 'exc' and exc_kind(m, out[1]) == outcome[0]),
                          clause='truncated header: insufficient data', path=p)
                    continue
                hv, q = outcome[1], outcome[2]
                if twin:
                    q = q + 1
                if 'q' not in holder:
                    prove('%s-reaches-elements' % lab, False, path=p)
                    continue
                prove('%s-header' % lab, z3.Implies(cond, z3.And(holder['q'] == q, holder['n'] == hv.n)),
                      clause='element count and first element position as the spec\'s header says', path=p)
                if out[0] == 'ok':
                    r = out[1]
                    ok = isinstance(r, ParsedList)
                    prove('%s-result' % lab, z3.And(r.q == holder['q'], r.n == holder['n']) if ok else False,
                          clause='returns the list of the n values parsed consecutively', path=p)
                    prove('%s-end' % lab, holder['fp'].pos == S_end(holder['q'], holder['n']),
                          clause='consumes exactly the header and n values', path=p)
                else:
                    k = holder.get('k')
                    ec = err_code(m, out[1])
                    prove('%s-element-error-propagates' % lab,
                          (P_err(S_end(holder['q'], k)) == ec) if (k is not None and ec) else False,
                          clause='fails with the error of the first element that fails (earlier ones parsed)', path=p)
        core.explore(body, on_path)


Is_list = z3.Function('parsed_value_is_a_list', Int, z3.BoolSort())
Is_hashable = z3.Function('parsed_value_is_hashable', Int, z3.BoolSort())
Deep_hashable = z3.Function('parsed_list_converts_to_a_hashable_tuple', Int, z3.BoolSort())
Dup_key = z3.Function('parsed_key_equals_an_earlier_key', Int, z3.BoolSort())


class TupleKey(Proxy):
    """_deep_list_to_tuple(value parsed at p) (contract of that function: harness deep_list_to_tuple)"""
    def __init__(self, p):
        self.p = p

    def __str__(self):
        return '<tuple of the list parsed at %s>' % (self.p,)


class ParsedMap(loader.Mutable):
    """{key_j: value_j for j < base} (the pairs parsed so far, opaque) plus the pairs stored since the last cut"""
    _pyclass = dict

    def __init__(self):
        self.base = z3.IntVal(0)
        self.items = []

    def __contains__(self, k):
        if not isinstance(k, PVal):
            raise EngineEscape('membership of %r' % (k,))
        return core.branch(Dup_key(k.p))

    def __setitem__(self, k, v):
        if isinstance(k, TupleKey) and core.branch(z3.Not(Deep_hashable(k.p))):
            raise TypeError('unhashable type (model)')
        self.items.append((k, v))
        self.touched()

    def havoc(self, L, base):
        self.base, self.items = base, []
        self._hav = L


@harness('C14', 'supp.umsgpack._unpack_map', twins=('spec-keys-at-odd-positions',))
def unpack_map(run, twin=None):
    """header per spec, then n (key, value) pairs read by _unpack (modular call, induction hypothesis); loop invariant:
    pos == S_end(q, 2k), no value before it failed, the dict holds the first k pairs.  A list key is converted by _deep_list_to_tuple;
    UnhashableKeyException exactly for a key that is neither a list nor hashable (or a list that does not convert to a hashable tuple),
    DuplicateKeyException exactly for a non-list key equal to an earlier one; the error of the first failing element propagates"""
    m = um()
    data = M.Data()
    p0 = z3.Int('pos')
    j = z3.Int('j')
    holder = {}
    Hashable = m.Hashable

    def noerr(q, k):
        return z3.ForAll([j], z3.Implies(z3.And(j >= 0, j < k), P_err(S_end(q, j)) == 0))

    def snapshot(L, st):
        L.q = st['fp'].pos
        holder['q'], holder['n'], holder['L'] = L.q, L.n, L
        seq_axioms(L.q)

    def pair_ok(L, item, k):
        key, val = item
        kp = S_end(L.q, 2 * k) if not twin else S_end(L.q, 2 * k + 1)
        vp = S_end(L.q, 2 * k + 1) if not twin else S_end(L.q, 2 * k)
        if not (isinstance(key, (PVal, TupleKey)) and isinstance(val, PVal)):
            return z3.BoolVal(False)
        return z3.And(key.p == kp, val.p == vp, z3.BoolVal(isinstance(key, TupleKey)) == Is_list(kp))

    def inv(L, st):
        d, fp = st['d'], st['fp']
        if not isinstance(d, ParsedMap):
            return z3.BoolVal(False)
        if len(d.items) == 0:
            held = d.base == L.k
        elif len(d.items) == 1:
            held = z3.And(d.base == L.k - 1, pair_ok(L, d.items[0], L.k - 1))
        else:
            return z3.BoolVal(False)
        return z3.And(fp.pos == S_end(L.q, 2 * L.k), noerr(L.q, 2 * L.k), held)

    def hav(L, st):
        st['fp'].havoc(L, S_end(L.q, 2 * L.k))
        st['d'].havoc(L, L.k)
        holder['k'] = L.k
        return {}
    spec = LoopSpec(inv, hav, temps=('i', 'k', 'v'), length=lambda it: it.n, element=lambda it, k: SInt(k))
    spec.snapshot = snapshot

    def sym_isinstance(o, cls):
        if isinstance(o, PVal):
            if cls is list:
                return core.branch(Is_list(o.p))
            if cls is Hashable:
                return core.branch(Is_hashable(o.p))
            raise EngineEscape('isinstance(parsed value, %r)' % (cls,))
        return isinstance(o, cls)

    f = loader.load(MOD, '_unpack_map', stubs=dict(BASE_STUBS(), _read_except=read_except_contract, _unpack=unpack_hypothesis, range=m_range,
                                                    _deep_list_to_tuple=lambda k: TupleKey(k.p)),
                    cuts={0: spec}, displays={'dict': ParsedMap}, builtins_extra={'isinstance': sym_isinstance})
    for fmt in fam_formats('map'):
        def body(fmt=fmt):
            holder.clear()
            assume(z3.And(p0 >= 1, p0 <= data.total))
            code, cint = sym_code(fmt)
            fp = InStream(data, p0)
            holder['fp'], holder['c'] = fp, cint
            return f(code, fp)

        def on_path(p, out, fmt=fmt):
            lab = fmt[0].replace(' ', '')
            cases = M.parse_scalar(fmt, holder['c'], data, p0)      # header only
            for i, (cond, outcome) in enumerate(cases):
                if not p.feasible(cond):
                    continue
                if outcome[0] != M.OK:
                    prove('%s-header-case%d' % (lab, i), z3.BoolVal(out[0] == 'exc' and exc_kind(m, out[1]) == outcome[0]),
                          clause='truncated header: insufficient data', path=p)
                    continue
                hv, q = outcome[1], outcome[2]
                if 'q' not in holder:
                    prove('%s-reaches-the-pairs' % lab, False, path=p)
                    continue
                prove('%s-header' % lab, z3.Implies(cond, z3.And(holder['q'] == q, holder['n'] == hv.n)),
                      clause='pair count and first key position as the spec\'s header says', path=p)
                if out[0] == 'ok':
                    r = out[1]
                    ok = isinstance(r, ParsedMap) and not r.items
                    prove('%s-result' % lab, (r.base == holder['n']) if ok else False,
                          clause='returns the dict of the n pairs parsed consecutively (key, value, key, value ...)', path=p)
                    prove('%s-end' % lab, holder['fp'].pos == S_end(holder['q'], 2 * holder['n']),
                          clause='consumes exactly the header and 2n values', path=p)
                else:
                    k = holder.get('k')
                    e = out[1]
                    ec = err_code(m, e)
                    if k is None or ec is None:
                        prove('%s-no-other-exception(%s)' % (lab, type(e).__name__), False, path=p)
                        continue
                    kp, vp = S_end(holder['q'], 2 * k), S_end(holder['q'], 2 * k + 1)
                    nested = z3.Or(P_err(kp) == ec, z3.And(P_err(kp) == 0, P_err(vp) == ec))
                    own = z3.BoolVal(False)
                    if ec == 4:
                        own = z3.And(P_err(kp) == 0, z3.Or(z3.And(z3.Not(Is_list(kp)), z3.Not(Is_hashable(kp))),
                                                           z3.And(Is_list(kp), P_err(vp) == 0, z3.Not(Deep_hashable(kp)))))
                    if ec == 5:
                        own = z3.And(P_err(kp) == 0, z3.Not(Is_list(kp)), Is_hashable(kp), Dup_key(kp))
                    prove('%s-error-is-the-first-failure' % lab, z3.Or(nested, own),
                          clause='fails with the error of the first element that fails, or UnhashableKey / DuplicateKey for exactly such a key', path=p)
        core.explore(body, on_path)


@harness('C14', 'supp.umsgpack._deep_list_to_tuple')
def deep_list_to_tuple(run):
    """a list becomes the tuple of its converted elements (same length, same order; the recursive call is the induction hypothesis);
    anything else is returned as it is"""
    m = um()
    holder = {}

    class ConvList(Proxy):
        """[conv(e_j) for j < n]"""
        _pyclass = list

        def __init__(self, src):
            self.src = src

    def hyp(e):
        return ('conv', e)

    def schema(kind, iterable, elt, conds):
        if kind != 'list' or conds or not isinstance(iterable, SListP):
            raise EngineEscape('comprehension changed shape')
        if core.choice(2) == 0:
            k = core.fresh('k', Int)
            assume(z3.And(k >= 0, k < iterable.n))
            e = iterable.elem_at(k)
            prove('element-k-is-the-conversion-of-element-k', elt(e) == ('conv', e), kind='loop')
            raise core.PathEnd()
        return ConvList(iterable)

    def sym_isinstance(o, cls):
        if isinstance(o, SListP):
            return cls is list
        return isinstance(o, cls)

    f = loader.load(MOD, '_deep_list_to_tuple', stubs={'_deep_list_to_tuple': hyp, 'tuple': lambda x: ('tuple-of', x)}, comps={0: schema},
                    builtins_extra={'isinstance': sym_isinstance, 'tuple': lambda x: ('tuple-of', x)})

    def body():
        lst = SListP('obj')
        assume(lst.n >= 0)
        holder['l'] = lst
        return f(lst)

    def on_path(p, out):
        r = out[1] if out[0] == 'ok' else None
        prove('list-becomes-the-tuple-of-converted-elements',
              isinstance(r, tuple) and r[0] == 'tuple-of' and isinstance(r[1], ConvList) and r[1].src is holder['l'], path=p)
    core.explore(body, on_path)

    def ground(path):
        for v in (1, 'a', b'b', None, (1, [2]), 1.5, {'k': [1]}):
            prove('non-list-%s-returned-as-it-is' % type(v).__name__, m._deep_list_to_tuple(v) is v, path=path)
    core.explore(lambda: None, lambda p, out: ground(p))


class TableStub(object):
    """_unpack_dispatch_table[code] with a symbolic code: forks over the 37 format rows of the spec; for each
    row the REAL table must send every code of the row to one function (ground obligations), and that
    function's contract must cover the row"""

    def __init__(self, real, contracts):
        self.real, self.contracts = real, contracts

    def __getitem__(self, code):
        if not isinstance(code, SBytes) and type(code) is bytes:
            c = z3.IntVal(code[0])
        else:
            c = z3.BV2Int(code.byte_at(0))
        for fmt in M.FORMATS:
            name, lo, hi, fam = fmt
            if core.branch(z3.And(c >= lo, c <= hi)):
                fns = set()
                for b in range(lo, hi + 1):
                    fns.add(self.real.get(bytes([b])))
                prove('table-row-%s-uniform-and-total' % name.replace(' ', ''), len(fns) == 1 and None not in fns, kind='ground',
                      clause='every first byte of the row has an entry, all the same decoder')
                fn = sorted(fns, key=lambda x: getattr(x, '__name__', ''))[-1]
                stub = self.contracts.get(getattr(fn, '__name__', None))
                if stub is None:
                    prove('table-row-%s-decoder-under-contract' % name.replace(' ', ''), False, kind='ground')
                    raise core.PathEnd()
                return lambda code, fp, fmt=fmt, stub=stub: stub(fmt, c, code, fp)
        raise KeyError(code)


def value_of(m, v, data):
    """Python value (proxy) for spec value v"""
    k = v.kind
    if k == 'nil':
        return None
    if k == 'bool':
        return v.b
    if k == 'int':
        return SInt(v.t)
    if k == 'float':
        return SFloat((M.f64_of if v.n == 8 else M.f32_of)(v.bits))
    if k == 'str':
        return SStr(M.unutf8(P.slice_of(data.id, v.start, v.n), v.n))
    if k == 'bin':
        return SBytes((data.slice(v.start, v.n),))
    if k == 'ext':
        o = loader.bare_instance(m.Ext)
        o.type, o.data = SInt(v.ty), SBytes((data.slice(v.start, v.n),))
        return o


def decoder_contract(family):
    """the contract verified above for each _unpack_<family>, as a stub"""
    def stub(fmt, c, code, fp):
        m = um()
        prove('dispatch-pre-%s-handles-%s' % (family, fmt[0].replace(' ', '')), fmt[3] == family, kind='pre',
              clause='the decoder the table selects is the one whose contract covers this first byte')
        if fmt[3] != family:
            raise core.PathEnd()
        if family in ('array', 'map'):
            fp.pos = fp.pos - 1
            return unpack_hypothesis(fp)
        for cond, outcome in M.parse_scalar(fmt, c, fp.data, fp.pos):
            if core.branch(cond):
                if outcome[0] == M.OK:
                    fp.pos = z3.simplify(outcome[2])
                    return value_of(m, outcome[1], fp.data)
                raise {M.INSUFFICIENT: m.InsufficientDataException, M.RESERVED: m.ReservedCodeException,
                       M.INVALID_UTF8: m.InvalidStringException}[outcome[0]]('model')
        raise EngineEscape('parse cases not exhaustive')
    return stub


DECODERS = {'_unpack_integer': 'int', '_unpack_nil': 'nil', '_unpack_boolean': 'bool', '_unpack_reserved': 'reserved',
            '_unpack_float': 'float', '_unpack_string': 'str', '_unpack_binary': 'bin', '_unpack_ext': 'ext',
            '_unpack_array': 'array', '_unpack_map': 'map'}


@harness('C14', 'supp.umsgpack._unpack', twins=('spec-bin8-is-str8',))
def unpack_dispatch(run, twin=None):
    """reads one byte and behaves as the spec's parse for the format of that byte: dispatch table total on
    0x00..0xff, each row sent to the decoder whose (verified) contract covers it"""
    m = um()
    contracts = {nm: decoder_contract(fam) for nm, fam in DECODERS.items()}
    f = loader.load(MOD, '_unpack', stubs=dict(BASE_STUBS(), _read_except=read_except_contract,
                                                _unpack_dispatch_table=TableStub(m._unpack_dispatch_table, contracts)))
    prove('table-has-256-entries', len(m._unpack_dispatch_table) == 256 and
          all(type(k) is bytes and len(k) == 1 for k in m._unpack_dispatch_table), kind='ground', path=core.Path([]))
    data = M.Data()
    p0 = z3.Int('pos')
    holder = {}

    def body():
        assume(z3.And(p0 >= 0, p0 <= data.total))
        fp = InStream(data, p0)
        holder['fp'] = fp
        return f(fp)

    def on_path(p, out):
        fp = holder['fp']
        if not p.feasible(data.total - p0 >= 1):
            prove('empty-insufficient', z3.BoolVal(out[0] == 'exc' and exc_kind(m, out[1]) == M.INSUFFICIENT),
                  clause='no first byte: insufficient data', path=p)
            return
        c = z3.BV2Int(data.byte(p0))
        for fmt in M.FORMATS:
            name, lo, hi, fam = fmt
            if not p.feasible(z3.And(c >= lo, c <= hi)):
                continue
            p.assume(z3.And(c >= lo, c <= hi), check=False)
            lab = name.replace(' ', '')
            if fam in ('array', 'map'):
                if out[0] == 'ok':
                    prove('%s-nested' % lab, z3.And(isinstance(out[1], PVal) and out[1].p == p0, fp.pos == P_end(p0)), path=p)
                else:
                    ec = err_code(m, out[1])
                    prove('%s-nested-error' % lab, P_err(p0) == ec if ec else False, path=p)
                continue
            sfmt = fmt
            if twin and name == 'bin 8':
                sfmt = ('str 8', lo, hi, 'str')
            for i, (cond, outcome) in enumerate(M.parse_scalar(sfmt, c, data, p0 + 1)):
                if not p.feasible(cond):
                    continue
                if outcome[0] == M.OK:
                    if out[0] == 'ok':
                        mv = match_value(m, out[1], outcome[1], data)
                        claim = z3.And(mv, fp.pos == outcome[2]) if not isinstance(mv, bool) else \
                            (fp.pos == outcome[2] if mv else z3.BoolVal(False))
                    else:
                        claim = z3.BoolVal(False)
                else:
                    claim = z3.BoolVal(out[0] == 'exc' and exc_kind(m, out[1]) == outcome[0])
                prove('%s-case%d' % (lab, i), z3.Implies(cond, claim),
                      clause='_unpack behaves as the spec\'s parse for first byte in %s' % name, path=p)
    core.explore(body, on_path)


# ---------------------------------------------------------------------------
# top level: _pack3 dispatch, _packb3, _unpackb3

PACKERS = {'_pack_nil': 'nil', '_pack_boolean': 'bool', '_pack_integer': 'int', '_pack_float': 'float',
           '_pack_string': 'str', '_pack_binary': 'bin', '_pack_array': 'array', '_pack_map': 'map', '_pack_ext': 'ext',
           '_pack_oldspec_raw': 'oldspec-raw'}


@harness('C14', 'supp.umsgpack._pack3', twins=('bool-as-int',))
def pack3_dispatch(run, twin=None):
    """every kind of the data model goes to the encoder of its own family (bool before int), exactly once,
    with the same object and stream; anything else raises UnsupportedTypeException.  requires compatibility == False"""
    m = um()
    if m.compatibility:
        raise EngineEscape('compatibility mode is on')
    calls = []
    stubs = dict(BASE_STUBS())
    for nm, fam in PACKERS.items():
        stubs[nm] = (lambda fam: lambda obj, fp: calls.append((fam, obj, fp)))(fam)
    f = loader.load(MOD, '_pack3', stubs=stubs)
    ext = loader.bare_instance(m.Ext)
    ext.type, ext.data = 5, b'x'

    class Other(object):
        pass
    kinds = [('nil', None), ('bool', True), ('bool', False), ('int', SInt(z3.Int('obj'))), ('int', 0), ('int', -1),
             ('float', SFloat(z3.Const('f', M.D))), ('float', 1.5), ('str', SStr(z3.Const('s', M.S))), ('str', ''),
             ('bin', SBytes((blob(*sym_bytes('b')),))), ('bin', b''), ('array', SListP('l', list)), ('array', SListP('t', tuple)),
             ('array', []), ('array', ()), ('map', SDictP('d')), ('map', {}), ('ext', ext),
             (None, Other()), (None, {1, 2}), (None, 1j)]
    for want, obj in kinds:
        if twin and want == 'bool':
            want = 'int'
        fp = OutStream(PRE)

        def body():
            del calls[:]
            return f(obj, fp)

        def on_path(p, out, want=want, obj=obj, fp=fp):
            lab = 'kind-%s(%s)' % (want, type(obj).__name__)
            if want is None:
                prove(lab + '-refused', out[0] == 'exc' and isinstance(out[1], m.UnsupportedTypeException) and not calls,
                      clause='values outside the data model raise UnsupportedTypeException, nothing is written', path=p)
            else:
                prove(lab + '-dispatch', out[0] == 'ok' and len(calls) == 1 and calls[0][0] == want and calls[0][1] is obj
                      and calls[0][2] is fp, clause='encoded by the encoder of its own family, once, same object and stream', path=p)
        core.explore(body, on_path)


class BytesIOModel(OutStream):
    def __init__(self, initial=None):
        OutStream.__init__(self, ())
        self.initial = initial

    def getvalue(self):
        return mk_bytes(self.chunks)


@harness('C14', 'supp.umsgpack._packb3')
def packb3(run):
    """dumps(obj) == the bytes _pack3 writes into a fresh empty stream"""
    class io_model(object):
        BytesIO = BytesIOModel
    marker = (blob(z3.Const('enc_obj', P.BlobSort), z3.Int('enc_obj.len')),)
    seen = []

    def pack3_contract(obj, fp):
        seen.append((obj, tuple(fp.chunks)))
        fp.write(SBytes(marker))
    f = loader.load(MOD, '_packb3', stubs=dict(BASE_STUBS(), io=io_model, _pack3=pack3_contract))
    obj = object()

    def on_path(p, out):
        ok = out[0] == 'ok' and len(seen) == 1 and seen[0][0] is obj and seen[0][1] == ()
        prove('fresh-stream-one-call', ok, clause='_pack3(obj, fresh empty stream) is called once', path=p)
        eq = beq(out[1], marker) if out[0] == 'ok' else None
        prove('returns-written-bytes', eq if eq is not None else False, clause='returns exactly what was written', path=p)
    core.explore(lambda: f(obj), on_path)


@harness('C14', 'supp.umsgpack._unpackb3')
def unpackb3(run):
    """loads(s): s must be bytes (TypeError otherwise); result is _unpack on a stream over exactly s from position 0"""
    seen = []

    class io_model(object):
        @staticmethod
        def BytesIO(s):
            seen.append(s)
            return ('stream-over', s)
    f = loader.load(MOD, '_unpackb3', stubs=dict(BASE_STUBS(), io=io_model, _unpack=lambda fp: ('unpacked', fp)))
    s = SBytes((blob(*sym_bytes('s')),))
    for arg in (s, b'\x01', 'text', 5, None, bytearray(b'x')):
        def body(arg=arg):
            del seen[:]
            return f(arg)

        def on_path(p, out, arg=arg):
            if isinstance(arg, SBytes) or type(arg) is bytes:
                prove('bytes-%s-decoded' % type(arg).__name__, out == ('ok', ('unpacked', ('stream-over', arg))) and len(seen) == 1,
                      clause='decodes from a stream over exactly the argument', path=p)
            else:
                prove('non-bytes-%s-refused' % type(arg).__name__, out[0] == 'exc' and isinstance(out[1], TypeError) and not seen,
                      clause='TypeError for non-bytes input', path=p)
        core.explore(body, on_path)


# ---------------------------------------------------------------------------
# bounded stand-in: the real codec against the reference codec (spec/msgpack_ref.py, written from the specification) on every boundary

CODEC_REPLAY = '''import sys; sys.path.insert(0, %(repo)r); sys.path.insert(0, %(verif)r)
from supp import umsgpack as u
from spec.msgpack_ref import ref_pack, ref_unpack, same, RefExt
v = %(value)s
try:
    got = u.packb(v)
except Exception as e:
    got = 'raised %%s' %% type(e).__name__
want = ref_pack(%(refvalue)s)
print('packb ->', got if isinstance(got, str) else got[:24].hex(), '... len', len(got)); print('spec  ->', want[:24].hex(), '... len', len(want))
back = None
try:
    back = u.unpackb(want)
except Exception as e:
    back = 'raised %%s' %% type(e).__name__
print('unpackb(spec encoding) ->', repr(back)[:80])
print('REPRODUCED' if got != want or not same(back, ref_unpack(want)[0]) else 'not reproduced')
'''


@harness('C14', 'supp.umsgpack.packb / unpackb [every size and integer boundary against the reference codec]',
         bounded='integers at every format boundary (+-1) of the 10 integer formats and both range ends; str / bin / ext / array / map with lengths '
                 '0, 1, 2, 4, 8, 15, 16, 17, 31, 32, 33, 64, 128, 255, 256, 257, 65535, 65536, 65537, 131073 (ext types -128, -1, 0, 5, 127); nil, booleans, '
                 'doubles; every non-minimal integer / length form of small values; every proper prefix of the short encodings, about 40 sampled prefixes of each long one (header, payload, around multiples of 2**16)')
def codec_boundaries(run):
    """BOUNDED stand-in that survives restructurings of the codec (bit tricks on lengths leave the symbolic engine): on every boundary value the
    real packb gives exactly the bytes of the reference encoder, the real unpackb reads them (and every non-minimal form) back to an equal
    value, and every proper prefix of a short encoding is refused as insufficient data.  Not counted as proved."""
    import os
    m = um()
    from spec.msgpack_ref import ref_pack, ref_unpack, same, RefExt, RefUnsupported
    verif = os.path.dirname(os.path.dirname(os.path.abspath(__file__)))

    def go(path):
        import sys as _sysf
        vals = [None, True, False, 0.0, -0.0, 1.5, float('inf'), float('-inf'), 2.0 ** -1074, 2.0 ** -149, 2.0 ** -150, 3.4028234663852886e38, 2.0 ** 128, 1e39, -1e300,
                _sysf.float_info.max, -_sysf.float_info.max, _sysf.float_info.min, 0.1, 1 / 3]
        edges = [0, 127, 128, 255, 256, 65535, 65536, 2 ** 32 - 1, 2 ** 32, 2 ** 63 - 1, 2 ** 63, 2 ** 64 - 1,
                 -1, -32, -33, -128, -129, -32768, -32769, -2 ** 31, -2 ** 31 - 1, -2 ** 63]
        ints = sorted(set(e + d for e in edges for d in (-1, 0, 1) if -2 ** 63 <= e + d < 2 ** 64))
        lens = [0, 1, 2, 4, 8, 15, 16, 17, 31, 32, 33, 64, 128, 255, 256, 257, 65535, 65536, 65537, 131073]
        cases = [('int:%d' % i, i, i) for i in ints]
        cases += [('%s:%r' % (type(v).__name__, v), v, v) for v in vals]
        for n in lens:
            cases.append(('str:len%d' % n, 'x' * n, 'x' * n))
            cases.append(('bin:len%d' % n, b'y' * n, b'y' * n))
            for t in (-128, -1, 0, 5, 127):
                cases.append(('ext:type%d:len%d' % (t, n), ('ext', t, n), None))
            cases.append(('array:len%d' % n, [1] * n, [1] * n))
            cases.append(('map:len%d' % n, {i: None for i in range(n)}, {i: None for i in range(n)}))
        cases.append(('str:non-ascii', 'naïve € \U0001f600', 'naïve € \U0001f600'))
        # strings whose character count and UTF-8 byte count lie on different sides of a format boundary
        for ch, counts in (('\u00e9', (15, 16, 20, 31, 127, 128, 255, 32767, 32768)), ('\u20ac', (10, 11, 31, 85, 86, 21845, 21846)), ('\U0001f600', (7, 8, 63, 64))):
            for k in counts:
                cases.append(('str:%d-chars-of-U+%04X' % (k, ord(ch)), ch * k, ch * k))
        cases.append(('nested', {'k': [1, {'z': (2, 3)}, b'b'], 5: None}, {'k': [1, {'z': (2, 3)}, b'b'], 5: None}))
        # instances of subclasses of the serialisable types are packed as their base type
        import collections as _c
        import enum as _e
        _P = _c.namedtuple('_P', 'x y')
        _S = type('_S', (str,), {})
        _B = type('_B', (bytes,), {})
        _L = type('_L', (list,), {})
        _I = type('_I', (int,), {})
        _F = type('_F', (float,), {})
        _E = _e.IntEnum('_E', 'A B')
        for label, v, base in (('subclass:namedtuple', _P(1, 2), [1, 2]), ('subclass:OrderedDict', _c.OrderedDict([('a', 1), ('b', 2)]), {'a': 1, 'b': 2}),
                               ('subclass:defaultdict', _c.defaultdict(int, k=3), {'k': 3}), ('subclass:str', _S('text'), 'text'), ('subclass:bytes', _B(b'raw'), b'raw'),
                               ('subclass:list', _L([1, 'x']), [1, 'x']), ('subclass:int', _I(300), 300), ('subclass:float', _F(1.5), 1.5),
                               ('subclass:IntEnum', _E.B, 2), ('subclass:nested', {'k': [_P(_S('a'), _I(7))]}, {'k': [['a', 7]]})):
            cases.append((label, v, base))
        # array-valued map keys come back hashable at every depth
        for label, v in (('map:tuple-key', {(1, 2): 'v'}), ('map:empty-tuple-key', {(): 1}), ('map:nested-tuple-key', {((1, 2), 3): 'v', (4, (5, (6,))): None}),
                         ('map:tuple-key-in-nested-map', [{'k': {(1, (2, 'a')): [3]}}])):
            cases.append((label, v, v))
        for label, v, rv in cases:
            if isinstance(v, tuple) and v and v[0] == 'ext':
                _, t, n = v
                v, rv = m.Ext(t, b'z' * n), RefExt(t, b'z' * n)
                vtxt, rtxt = 'u.Ext(%d, b"z" * %d)' % (t, n), 'RefExt(%d, b"z" * %d)' % (t, n)
            else:
                vtxt = rtxt = repr(v) if len(repr(v)) < 200 else None
                if vtxt is None:
                    if isinstance(v, (str, bytes)) and len(set(v)) == 1:
                        vtxt = rtxt = '%r * %d' % (v[:1], len(v))
                    elif isinstance(v, list) and v == [1] * len(v):
                        vtxt = rtxt = '[1] * %d' % len(v)
                    elif isinstance(v, dict) and v == {i: None for i in range(len(v))}:
                        vtxt = rtxt = '{i: None for i in range(%d)}' % len(v)
            want = ref_pack(rv)
            try:
                got = m.packb(v)
            except Exception as e:
                got = 'raised %s' % type(e).__name__
            # what C14 asks of the encoder: valid MessagePack that the independent decoder reads back, whole, to the same value (the format
            # need not be the smallest one, which is what the reference encoder emits) ...
            ok = isinstance(got, bytes)
            if ok:
                try:
                    rback, rend = ref_unpack(got)
                    ok = rend == len(got) and same(rback, ref_unpack(want)[0])
                except Exception:
                    ok = False
            # ... and of the decoder: it reads the encoder's output and the smallest encoding back to the same value
            if ok:
                try:
                    back = m.unpackb(want)
                    ok = same(back, ref_unpack(want)[0]) and same(m.unpackb(got), ref_unpack(want)[0])
                except Exception as e:
                    ok, back = False, 'raised %s' % type(e).__name__
            if not ok and vtxt:
                core.RUN.concretise = lambda model, ob, vtxt=vtxt, rtxt=rtxt: {'input': vtxt, 'script': CODEC_REPLAY % {
                    'repo': core.REPO, 'verif': verif, 'value': vtxt, 'refvalue': rtxt}}
            prove('round-trip-and-spec-bytes:%s' % label, ok,
                  clause='packb(v) is valid MessagePack the reference decoder reads back to v, and unpackb reads it and the smallest encoding back [%s]' % (
                      'ok' if ok else '%r... vs %r...' % (got if isinstance(got, str) else got[:12], want[:12])), path=path)
            core.RUN.concretise = None
            if len(want) <= 40:
                refused = all(_refuses(m, want[:k]) for k in range(len(want)))
                prove('proper-prefixes-refused:%s' % label, refused, clause='every proper prefix of the encoding raises InsufficientDataException', path=path)
            else:
                # long encodings: cuts inside the header, just behind it, in the middle of the payload and around every multiple of 2**16 from either end
                n = len(want)
                cuts = set(range(0, 12)) | {n // 3, n // 2, n - 2, n - 1}
                for base in (0, n):
                    for mult in (1, 2):
                        for d in (-1, 0, 1, 5, 6):
                            cuts.add(abs(base - mult * 65536) + d)
                            cuts.add(abs(base - mult * 65536) - d)
                cuts = sorted(k for k in cuts if 0 <= k < n)
                accepted = [k for k in cuts if not _refuses(m, want[:k])]
                if accepted and vtxt:
                    core.RUN.concretise = lambda model, ob, vtxt=vtxt, k=accepted[0]: {'input': '%s cut after %d bytes' % (vtxt, k), 'script': (
                        'import sys; sys.path.insert(0, %r)\nimport supp.umsgpack as u\nb = u.packb(%s)[:%d]\n'
                        'try:\n    r = u.unpackb(b)\n    print("REPRODUCED: a proper prefix (%%d of %%d bytes) is accepted: %%r..." %% (len(b), len(u.packb(%s)), repr(r)[:40]))\n'
                        'except u.InsufficientDataException:\n    print("not reproduced")\n') % (core.REPO, vtxt, k, vtxt)}
                prove('sampled-proper-prefixes-refused:%s' % label, not accepted,
                      clause='%d proper prefixes (header, payload, around multiples of 2**16) raise InsufficientDataException [accepted: %r]' % (len(cuts), accepted[:5]), path=path)
                core.RUN.concretise = None
        # out-of-range integers are refused, not wrapped
        for bad in (2 ** 64, -2 ** 63 - 1, 2 ** 70):
            try:
                m.packb(bad)
                r = 'encoded'
            except m.UnsupportedTypeException:
                r = 'refused'
            except Exception as e:
                r = type(e).__name__
            prove('out-of-range-integer-refused:%d' % bad, r == 'refused', clause='[%s]' % r, path=path)
        # non-minimal forms of small values are accepted
        nonmin = [(b'\xcc\x05', 5), (b'\xcd\x00\x05', 5), (b'\xce\x00\x00\x00\x05', 5), (b'\xcf' + bytes(7) + b'\x05', 5),
                  (b'\xd0\x05', 5), (b'\xd1\x00\x05', 5), (b'\xd2\x00\x00\x00\x05', 5), (b'\xd3' + bytes(7) + b'\x05', 5),
                  (b'\xd0\xff', -1), (b'\xd1\xff\xff', -1), (b'\xd2' + b'\xff' * 4, -1), (b'\xd3' + b'\xff' * 8, -1), (b'\xd0\x7f', 127),
                  (b'\xd9\x01a', 'a'), (b'\xda\x00\x01a', 'a'), (b'\xdb\x00\x00\x00\x01a', 'a'),
                  (b'\xc5\x00\x01a', b'a'), (b'\xc6\x00\x00\x00\x01a', b'a'),
                  (b'\xdc\x00\x01\x01', [1]), (b'\xdd\x00\x00\x00\x01\x01', [1]), (b'\xde\x00\x01\x01\x02', {1: 2}), (b'\xdf\x00\x00\x00\x01\x01\x02', {1: 2}),
                  (b'\xc7\x01\x05z', 'ext'), (b'\xc8\x00\x01\x05z', 'ext'), (b'\xc9\x00\x00\x00\x01\x05z', 'ext'), (b'\xca\x3f\xc0\x00\x00', 1.5)]
        for raw, want in nonmin:
            try:
                got = m.unpackb(raw)
                ok = (got == m.Ext(5, b'z')) if want == 'ext' else same(got, want)
            except Exception as e:
                got, ok = 'raised %s' % type(e).__name__, False
            prove('non-minimal-form-accepted:%s' % raw.hex(), ok, clause='a spec-valid non-minimal encoding decodes to its value [%r]' % (got,), path=path)
    core.explore(lambda: None, lambda p, out: go(p))


def _refuses(m, raw):
    try:
        m.unpackb(raw)
        return False
    except m.InsufficientDataException:
        return True
    except Exception:
        return False
