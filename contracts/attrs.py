"""Sidecar contracts for attribute lookup (C06): name.ClassObject._attrs, name.InstanceValue._attrs, the merge objects
(CompositeValue, MultiValue, AdditionalNameWrapper), scope.SourceScope.assigns, scope.FuncScope.get_argument.

Spec (Python data model 3.3.2, restricted to hierarchies without repeated ancestors, so C3 == depth-first left-to-right):
  mro(C)          = [C] ++ concat(mro(B) for B in bases(C))
  class_lookup(C) = first of body(K) for K in mro(C) that defines the attribute
  inst_lookup(C)  = an instance assignment (self.a = ...) in any class of mro(C), first in MRO order, if there is one;
                    otherwise class_lookup(C)
Tables are observed at one representative attribute name (parametric in the key)."""
import z3

from pysym import core, loader
from pysym.core import prove, assume, axiom, EngineEscape, PathEnd
from pysym.harness import harness
from pysym.loader import LoopSpec, Mutable
from pysym.proxies import Proxy, SInt, SBool, lift
from contracts.tables import KEY, T_PARAM, Obj

Int = z3.IntSort()


class Src(object):
    """a table source observed at KEY: has (z3 Bool) and an identity label for its value"""
    def __init__(self, has, label):
        self.has, self.label = has, label


class SrcTable(Proxy):
    """a plain attribute table (dict) with symbolic content at KEY"""
    _pyclass = dict

    def __init__(self, src):
        self.src = src

    def copy(self):
        return Overlay([('table', self.src)])

    def get(self, k, default=None):
        if core.CUR.branch(self.src.has):
            return ('value', self.src.label)
        return default

    def __contains__(self, k):
        return core.CUR.branch(self.src.has)


class BaseFamily(object):
    """bases: n base objects; base j's table (whichever table the code asks it for) holds KEY or not"""
    def __init__(self, name, tables):
        self.n = z3.Int(name + '.n')
        self.has = {t: z3.Function('%s.%s.has_k' % (name, t), Int, z3.BoolSort()) for t in tables}
        self.callable = z3.Function(name + '.instantiable', Int, z3.BoolSort())


class Overlay(Mutable):
    """a dict built by copy()/update(): a list of layers, later layers win.  A layer is ('table', Src) or
    ('chain', fam, table-name, lo): the tables of bases lo..n-1 applied from the last to the first (so the FIRST base wins)"""
    _pyclass = dict

    def __init__(self, layers=None):
        self.layers = list(layers or [])

    def update(self, other):
        if isinstance(other, SrcTable):
            self.layers.append(('table', other.src))
        elif isinstance(other, BaseTable):
            top = self.layers[-1] if self.layers else None
            fam, i = other.fam, z3.Int('ui')
            lo = top[3] if (top and top[0] == 'chain' and top[1] is fam and top[2] == other.table) else fam.n
            # applied from the last base to the first; a base that is skipped in between contributes nothing
            prove('bases-applied-from-last-to-first',
                  z3.And(other.j < lo, other.j >= 0,
                         z3.ForAll([i], z3.Implies(z3.And(i > other.j, i < lo), z3.Not(fam.has[other.table](i))))), kind='loop',
                  clause='reversed(bases): an earlier base overrides a later one; skipped bases hold nothing')
            layer = ('chain', fam, other.table, other.j)
            if lo is fam.n:
                self.layers.append(layer)
            else:
                self.layers[-1] = layer
        elif isinstance(other, Overlay):
            self.layers.extend(other.layers)
        elif isinstance(other, dict) and not other:
            pass
        else:
            raise EngineEscape('update(%r)' % (other,))
        self.touched()

    def copy(self):
        return Overlay(self.layers)

    def havoc(self, L, layers):
        self.layers = list(layers)
        self._hav = L

    # --- reading the built table at KEY (specification side) ---
    def lookup(self):
        """returns [(condition, source description)] in priority order (first true wins)"""
        out = []
        for layer in reversed(self.layers):
            if layer[0] == 'table':
                out.append((layer[1].has, ('table', layer[1].label)))
            else:
                _, fam, table, lo = layer
                out.append((('first-base', fam, table, lo), None))
        return out


class BaseTable(Proxy):
    _pyclass = dict

    def __init__(self, fam, table, j):
        self.fam, self.table, self.j = fam, table, j


class BaseObj(Proxy):
    """the j-th base class object (a ClassObject or a runtime class)"""
    def __init__(self, fam, j):
        self.fam, self.j = fam, j

    @property
    def _attrs(self):
        return BaseTable(self.fam, 'class', self.j)

    def call(self, ctx):
        if core.CUR.branch(self.fam.callable(self.j)):
            return BaseInst(self.fam, self.j)
        return None


class BaseInst(Proxy):
    def __init__(self, fam, j):
        self.fam, self.j = fam, j

    @property
    def _attrs(self):
        return BaseTable(self.fam, 'instance', self.j)

    @property
    def _assigned_attrs(self):
        return BaseTable(self.fam, 'assigned', self.j)

    @property
    def cls(self):
        inst = self

        class Assigns(object):
            def get(self, key, default=None):
                return BaseTable(inst.fam, 'direct', inst.j)

        class Top(object):
            def assigns(self, ctx):
                return Assigns()

        class Scope(object):
            top = Top()

        class Cls(object):
            scope = Scope()
        return Cls()

    def sbool(self):
        return SBool(z3.BoolVal(True))

    def __bool__(self):
        return True


class BaseList(Proxy):
    _pyclass = list

    def __init__(self, fam, rev=False):
        self.fam, self.rev = fam, rev

    def slen(self):
        return SInt(self.fam.n)

    def elem_at(self, k):
        return BaseObj(self.fam, z3.simplify(self.fam.n - 1 - k) if self.rev else k)

    def __reversed__(self):
        return BaseList(self.fam, not self.rev)

    def __getitem__(self, k):
        # the whole list reversed / copied by a slice; anything else is outside the model
        if isinstance(k, slice) and k.start is None and k.stop is None and k.step in (None, 1, -1):
            return BaseList(self.fam, (not self.rev) if k.step == -1 else self.rev)
        raise EngineEscape('bases[%r]' % (k,))


def selected(overlay, want):
    """z3 Bool: reading `overlay` at KEY selects what the spec `want` says.
    want: list of (condition, expected) in spec priority order, expected = ('table', label) | ('base', fam, table) | None (absent)"""
    # translate the overlay into the same shape
    got = []
    for layer in reversed(overlay.layers):
        if layer[0] == 'table':
            got.append(('table', layer[1].has, layer[1].label))
        else:
            got.append(('chain', layer[1], layer[2], layer[3]))
    return got


def chain_has(fam, table, lo):
    j = z3.Int('cj')
    return z3.Exists([j], z3.And(j >= lo, j < fam.n, fam.has[table](j)))


def overlay_equiv(overlay, spec_layers, facts=()):
    """the overlay selects, at KEY, exactly what the priority list `spec_layers` selects.
    Both are lists of layers; a layer is ('table', has, label) or ('chain', fam, table, lo) (first base from lo on that has it).
    Equivalence is proved layer-wise after dropping layers (the code may apply the same information in a different but equivalent order
    only if the solver can show the selections agree): here we require the same priority order of the same sources."""
    got = selected(overlay, None)
    same_shape = len(got) == len(spec_layers) and all(
        g[0] == s[0] and ((g[0] == 'table' and g[2] == s[2]) or (g[0] == 'chain' and g[1] is s[1] and g[2] == s[2]))
        for g, s in zip(got, spec_layers))
    if not same_shape:
        return None
    cs = []
    i = z3.Int('ei')
    for g, s in zip(got, spec_layers):
        if g[0] == 'chain':
            fam, table = g[1], g[2]
            # the same first holder: the code's chain may start later than the spec's only over bases that hold nothing
            cs.append(z3.And(g[3] >= s[3], z3.ForAll([i], z3.Implies(z3.And(i >= s[3], i < g[3]), z3.Not(fam.has[table](i))))))
    return z3.And(*cs) if cs else z3.BoolVal(True)


def chain_loopspec(name, fam, table, temps=('b', 'o')):
    """for b in reversed(bases): <name>.update(<table of b>): invariant: on top of what <name> held before the loop lies the chain of
    the bases processed so far - first base wins - and the bases processed but not applied hold nothing"""
    i = z3.Int('li')

    def shape(L, ov):
        under = getattr(L, 'under_layers', None)
        if under is None:
            L.under_layers = under = list(ov.layers)
        if len(ov.layers) == len(under):
            return fam.n          # no chain layer yet: chain from n (empty)
        if len(ov.layers) == len(under) + 1 and ov.layers[-1][0] == 'chain' and ov.layers[-1][1] is fam and ov.layers[-1][2] == table:
            return ov.layers[-1][3]
        return None

    def inv(L, st):
        lo = shape(L, st[name])
        if lo is None:
            return z3.BoolVal(False)
        done = fam.n - L.k        # bases done..n-1 have been processed
        return z3.And(lo >= done, lo <= fam.n, z3.ForAll([i], z3.Implies(z3.And(i >= done, i < lo), z3.Not(fam.has[table](i)))))

    def hav(L, st):
        shape(L, st[name])
        lo = core.fresh('chain_lo', Int)
        st[name].havoc(L, L.under_layers + [('chain', fam, table, lo)])
        return {}
    return LoopSpec(inv, hav, temps=temps)


def norm_overlay(ov):
    """drop empty chains (lo == n is `no base`)"""
    return ov


ATTR_REPLAY = '''import sys; sys.path.insert(0, %(repo)r)
from supp.assistant import location, assist
from supp.project import Project
src = "class Base:\\n    def over(self):\\n        pass\\n    def base_only(self):\\n        self.b = 1\\nclass D(Base):\\n    def over(self):\\n        self.d = 2\\nD().over\\n"
loc = location(Project(['/nonexistent']), src, (9, 8), 'f.py')
if loc != [{'loc': (7, 8), 'file': 'f.py'}]:
    print('REPRODUCED: D().over resolves to %%r; Python selects D.over at (7, 8)' %% (loc,)); sys.exit(1)
props = assist(Project(['/nonexistent']), src, (9, 4), 'f.py')[1]
if not {'over', 'base_only', 'b', 'd'} <= set(props):
    print('REPRODUCED: attributes of D(): %%r' %% (props,)); sys.exit(1)
print('not reproduced')
'''


class TableList(BaseList):
    """the own tables of the ancestors, in lookup order (any number of them)"""
    def elem_at(self, k):
        return BaseList.elem_at(self, k)._attrs

    def __reversed__(self):
        return TableList(self.fam, not self.rev)

    def __getitem__(self, k):
        r = BaseList.__getitem__(self, k)
        return TableList(r.fam, r.rev)


@harness(['C06'], 'supp.name.ClassObject._attrs', twins=('spec-last-base-wins',))
def class_attrs(run, twin=None):
    """class table == the class's own body over the own tables of its ancestors in lookup order, an earlier one over a later one (any number
    of ancestors): class_lookup along the MRO, first definition wins.  The lookup order itself is the contract of _ancestor_tables (harness
    ancestor_order).  Loop invariant: attrs == the tables of the last k ancestors, earlier over later"""
    run.trust(T_PARAM)
    run.concretise = lambda model, ob: {'input': 'class D(Base) overriding a method', 'script': ATTR_REPLAY % {'repo': core.REPO}}
    fam = BaseFamily('bases', ['class'])
    own = Src(z3.Bool('own_body_has_k'), 'own class body')
    f = loader.load('supp.name', 'ClassObject._attrs', cuts={0: chain_loopspec('attrs', fam, 'class', ('table', 'b'))}, displays={'dict': Overlay},
                    stubs={'dict': lambda x=None: Overlay() if x is None else (x.copy() if isinstance(x, Proxy) else dict(x))})

    class Self(object):
        bases = BaseList(fam)
        _ancestor_tables = TableList(fam)
        _cls_attrs = SrcTable(own)

    def body():
        assume(fam.n >= 0)
        return f(Self())

    def on_path(p, out):
        if out[0] != 'ok' or not isinstance(out[1], Overlay):
            prove('returns-the-built-table', False, path=p)
            return
        spec = [('table', own.has, 'own class body'), ('chain', fam, 'class', z3.IntVal(0))]
        if twin:
            spec = [('chain', fam, 'class', z3.IntVal(0)), ('table', own.has, 'own class body')]
        eq = overlay_equiv(out[1], spec)
        prove('own-body-first-then-bases-in-order', eq if eq is not None else False,
              clause='class_lookup: the class\'s own definition, else the first base (in order) that has one', path=p)
    core.explore(body, on_path)


@harness(['C06'], 'supp.name.ClassObject._ancestor_tables')
def ancestor_order(run):
    """the tables attributes are inherited from come in the order of the class's MRO as CPython computes it (C3): for every hierarchy of up
    to 5 source classes over `object` (every assignment of bases that CPython accepts), built both as real classes and as supp ClassObjects"""
    import itertools
    import supp.name as Nm

    def go(path):
        names = ['A', 'B', 'C', 'D', 'E']
        checked = 0
        # class i may inherit from any ordered selection of up to 2 earlier classes, optionally with an explicit object at the end
        options = {}
        for i, n in enumerate(names):
            earlier = names[:i]
            opts = [()]
            for r in (1, 2):
                opts += list(itertools.permutations(earlier, r))
            opts += [o + ('object',) for o in list(opts)]
            # builtin bases other than object, before and after the source bases
            opts += [('dict',) + o for o in list(opts)[:3]] + [o + ('Exception',) for o in list(opts)[:3]] + [('ValueError',) + o for o in list(opts)[1:3]]
            options[n] = opts
        import random
        rnd = random.Random(1234)
        combos = []
        for n_cls in (2, 3, 4):
            all_c = list(itertools.product(*[options[n] for n in names[:n_cls]]))
            combos += all_c if len(all_c) <= 1500 else rnd.sample(all_c, 1500)
        all5 = [tuple(rnd.choice(options[n]) for n in names) for _ in range(800)]
        bad = None
        for combo in combos + all5:
            real = {'object': object, 'dict': dict, 'Exception': Exception, 'ValueError': ValueError}
            runtime = [object, dict, Exception, ValueError, BaseException]
            ok = True
            for n, bases in zip(names, combo):
                try:
                    real[n] = type(n, tuple(real[b] for b in bases), {})
                except TypeError:
                    ok = False          # CPython refuses the hierarchy (no consistent MRO / duplicate base)
                    break
            if not ok:
                continue
            # the same hierarchy as supp objects
            objs = {}
            runtime_object = Nm.RuntimeName('object', object)

            class CO(Nm.ClassObject):
                # the class body's own table is given; everything else is the real ClassObject
                _cls_attrs = property(lambda self: self._own)

            def mk(n, bases):
                o = loader.bare_instance(CO)
                o.scope = ('scope-of', n)
                o._own = {'table-of': n}
                o.__dict__['bases'] = [objs[b] if b in objs else Nm.RuntimeName(b, real[b]) for b in bases]
                return o
            for n, bases in zip(names, combo):
                objs[n] = mk(n, bases)
            top = names[len(combo) - 1]
            got = []
            for t in objs[top]._ancestor_tables:
                if 'table-of' in t:
                    got.append(t['table-of'])
                else:
                    ks = [k.__name__ for k in runtime if set(t) == set(vars(k)) and all(getattr(t[x], 'value', None) is vars(k)[x] for x in vars(k))]
                    got.append(ks[0] if ks else '?')
            want = [c.__name__ for c in real[top].__mro__[1:]]
            if 'object' not in got:
                want = [w for w in want if w != 'object']       # object is there only when some class names a runtime base
            checked += 1
            if got != want and bad is None:
                bad = (combo, got, want)
        prove('ancestors-in-mro-order', bad is None,
              clause='%d hierarchies: the ancestors\' tables come in the order of type.__mro__ [first difference: bases %r give %r, CPython %r]' % (
                  (checked,) + (bad or (None, None, None))), path=path)
        prove('hierarchies-checked', checked > 1000, kind='lemma', path=path)
    core.explore(lambda: None, lambda p, out: go(p))


@harness(['C06'], 'supp.name.InstanceValue._attrs / _assigned_attrs', twins=('spec-class-table-over-assignments',))
def instance_attrs(run, twin=None):
    """instance table == attributes assigned through self in the class's own methods, over those assigned in the bases' methods (earlier
    base first), over the class table (class_lookup): an instance assignment wins if there is one, otherwise the first class in the MRO that
    defines the attribute - in particular a base's CLASS attributes never override the subclass's own"""
    run.trust(T_PARAM)
    run.concretise = lambda model, ob: {'input': 'class D(Base) overriding a method', 'script': ATTR_REPLAY % {'repo': core.REPO}}
    fam = BaseFamily('bases', ['class', 'instance', 'assigned', 'direct'])
    import supp.name as _Nm
    BaseInst._pyclass = _Nm.InstanceValue
    cls_tab = Src(z3.Bool('class_lookup_has_k'), 'class table (class_lookup)')
    own_assign = Src(z3.Bool('own_methods_assign_k'), 'own self-assignments')
    import supp.name as Nm
    has_assigned = hasattr(Nm.InstanceValue, '_assigned_attrs')

    class Assigns(object):
        def get(self, key, default=None):
            return SrcTable(own_assign)

    class Top(object):
        def assigns(self, ctx):
            return Assigns()

    class Scope(object):
        top = Top()

    class Cls(object):
        bases = BaseList(fam)
        _attrs = SrcTable(cls_tab)
        scope = Scope()

    chain_inv = lambda name, table: chain_loopspec(name, fam, table)

    if has_assigned:
        f_as = loader.load('supp.name', 'InstanceValue._assigned_attrs', cuts={0: chain_inv('attrs', 'assigned')}, displays={'dict': Overlay})
        f_at = loader.load('supp.name', 'InstanceValue._attrs')
    else:
        f_at = loader.load('supp.name', 'InstanceValue._attrs', cuts={0: chain_inv('attrs', 'instance')})

    def body():
        assume(fam.n >= 0)
        j = z3.Int('bj')
        # bases that cannot be instantiated contribute no instance attributes
        axiom(z3.ForAll([j], z3.Implies(z3.Not(fam.callable(j)), z3.And(z3.Not(fam.has['assigned'](j)), z3.Not(fam.has['instance'](j))))))

        class Self(object):
            cls = Cls()
            ctx = None
        s = Self()
        if has_assigned:
            s._assigned_attrs = f_as(s)
        return f_at(s)

    def on_path(p, out):
        if out[0] != 'ok' or not isinstance(out[1], Overlay):
            prove('returns-the-built-table', False, path=p)
            return
        spec = [('table', own_assign.has, 'own self-assignments'), ('chain', fam, 'assigned', z3.IntVal(0)),
                ('table', cls_tab.has, 'class table (class_lookup)')]
        if twin:
            spec = [('table', cls_tab.has, 'class table (class_lookup)'), ('table', own_assign.has, 'own self-assignments'),
                    ('chain', fam, 'assigned', z3.IntVal(0))]
        eq = overlay_equiv(out[1], spec)
        prove('instance-assignment-first-then-class-lookup', eq if eq is not None else False,
              clause='inst_lookup: own self-assignments, then the bases\' (in order), then the class table - never a base\'s class attributes '
                     'over the subclass\'s own', path=p)
    core.explore(body, on_path)


# ---------------------------------------------------------------------------
# merge objects and the attribute-assignment grouping

@harness(['C06', 'C17'], 'supp.name.{Object,CompositeValue,MultiValue,AdditionalNameWrapper}.{get_attr,attr_list}')
def merge_objects(run):
    """get_attr: the first non-None answer in order (CompositeValue / MultiValue: over the values; AdditionalNameWrapper: the wrapped module
    first, then the sibling-import names); attr_list: the union of the parts' attribute names"""
    import supp.name as Nm

    class Part(Nm.Object):
        def __init__(self, attrs):
            self._attrs = attrs

    def go(path):
        a, b, c = object(), object(), object()
        p1, p2, p3 = Part({'x': a}), Part({'x': b, 'y': c}), Part({})
        cv = Nm.CompositeValue([p3, p1, p2])
        prove('composite-first-non-none', cv.get_attr(None, 'x') is a and cv.get_attr(None, 'y') is c and cv.get_attr(None, 'z') is None, path=path)
        prove('composite-union', cv.attr_list(None) == {'x', 'y'}, path=path)

        class AA(object):
            def __init__(self, v):
                self.v = v

            def resolve(self, ctx):
                return self.v
        mv = Nm.MultiValue(AA(p3))
        mv.add(AA(None))
        mv.add(AA(p2))
        other = Nm.MultiValue(AA(p1))
        mv.add(other)
        prove('multivalue-add-keeps-order-and-flattens', len(mv.values) == 4 and mv.values[3] is other.values[0], path=path)
        prove('multivalue-first-non-none', mv.get_attr(None, 'x') is b and mv.get_attr(None, 'y') is c and mv.get_attr(None, 'q') is None, path=path)
        prove('multivalue-union', mv.attr_list(None) == {'x', 'y'}, path=path)
        prove('multivalue-resolved-values-memoised', mv.get_rvalues(None) is mv.get_rvalues(None) and mv.get_rvalues(None) == [p3, p2, p1], path=path)
        w = Nm.AdditionalNameWrapper(p2, {'x': 'sibling-x', 's': 'sibling-s'})
        prove('wrapper-module-first-then-sibling-imports', w.get_attr(None, 'x') is b and w.get_attr(None, 's') == 'sibling-s' and w.get_attr(None, 'zz') is None, path=path)
        prove('wrapper-union', set(w.attr_list(None)) == {'x', 'y', 's'}, path=path)
        o = Part({'x': a})
        prove('object-table-lookup', o.get_attr(None, 'x') is a and o.get_attr(None, 'n') is None and o.attr_list(None) is o._attrs, path=path)
    core.explore(lambda: None, lambda p, out: go(p))


class AttrAssigns(Proxy):
    """_attr_assigns of unknown length: element k is the arbitrary attribute assignment the harness built"""
    _pyclass = list

    def __init__(self, item):
        self.item = item
        self.n = z3.Int('n_attr_assigns')

    def slen(self):
        return SInt(self.n)

    def elem_at(self, k):
        return self.item


@harness(['C06'], 'supp.scope.SourceScope.assigns', twins=('spec-keyed-by-attribute-only',))
def assigns_grouping(run, twin=None):
    """assigns(ctx): groups the recorded attribute assignments `recv.attr = value` by the object the receiver evaluates to, then by
    attribute name; nothing is dropped when the receiver is a plain name with a value, nothing is added otherwise.  Loop invariant:
    result == the grouping of the first k assignments (checked on an arbitrary one: it lands under (its receiver's object, its attribute)
    as an AssignedAttribute declared at the attribute node)"""
    import ast
    import supp.scope as S
    import supp.name as Nm
    holder = {}

    class Groups(Mutable):
        _pyclass = dict

        def __init__(self):
            self.groups = {}
            self.log = []

        def setdefault(self, key, default):
            self.touched()
            if key not in self.groups:
                self.groups[key] = default
            return self.groups[key]

        def havoc(self, L, _):
            self.groups, self.log = {}, []
            self._hav = L

    def inv(L, st):
        r = st['result']
        if not r.groups:
            return z3.BoolVal(True)
        want = holder['want']
        if want is None:
            return z3.BoolVal(False)
        obj, attr = want
        ok = list(r.groups) == [obj] and list(r.groups[obj]) == [attr]
        if ok:
            mv = r.groups[obj][attr]
            ok = isinstance(mv, Nm.MultiValue) and len(mv.values) == 1 and isinstance(mv.values[0], Nm.AssignedAttribute) \
                and mv.values[0].attr is holder['attr_node'] and mv.values[0].value is holder['value'] \
                and mv.values[0].declared_at == (holder['attr_node'].lineno, holder['attr_node'].col_offset)
        return z3.BoolVal(bool(ok))

    def hav(L, st):
        st['result'].havoc(L, None)
        return {}
    f = loader.load('supp.scope', 'SourceScope.assigns', cuts={0: LoopSpec(inv, hav, temps=('_scope', 'attr', 'value', 'attr_val', 'attrs', 'assigned_attr'))},
                    displays={'dict': lambda: Groups() if 'outer' not in holder else {}})
    recv_obj = object()
    for label, recv, evaluates in (('name-receiver-with-value', 'name', recv_obj), ('name-receiver-without-value', 'name', None),
                                   ('call-receiver', 'call', recv_obj)):
        def body(label=label, recv=recv, evaluates=evaluates):
            run.case = label
            holder.clear()
            src = 'self.a = 1' if recv == 'name' else 'f().a = 1'
            node = ast.parse(src).body[0]
            attr = node.targets[0]
            holder.update(attr_node=attr, value=node.value, want=(evaluates, 'a') if (recv == 'name' and evaluates is not None) else None)
            if twin and holder['want']:
                holder['want'] = (None, 'a')

            class Ctx(object):
                def evaluate(self, n):
                    return evaluates

            class Self(S.SourceScope):
                pass
            s = loader.bare_instance(Self)
            # the scope the assignment stands in: a real method scope in a real class scope (whatever the code asks of it)
            cls_scope = loader.bare_instance(S.ClassScope, parent=s, top=s, name='K')
            meth_scope = loader.bare_instance(S.FuncScope, parent=cls_scope, top=s, name='m')
            s._attr_assigns = AttrAssigns((meth_scope, attr, node.value))
            # the displays hook turns BOTH `{}` into proxies; the inner per-object dict must be a real dict
            made = []

            def mk():
                if not made:
                    made.append(1)
                    return Groups()
                return {}
            f.__globals__['__mkdict__'] = mk
            return f(s, Ctx())

        def on_path(p, out):
            if out[0] != 'ok':
                prove('no-exception(%s)' % type(out[1]).__name__, False, path=p)
        core.explore(body, on_path)
    run.case = None


@harness(['C06'], 'supp.scope.FuncScope.get_argument / resolve')
def method_self(run):
    """the first parameter of a function defined directly in a class is an instance of that class; other parameters and functions elsewhere
    have no known value; a method decorated with property (or a class with __get__) resolves to the value of its single return"""
    import supp.scope as S
    import supp.name as Nm

    def go(path):
        inst = object()

        class ClsObj(object):
            def call(self, ctx):
                return inst

        class CS(S.ClassScope):
            def __init__(self):
                pass

            def resolve(self, ctx):
                return the_class
        the_class = ClsObj()
        fs = loader.bare_instance(S.FuncScope)
        fs.parent = CS()
        fs.decorator_list = []
        a0 = Nm.ArgumentName([0], 'self', (1, 0), (1, 0), fs)
        a1 = Nm.ArgumentName([1], 'x', (1, 0), (1, 0), fs)
        prove('first-parameter-of-a-method-is-an-instance', fs.get_argument(None, a0) is inst, path=path)
        prove('other-parameters-unknown', fs.get_argument(None, a1) is None, path=path)
        # whatever decorates the method: a property getter / setter, a wrapping decorator, a cache - its first parameter is the instance
        import ast as _ast

        class Ctx(object):
            def evaluate(self, node):
                name = node.id if isinstance(node, _ast.Name) else node.attr if isinstance(node, _ast.Attribute) else 'call'
                if name in ('property', 'staticmethod', 'classmethod'):
                    return Nm.RuntimeName(name, getattr(__builtins__, name, None) if not isinstance(__builtins__, dict) else __builtins__[name], True)
                return None
        for label, dec in (('property', 'property'), ('setter', 'table.setter'), ('source-decorator', 'passthrough'), ('lru_cache', 'functools.lru_cache(None)'),
                           ('two-decorators', None)):
            fs3 = loader.bare_instance(S.FuncScope)
            fs3.parent = CS()
            fs3.decorator_list = ([_ast.parse(dec, mode='eval').body] if dec else
                                  [_ast.parse('functools.wraps(f)', mode='eval').body, _ast.parse('property', mode='eval').body])
            try:
                r3 = fs3.get_argument(Ctx(), Nm.ArgumentName([0], 'self', (1, 0), (1, 0), fs3))
            except Exception as e:
                r3 = e
            prove('first-parameter-of-a-decorated-method-is-an-instance[%s]' % label, r3 is inst,
                  clause='Python binds the first parameter of a %s method to the instance as for a plain method [%r]' % (label, r3), path=path)
        # ... except where the decorator says otherwise: a classmethod is bound to the class, a staticmethod to nothing
        for label, dec, want4 in (('classmethod', ['classmethod'], the_class), ('staticmethod', ['staticmethod'], None),
                                  ('classmethod-under-another-decorator', ['functools.wraps(f)', 'classmethod'], the_class)):
            fs4 = loader.bare_instance(S.FuncScope)
            fs4.parent = CS()
            fs4.decorator_list = [_ast.parse(d_, mode='eval').body for d_ in dec]
            try:
                r4 = fs4.get_argument(Ctx(), Nm.ArgumentName([0], 'cls', (1, 0), (1, 0), fs4))
            except Exception as e:
                r4 = e
            prove('first-parameter-of-a-%s' % label, r4 is want4,
                  clause='Python binds the first parameter of a classmethod to the class (instance attributes are not found through it) and the '
                         'first parameter of a staticmethod to whatever is passed [%r]' % (r4,), path=path)
        fs2 = loader.bare_instance(S.FuncScope)
        fs2.parent = loader.bare_instance(S.SourceScope)
        fs2.decorator_list = []
        try:
            r = fs2.get_argument(None, a0)
        except Exception as e:
            r = e
        prove('plain-function-first-parameter-unknown', r is None, clause='only methods bind their first parameter to an instance [%r]' % (r,), path=path)
    core.explore(lambda: None, lambda p, out: go(p))
