"""Sidecar contracts for supp/nast.py extract_visitor (C01, C02, C03, C13; skeleton reused by C08).

Per-construct obligations on the REAL visitor: a concrete AST node of one kind (skeleton) whose
statement-list / expression children are opaque (`_Stmts`, `_Expr`), with symbolic source positions
constrained only by token order.  Visiting an opaque child is a modular call of `visit` (induction
hypothesis: its effect is an arbitrary gen/kill transfer T_c); the hypothesis fixes the child's
effect, not its representation, so the stub forks: (a) a summary block appended to the current
region, (b) a new region.  The specification view of the region graph the visitor builds is
computed pointwise in one symbolic identifier and compared with the reference transfer functions
of spec/flow.py.
"""
import ast

import z3

from pysym import core, loader
from pysym.core import prove, assume, EngineEscape
from pysym.harness import harness
from pysym.proxies import SInt, SBool, Proxy, lift
from spec import flow as F
from spec.flow import Tr, ID, bind, seq, joins, loop_head, Child, Def, SetD, BOT, EMPTY, Ident

Int = z3.IntSort()
MOD = 'supp.nast'


# ---------------------------------------------------------------------------
# positions

def lt(a, b):
    return z3.Or(a[0] < b[0], z3.And(a[0] == b[0], a[1] < b[1]))


def le(a, b):
    return z3.Not(lt(b, a))


class Pos(object):
    _n = [0]

    def __init__(self, label):
        Pos._n[0] += 1
        self.label = label
        self.l = z3.Int('%s.line%d' % (label, Pos._n[0]))
        self.c = z3.Int('%s.col%d' % (label, Pos._n[0]))

    @property
    def t(self):
        return (self.l, self.c)

    def put(self, node):
        node.lineno, node.col_offset = SInt(self.l), SInt(self.c)
        node._pos = self
        return node


def zpos(loc):
    """(SInt|int, SInt|int) -> pair of z3 terms"""
    return (lift(loc[0]), lift(loc[1]))


def chain(*ps):
    """token order: strictly increasing positions (all lines >= 1, cols >= 0)"""
    cs = []
    for p in ps:
        cs.append(z3.And(p.l >= 1, p.c >= 0))
    for a, b in zip(ps, ps[1:]):
        cs.append(lt(a.t, b.t))
    return cs


# ---------------------------------------------------------------------------
# opaque children

class _Stmts(ast.stmt):
    _fields = ()


class _Expr(ast.expr):
    _fields = ()


class _BindingExpr(_Expr):
    """an opaque expression that may bind: code that asks `is there a walrus in here?` (ast.walk) finds one; the visitor treats the node as a
    whole (visit__Expr) and never descends into the witness"""
    _fields = ('witness',)


class Opaque(Child):
    """spec.flow.Child + source span [start, end) and, for expressions, an arbitrary read position inside it"""

    def __init__(self, kind, label, effects=False):
        Child.__init__(self, kind, label)
        self.effects = effects or kind == 'stmts'
        if effects and kind == 'expr':
            # an expression that may bind (walrus) and may end in a new region (a comprehension inside it)
            self.tr = Tr(self.G, self.P)
        self.start, self.end, self.read = Pos(label + '.start'), Pos(label + '.end'), Pos(label + '.read')
        self.summary_at = Pos(label + '.effect')

    def facts(self):
        return [z3.Not(z3.IsMember(BOT, self.G))] if self.effects else []

    def node(self):
        nd = (_Stmts if self.kind == 'stmts' else _BindingExpr if self.effects else _Expr)()
        if isinstance(nd, _BindingExpr):
            nd.witness = ast.NamedExpr(target=ast.Name(id='_witness', ctx=ast.Store()), value=ast.Constant(value=0))
        nd.child = self
        self.start.put(nd)
        nd.end_lineno, nd.end_col_offset = SInt(self.end.l), SInt(self.end.c)
        return nd

    def span_facts(self):
        s, e, r, q = self.start, self.end, self.read, self.summary_at
        return [s.l >= 1, s.c >= 0, lt(s.t, e.t), le(s.t, r.t), lt(r.t, e.t), le(s.t, q.t), lt(q.t, e.t)] + self.facts()


class Summary(object):
    """fork (a): the child's bindings, as one block inside the current region"""

    def __init__(self, child):
        self.child = child
        self.location = (SInt(child.summary_at.l), SInt(child.summary_at.c))
        self.name = '<summary %s>' % child.label
    # (ordered among the bindings of a region by whatever the code's own Location defines: see make_visitor_class)


def make_visitor_class():
    """subclass of the REAL extract_visitor with the induction hypothesis for opaque children"""
    import supp.nast as N
    import supp.scope as S
    import supp.util as U

    class Summary_(Summary, U.Location):
        """a summary takes part in the region's ordering exactly like a binding: through the real Location"""

    class V(N.extract_visitor):
        def visit__Stmts(self, node):
            c = node.child
            c.visits.append(('stmts', self.flow))
            if core.choice(2) == 0:
                # (a) effects appended to the current region
                sm = Summary_(c)
                c.repr = ('summary', sm, self.flow)
                U.insert_loc(self.flow._names, sm)
            else:
                # (b) the child ends in a new region of the same scope, reached from the current one
                nf = self.top.add_flow(SummaryFlow(c, self.flow))
                c.repr = ('region', nf, self.flow)
                self.flow = nf
                self.flow.scope.flow = nf

        def visit__BindingExpr(self, node):
            return self.visit__Expr(node)

        def visit__Expr(self, node):
            c = node.child
            c.visits.append(('expr', self.flow))
            if c.effects:
                # induction hypothesis for an expression with effects: same two representations as a statement list
                if core.choice(2) == 0:
                    sm = Summary_(c)
                    c.repr = ('summary', sm, self.flow)
                    U.insert_loc(self.flow._names, sm)
                else:
                    nf = self.top.add_flow(SummaryFlow(c, self.flow))
                    c.repr = ('region', nf, self.flow)
                    self.flow = nf
                    self.flow.scope.flow = nf

    class SummaryFlow(S.Flow):
        def __init__(self, child, entry):
            S.Flow.__init__(self, 'summary', entry.scope, [entry])
            self.child, self.entry = child, entry
    V.SummaryFlow = SummaryFlow
    return V


# ---------------------------------------------------------------------------
# specification view of the region graph (pointwise at the symbolic identifier)

class Graph(object):
    def __init__(self, nsym, V0, idents):
        import supp.scope as S
        self.S = S
        self.n = nsym            # the symbolic identifier (z3 const of sort Ident)
        self.V0 = V0             # entry table of the top region at n
        self.idents = idents     # python identifier string -> z3 Ident constant
        self.defs = {}           # id(binding object) -> z3 Def
        self.lfp_checks = []
        self.outer = {}

    def ident(self, s):
        if s not in self.idents:
            self.idents[s] = z3.Const('id_%s' % s, Ident)
        return self.idents[s]

    def def_of(self, b):
        k = id(b)
        if k not in self.defs:
            self.defs[k] = (z3.Const('d_%s_%d' % (getattr(b, 'name', 'x'), len(self.defs)), Def), b)
        return self.defs[k][0]

    def apply_entry(self, e, X):
        """effect of one entry of region._names on the table"""
        if isinstance(e, Summary):
            return e.child.tr(X)
        isn = self.n == self.ident(str(e.name))
        return bind(self.def_of(e), isn)(X)

    def own(self, Fl, X, upto=None, exclude=None, strict=False):
        for e in Fl._names:
            if e is exclude:
                continue
            if upto is None:
                X = self.apply_entry(e, X)
            else:
                loc = zpos(e.location)
                cond = lt(loc, upto) if strict else le(loc, upto)
                X = z3.If(cond, self.apply_entry(e, X), X)
        return X

    def inherited(self, Fl, env):
        S = self.S
        ps = Fl.parents
        if hasattr(Fl, 'child') and hasattr(Fl, 'entry'):
            return Fl.child.tr(self.view_end(Fl.entry, env))
        if not ps:
            return self.entry_table(Fl)
        loops = [p for p in ps if isinstance(p, S.LoopFlow)]
        if loops and any(L not in env for L in loops):
            L = [L for L in loops if L not in env][0]
            # least fixpoint through the back edge, by Kleene iteration from the empty table
            X = EMPTY
            outs = []
            for it in range(3):
                env2 = dict(env)
                env2[L] = X
                X = self.view_end(L.parent, env2)
                outs.append(X)
            self.lfp_checks.append((outs[1], outs[2]))
            env3 = dict(env)
            env3[L] = outs[1]
            return self.inherited(Fl, env3)
        r = None
        for p in ps:
            v = env[p] if isinstance(p, S.LoopFlow) else self.view_end(p, env)
            r = v if r is None else z3.SetUnion(r, v)
        return r

    def entry_table(self, Fl):
        if Fl.scope is self.top_scope:
            return self.V0
        # entry of a nested scope: what Flow.parent_names gives (the scope rule, C05 contracts) - opaque here
        k = id(Fl.scope)
        if k not in self.outer:
            self.outer[k] = z3.Const('OUTER_%d' % len(self.outer), SetD)
        return self.outer[k]

    def view_end(self, Fl, env=None):
        env = env or {}
        return self.own(Fl, self.inherited(Fl, env))

    def view_at(self, Fl, pos, exclude=None, strict=False):
        return self.own(Fl, self.inherited(Fl, {}), upto=pos, exclude=exclude, strict=strict)


# ---------------------------------------------------------------------------
# running one skeleton

class Skeleton(object):
    """built by a construct-specific function: node, opaque children, positional facts, spec"""

    def __init__(self):
        self.facts = []
        self.children = []

    def child(self, kind, label, effects=False):
        c = Opaque(kind, label, effects)
        self.children.append(c)
        self.facts.extend(c.span_facts())
        return c

    def order(self, *ps):
        self.facts.extend(chain(*ps))


def run_skeleton(build, check):
    """build() -> Skeleton with .node ; check(sk, graph, visitor, path) emits the obligations"""
    import supp.scope as S
    import supp.util as U
    VC = make_visitor_class()
    holder = {}

    def body():
        sk = build()
        for f in sk.facts:
            assume(f)
        src = U.Source('pass')
        top = S.SourceScope(src)
        top.parent = None
        top.find_id_loc = lambda id, start, shift=0, delimeters=True, end_line=None: start   # contract: some position (C11)
        v = VC()
        v.top = top
        v.flow = top.flow
        holder.update(sk=sk, v=v, top=top)
        # real get_expr_end is under its own contract (C13): here its contract stands in
        v.visit(sk.node)
        return v

    def on_path(p, out):
        sk = holder['sk']
        if out[0] != 'ok':
            prove('no-exception(%s: %s)' % (type(out[1]).__name__, str(out[1])[:60]), False,
                  clause='the visitor raises nothing on this construct', path=p)
            return
        g = Graph(z3.Const('n', Ident), z3.Const('V0', SetD), {})
        g.top_scope = holder['top']
        # different identifier texts are different identifiers
        texts = set()
        for nd in ast.walk(sk.node):
            for fld in ('id', 'arg', 'name', 'asname'):
                t = getattr(nd, fld, None)
                if type(t) is str:
                    texts.add(t.partition('.')[0])
        ids = [g.ident(t) for t in sorted(texts)]
        if len(ids) > 1:
            p.assume(z3.Distinct(*ids), check=False)
        check(sk, g, holder['v'], p)
        for a, b in g.lfp_checks:
            prove('spec-lfp-stable', a == b, kind='lemma', clause='two Kleene rounds reach the fixpoint (gen/kill form)', path=p)
    core.explore(body, on_path)


def entry_view(g, c, visit_index=0):
    """the table the opaque child c starts from: view of the region it was visited in, at its start position,
    without its own effects"""
    kind, Fl = c.visits[visit_index]
    if c.effects:
        rp = c.repr
        excl = rp[1] if rp[0] == 'summary' else None
        return g.view_at(Fl, c.start.t, exclude=excl)
    return g.view_at(Fl, c.read.t)


def prove_eq(label, got, want, clause, path, facts=()):
    """table equality, split in the two inclusions (superset: C02, subset + unbound component: C03)"""
    hyp = z3.And(*facts) if facts else z3.BoolVal(True)
    prove(label + '-superset[C02]', z3.Implies(hyp, z3.IsSubset(want, got)), clause=clause + '  (every reaching definition is reported)', path=path)
    prove(label + '-subset[C03]', z3.Implies(hyp, z3.IsSubset(got, want)), clause=clause + '  (no phantom definition; exact unbound component)', path=path)


# ---------------------------------------------------------------------------
# constructs.  Each spec is the row of DESIGN 2.2 (language reference 8.1-8.4), NOT a reading of nast.py.

def check_entries(sk, g, path, entries, facts):
    """entries: [(child, transfer from the construct's entry table V to the child's entry table)]"""
    for c, tr in entries:
        lab = 'entry-of-%s' % c.label
        if not c.visits:
            prove(lab + '-visited[C01]', False, clause='every sub-expression / sub-statement is analysed (no UNKNOWN NAME)', path=path)
            continue
        if len(c.visits) > 1:
            prove(lab + '-visited-once', False, clause='a child is analysed once', path=path)
        prove_eq(lab, entry_view(g, c), tr(g.V0), 'the table %s starts from is the one the language prescribes' % c.label, path, facts)


def check_exit(sk, g, v, path, tr, facts):
    prove_eq('exit', g.view_end(v.flow), tr(g.V0), 'the table after the construct', path, facts)
    prove('exit-scope-flow-updated', v.flow.scope.flow is v.flow or v.flow is g.top_scope.flow,
          clause='the scope\'s current region is the exit region', path=path)


def all_facts(sk):
    out = []
    for c in sk.children:
        out.extend(c.facts())
    return out


@harness(['C02', 'C03', 'C01', 'C13'], 'supp.nast.extract_visitor.visit_If', twins=('spec-else-not-joined',))
def v_if(run, twin=None):
    """if t: B else: O   —  t starts from V; B and O from T_t(V) (t may bind: walrus, and may end in a new region: comprehension);
    exit = T_B(T_t V) | T_O(T_t V)"""
    def build():
        sk = Skeleton()
        t, b, o = sk.child('expr', 'test', effects=True), sk.child('stmts', 'body'), sk.child('stmts', 'orelse')
        kw = Pos('if')
        sk.order(kw, t.start)
        sk.facts += [le(t.end.t, b.start.t), le(b.end.t, o.start.t)]
        sk.node = kw.put(ast.If(test=t.node(), body=[b.node()], orelse=[o.node()]))
        sk.t, sk.b, sk.o = t, b, o
        return sk

    def check(sk, g, v, path):
        fs = all_facts(sk)
        check_entries(sk, g, path, [(sk.t, ID), (sk.b, sk.t.tr), (sk.o, sk.t.tr)], fs)
        ex = sk.t.tr.then(sk.b.tr.join(sk.o.tr) if not twin else sk.b.tr)
        check_exit(sk, g, v, path, ex, fs)
    run_skeleton(build, check)
    if twin:
        return

    # if t: B elif t2: B2 else: O2  -  the else clause is one nested if: t2 (which may bind) is evaluated only when t was false
    def build_elif():
        sk = Skeleton()
        t, b = sk.child('expr', 'test', effects=True), sk.child('stmts', 'body')
        t2, b2, o2 = sk.child('expr', 'elif-test', effects=True), sk.child('stmts', 'elif-body'), sk.child('stmts', 'else-body')
        kw, kw2 = Pos('if'), Pos('elif')
        sk.order(kw, t.start)
        sk.facts += [le(t.end.t, b.start.t), le(b.end.t, kw2.t), lt(kw2.t, t2.start.t), le(t2.end.t, b2.start.t), le(b2.end.t, o2.start.t)] + px_facts(kw2)
        inner = kw2.put(ast.If(test=t2.node(), body=[b2.node()], orelse=[o2.node()]))
        sk.node = kw.put(ast.If(test=t.node(), body=[b.node()], orelse=[inner]))
        sk.t, sk.b, sk.t2, sk.b2, sk.o2 = t, b, t2, b2, o2
        return sk

    def check_elif(sk, g, v, path):
        fs = all_facts(sk)
        core.RUN.case = 'elif'
        tt = sk.t.tr
        t2 = tt.then(sk.t2.tr)
        check_entries(sk, g, path, [(sk.t, ID), (sk.b, tt), (sk.t2, tt), (sk.b2, t2), (sk.o2, t2)], fs)
        check_exit(sk, g, v, path, joins([tt.then(sk.b.tr), t2.then(sk.b2.tr), t2.then(sk.o2.tr)]), fs)
    run_skeleton(build_elif, check_elif)
    core.RUN.case = None


@harness(['C02', 'C03', 'C01', 'C13'], 'supp.nast.extract_visitor.visit_While')
def v_while(run):
    """while t: B else: O  —  loop head H = lfp X. V | T_B(T_t(X)); t starts from H; B and O from T_t(H) (t may bind and may end in a new
    region); exit = T_O(T_t(H))"""
    def build():
        sk = Skeleton()
        t, b, o = sk.child('expr', 'test', effects=True), sk.child('stmts', 'body'), sk.child('stmts', 'orelse')
        kw = Pos('while')
        sk.order(kw, t.start)
        sk.facts += [le(t.end.t, b.start.t), le(b.end.t, o.start.t)]
        sk.node = kw.put(ast.While(test=t.node(), body=[b.node()], orelse=[o.node()]))
        sk.t, sk.b, sk.o = t, b, o
        return sk

    def check(sk, g, v, path):
        fs = all_facts(sk)
        H = loop_head(ID, sk.t.tr.then(sk.b.tr))
        Ht = H.then(sk.t.tr)
        check_entries(sk, g, path, [(sk.t, H), (sk.b, Ht), (sk.o, Ht)], fs)
        check_exit(sk, g, v, path, Ht.then(sk.o.tr), fs)
    run_skeleton(build, check)


def name_node(ident, pos, ctx=None):
    return pos.put(ast.Name(id=ident, ctx=ctx or ast.Store()))


def binding_for(g, flow_or_flows, target_node):
    """the binding object the visitor created for a target Name node: same identifier, declared_at == np(node)"""
    found = []
    for Fl in g.top_scope._all_flows:
        for e in Fl._names:
            if isinstance(e, Summary):
                continue
            if str(e.name) == target_node.id and getattr(e, 'declared_at', None) is not None \
                    and e.declared_at[0] is target_node.lineno and e.declared_at[1] is target_node.col_offset:
                found.append((Fl, e))
    return found


@harness(['C02', 'C03', 'C01', 'C13'], 'supp.nast.extract_visitor.visit_For')
def v_for(run):
    """for x in e: B else: O  —  e starts from V; H = lfp X. V | T_B(X[x:=d]); B starts from H[x:=d]; O from H; exit T_O(H)"""
    def build():
        sk = Skeleton()
        e, b, o = sk.child('expr', 'iter', effects=True), sk.child('stmts', 'body'), sk.child('stmts', 'orelse')
        kw, px = Pos('for'), Pos('target')
        sk.order(kw, px, e.start)
        sk.facts += [le(e.end.t, b.start.t), le(b.end.t, o.start.t)]
        x = name_node('x', px)
        sk.node = kw.put(ast.For(target=x, iter=e.node(), body=[b.node()], orelse=[o.node()]))
        sk.x, sk.e, sk.b, sk.o = x, e, b, o
        return sk

    def check(sk, g, v, path):
        fs = all_facts(sk)
        bs = binding_for(g, None, sk.x)
        prove('target-bound-once[C01]', len(bs) == 1, clause='the loop target creates exactly one binding, positioned at the target', path=path)
        if len(bs) != 1:
            return
        d = g.def_of(bs[0][1])
        bx = bind(d, g.n == g.ident('x'))
        H = loop_head(sk.e.tr, bx.then(sk.b.tr))
        check_entries(sk, g, path, [(sk.e, ID), (sk.b, H.then(bx)), (sk.o, H)], fs)
        check_exit(sk, g, v, path, H.then(sk.o.tr), fs)
    run_skeleton(build, check)


@harness(['C02', 'C03', 'C01', 'C13'], 'supp.nast.extract_visitor.visit_IfExp / visit_BoolOp / visit_Compare / visit_Assert')
def v_conditional_expressions(run):
    """B if t else O  (arms that may bind):  t from V; B and O from T_t(V); afterwards T_B(T_t V) | T_O(T_t V).
    v0 or v1 or v2  (operands that may bind): v0 from V, v1 from T_v0(V), v2 from T_v1(T_v0 V); afterwards any prefix may have been evaluated:
    T_v0(V) | T_v1(T_v0 V) | T_v2(T_v1(T_v0 V)).
    a < c0 < c1 < c2  (comparators that may bind): as the operands, but a and c0 are both evaluated before anything can be skipped.
    assert t, m  (a message that may bind): m from T_t(V); afterwards T_t(V) - the message is evaluated only when the statement raises"""
    def build_ifexp():
        sk = Skeleton()
        t, b, o = sk.child('expr', 'test', effects=True), sk.child('expr', 'body', effects=True), sk.child('expr', 'orelse', effects=True)
        kw = Pos('ifexp')
        # written  B if t else O
        sk.order(kw, b.start)
        sk.facts += [le(b.end.t, t.start.t), le(t.end.t, o.start.t)]
        sk.node = kw.put(ast.IfExp(test=t.node(), body=b.node(), orelse=o.node()))
        sk.t, sk.b, sk.o = t, b, o
        return sk

    def check_ifexp(sk, g, v, path):
        fs = all_facts(sk)
        tt = sk.t.tr
        check_entries(sk, g, path, [(sk.t, ID), (sk.b, tt), (sk.o, tt)], fs)
        check_exit(sk, g, v, path, tt.then(sk.b.tr).join(tt.then(sk.o.tr)), fs)
    run_skeleton(build_ifexp, check_ifexp)

    def build_boolop():
        sk = Skeleton()
        v0, v1, v2 = sk.child('expr', 'operand0', effects=True), sk.child('expr', 'operand1', effects=True), sk.child('expr', 'operand2', effects=True)
        kw = Pos('boolop')
        sk.order(kw, v0.start)
        sk.facts += [le(v0.end.t, v1.start.t), le(v1.end.t, v2.start.t)]
        sk.node = kw.put(ast.BoolOp(op=ast.Or(), values=[v0.node(), v1.node(), v2.node()]))
        sk.v0, sk.v1, sk.v2 = v0, v1, v2
        return sk

    def check_boolop(sk, g, v, path):
        fs = all_facts(sk)
        t0 = sk.v0.tr
        t1 = t0.then(sk.v1.tr)
        t2 = t1.then(sk.v2.tr)
        check_entries(sk, g, path, [(sk.v0, ID), (sk.v1, t0), (sk.v2, t1)], fs)
        check_exit(sk, g, v, path, joins([t0, t1, t2]), fs)
    run_skeleton(build_boolop, check_boolop)

    # a < c0 < c1 < c2  (comparators that may bind): a and c0 are always evaluated, every further comparator only if the chain held so far
    def build_compare():
        sk = Skeleton()
        a, c0, c1, c2 = (sk.child('expr', 'left', effects=True), sk.child('expr', 'comparator0', effects=True),
                         sk.child('expr', 'comparator1', effects=True), sk.child('expr', 'comparator2', effects=True))
        kw = Pos('compare')
        sk.order(kw, a.start)
        sk.facts += [le(a.end.t, c0.start.t), le(c0.end.t, c1.start.t), le(c1.end.t, c2.start.t)]
        sk.node = kw.put(ast.Compare(left=a.node(), ops=[ast.Lt(), ast.Lt(), ast.Lt()], comparators=[c0.node(), c1.node(), c2.node()]))
        sk.a, sk.c0, sk.c1, sk.c2 = a, c0, c1, c2
        return sk

    def check_compare(sk, g, v, path):
        fs = all_facts(sk)
        core.RUN.case = 'compare'
        ta = sk.a.tr
        t0 = ta.then(sk.c0.tr)
        t1 = t0.then(sk.c1.tr)
        t2 = t1.then(sk.c2.tr)
        check_entries(sk, g, path, [(sk.a, ID), (sk.c0, ta), (sk.c1, t0), (sk.c2, t1)], fs)
        check_exit(sk, g, v, path, joins([t0, t1, t2]), fs)
    run_skeleton(build_compare, check_compare)

    # assert t, m  (a message that may bind): m is evaluated from T_t(V) when the assertion has failed; what follows continues from T_t(V)
    def build_assert():
        sk = Skeleton()
        t, m = sk.child('expr', 'test', effects=True), sk.child('expr', 'msg', effects=True)
        kw = Pos('assert')
        sk.order(kw, t.start)
        sk.facts += [le(t.end.t, m.start.t)]
        sk.node = kw.put(ast.Assert(test=t.node(), msg=m.node()))
        sk.t, sk.m = t, m
        return sk

    def check_assert(sk, g, v, path):
        fs = all_facts(sk)
        core.RUN.case = 'assert'
        check_entries(sk, g, path, [(sk.t, ID), (sk.m, sk.t.tr)], fs)
        check_exit(sk, g, v, path, sk.t.tr, fs)
    run_skeleton(build_assert, check_assert)
    core.RUN.case = None


@harness(['C02', 'C03', 'C01', 'C13'], 'supp.nast.extract_visitor.visit_Try')
def v_try(run):
    """try: B except E1 as n1: H1 except: H2 else: O finally: F  (exceptions only at the first or last statement of B, always caught)
    handler entry HE = V | T_B(V); E_i read in HE; H_i starts from HE[n_i:=d_i]; O from T_B(V);
    F from  T_O(T_B V) | T_H1(..) | T_H2(..);  exit = T_F(that)"""
    def build():
        sk = Skeleton()
        b, e1, h1, h2, o, f = (sk.child('stmts', 'body'), sk.child('expr', 'exctype'), sk.child('stmts', 'handler1'),
                               sk.child('stmts', 'handler2'), sk.child('stmts', 'orelse'), sk.child('stmts', 'finalbody'))
        kw, k1, k2 = Pos('try'), Pos('except1'), Pos('except2')
        sk.order(kw, b.start)
        sk.facts += [le(b.end.t, k1.t), lt(k1.t, e1.start.t), le(e1.end.t, h1.start.t), le(h1.end.t, k2.t), lt(k2.t, h2.start.t),
                     le(h2.end.t, o.start.t), le(o.end.t, f.start.t)]
        H1 = k1.put(ast.ExceptHandler(type=e1.node(), name='err', body=[h1.node()]))
        H2 = k2.put(ast.ExceptHandler(type=None, name=None, body=[h2.node()]))
        sk.node = kw.put(ast.Try(body=[b.node()], handlers=[H1, H2], orelse=[o.node()], finalbody=[f.node()]))
        sk.b, sk.e1, sk.h1, sk.h2, sk.o, sk.f, sk.H1 = b, e1, h1, h2, o, f, H1
        return sk

    def check(sk, g, v, path):
        fs = all_facts(sk)
        # the handler name binding: declared at the except clause (the property's own rule)
        cands = [(Fl, e) for Fl in g.top_scope._all_flows for e in Fl._names
                 if not isinstance(e, Summary) and str(e.name) == 'err']
        prove('handler-name-bound-once[C01]', len(cands) == 1, path=path)
        if len(cands) != 1:
            return
        d = g.def_of(cands[0][1])
        bn = bind(d, g.n == g.ident('err'))
        HE = ID.join(sk.b.tr)
        after = joins([sk.b.tr.then(sk.o.tr), HE.then(bn).then(sk.h1.tr), HE.then(sk.h2.tr)])
        check_entries(sk, g, path, [(sk.b, ID), (sk.e1, HE), (sk.h1, HE.then(bn)), (sk.h2, HE), (sk.o, sk.b.tr), (sk.f, after)], fs)
        check_exit(sk, g, v, path, after.then(sk.f.tr), fs)
    run_skeleton(build, check)


def prove_between(label, got, lo, hi, clause, path, facts=()):
    """lo <= got <= hi: the lower bound is what the property's domain requires to be reported (C02), the upper bound what Python's semantics
    allows to be reported (C03)"""
    hyp = z3.And(*facts) if facts else z3.BoolVal(True)
    prove(label + '-superset[C02]', z3.Implies(hyp, z3.IsSubset(lo, got)), clause=clause + '  (every reaching definition is reported)', path=path)
    prove(label + '-subset[C03]', z3.Implies(hyp, z3.IsSubset(got, hi)), clause=clause + '  (no phantom definition; exact unbound component)', path=path)


@harness(['C02', 'C03', 'C01', 'C13'], 'supp.nast.extract_visitor.visit_Try[body of several statements]')
def v_try_statements(run):
    """try: B1; B2 except: H   -  an exception raised by the LAST statement of the body leaves it with what the statements before it bound:
    the handler starts from at least  V | T_B1(V)  (the property's domain: first or last statement) and from at most
    V | T_B1(V) | T_B2(T_B1 V)  (Python lets every statement raise);  B2 starts from T_B1(V);  exit = T_B2(T_B1 V) | T_H(handler entry)"""
    def build():
        sk = Skeleton()
        b1, b2, h = sk.child('stmts', 'body1'), sk.child('stmts', 'body2'), sk.child('stmts', 'handler')
        kw, k1 = Pos('try'), Pos('except')
        sk.order(kw, b1.start)
        sk.facts += [le(b1.end.t, b2.start.t), le(b2.end.t, k1.t), lt(k1.t, h.start.t)]
        H = k1.put(ast.ExceptHandler(type=None, name=None, body=[h.node()]))
        sk.node = kw.put(ast.Try(body=[b1.node(), b2.node()], handlers=[H], orelse=[], finalbody=[]))
        sk.b1, sk.b2, sk.h = b1, b2, h
        return sk

    def check(sk, g, v, path):
        fs = all_facts(sk)
        lo = ID.join(sk.b1.tr)
        hi = lo.join(sk.b1.tr.then(sk.b2.tr))
        check_entries(sk, g, path, [(sk.b1, ID), (sk.b2, sk.b1.tr)], fs)
        c = sk.h
        if not c.visits:
            prove('entry-of-handler-visited[C01]', False, path=path)
            return
        prove_between('entry-of-handler', entry_view(g, c), lo(g.V0), hi(g.V0),
                      'the handler starts from what an exception at the first or at the last statement of the body leaves', path, fs)
        done = sk.b1.tr.then(sk.b2.tr)
        prove_between('exit', g.view_end(v.flow), done.join(lo.then(sk.h.tr))(g.V0), done.join(hi.then(sk.h.tr))(g.V0),
                      'the table after the construct', path, fs)
    run_skeleton(build, check)


# ---------------------------------------------------------------------------
# simple statements and expressions that bind

class ExprEnd(object):
    """contract of util.get_expr_end (verified in C13 harness get_expr_end): a position after every read of the
    expression and not after the next token"""


def patch_expr_end():
    """get_expr_end on an opaque expression returns its `end` position (contract); on real nodes the real one runs"""
    import supp.nast as N
    import supp.util as U
    real = U.get_expr_end

    def stub(node):
        if isinstance(node, _Expr):
            c = node.child
            return (SInt(c.end.l), SInt(c.end.c))
        return real(node)
    N.get_expr_end = stub


def targets_of(sk, idents, after):
    """a tuple target (a, *b, (c, d))-like with the given identifiers, positions increasing after `after`"""
    ps = [Pos('t_' + i) for i in idents]
    sk.order(after, *ps)
    names = [name_node(i, p) for i, p in zip(idents, ps)]
    return names, ps


@harness(['C02', 'C03', 'C01', 'C13'], 'supp.nast.extract_visitor.visit_Assign')
def v_assign(run):
    """x = y, *z = (u, v) = e   (simple, tuple, starred, chained):  e starts from V; afterwards every target is bound to its
    own definition; the binding is not visible inside e and is visible right after the statement"""
    def build():
        patch_expr_end()
        sk = Skeleton()
        e = sk.child('expr', 'value', effects=True)
        kw = Pos('assign')
        (x, y, z, u, w), ps = targets_of(sk, ['x', 'y', 'z', 'u', 'w'], kw)
        sk.facts += [lt(ps[-1].t, e.start.t)]
        t1 = kw.put(ast.Name(id='x', ctx=ast.Store()))
        x = ps[0].put(ast.Name(id='x', ctx=ast.Store()))
        tup1 = ps[1].put(ast.Tuple(elts=[y, ps[2].put(ast.Starred(value=z, ctx=ast.Store()))], ctx=ast.Store()))
        tup2 = ps[3].put(ast.List(elts=[u, ast.Tuple(elts=[w], ctx=ast.Store())], ctx=ast.Store()))
        nxt = Pos('next-statement')
        sk.facts += [le(e.end.t, nxt.t)]
        sk.node = kw.put(ast.Assign(targets=[x, tup1, tup2], value=e.node()))
        sk.e, sk.targets, sk.nxt = e, [x, y, z, u, w], nxt
        return sk

    def check(sk, g, v, path):
        fs = all_facts(sk)
        check_entries(sk, g, path, [(sk.e, ID)], fs)
        # domain: the value expression does not itself bind one of the statement's targets (x = (x := 1) is outside C02/C03)
        is_target = z3.Or(*[g.n == g.ident(t.id) for t in sk.targets])
        fs = fs + [z3.Implies(is_target, z3.And(sk.e.G == EMPTY, sk.e.P))]
        tr = sk.e.tr
        for t in sk.targets:
            bs = binding_for(g, None, t)
            prove('target-%s-bound-once[C01]' % t.id, len(bs) == 1, clause='each Name target creates one binding declared at the target', path=path)
            if len(bs) != 1:
                return
            tr = tr.then(bind(g.def_of(bs[0][1]), g.n == g.ident(t.id)))
        # the table a read placed right after the statement sees
        prove_eq('after-statement', g.view_at(v.flow, sk.nxt.t), tr(g.V0), 'every target is bound right after the statement', path, fs)
        check_exit(sk, g, v, path, tr, fs)
    run_skeleton(build, check)


@harness(['C02', 'C03', 'C01', 'C13', 'C10'], 'supp.nast.extract_visitor.visit_AnnAssign')
def v_annassign(run):
    """x: T = e  and  (x): T = e  bind x after e;  x: T  and  (x): T  bind nothing; annotation and value start from V
    (the parenthesised forms, `simple=0`, since round 20)"""
    for with_value, simple in ((True, 1), (False, 1), (True, 0), (False, 0)):
        def build(with_value=with_value, simple=simple):
            patch_expr_end()
            sk = Skeleton()
            a = sk.child('expr', 'annotation')
            e = sk.child('expr', 'value') if with_value else None
            kw, px, nxt = Pos('annassign'), Pos('target'), Pos('next-statement')
            sk.order(kw, px)
            sk.facts += [lt(px.t, a.start.t)]
            if e:
                sk.facts += [le(a.end.t, e.start.t), le(e.end.t, nxt.t)]
            else:
                sk.facts += [le(a.end.t, nxt.t)]
            x = name_node('x', px)
            sk.node = kw.put(ast.AnnAssign(target=x, annotation=a.node(), value=e.node() if e else None, simple=simple))
            sk.node.end_lineno, sk.node.end_col_offset = SInt(nxt.l), SInt(nxt.c)
            sk.a, sk.e, sk.x, sk.nxt = a, e, x, nxt
            return sk

        def check(sk, g, v, path, with_value=with_value, simple=simple):
            core.RUN.case = ('with-value' if with_value else 'annotation-only') + ('' if simple else '-parenthesised-target')
            fs = all_facts(sk)
            check_entries(sk, g, path, [(sk.a, ID)] + ([(sk.e, ID)] if sk.e else []), fs)
            bs = binding_for(g, None, sk.x)
            if with_value:
                prove('target-bound-once[C01]', len(bs) == 1, path=path)
                if len(bs) != 1:
                    return
                tr = bind(g.def_of(bs[0][1]), g.n == g.ident('x'))
            else:
                prove('annotation-only-binds-nothing[C03]', len(bs) == 0, clause='`x: T` creates no binding', path=path)
                tr = ID
            prove_eq('after-statement', g.view_at(v.flow, sk.nxt.t), tr(g.V0), 'table right after the statement', path, fs)
            check_exit(sk, g, v, path, tr, fs)
        run_skeleton(build, check)
    core.RUN.case = None


@harness(['C01', 'C03', 'C13'], 'supp.nast.extract_visitor.visit_AnnAssign')
def v_annassign_target_exprs(run):
    """o[k]: T = e,  o[k]: T,  o.f: T = e,  o.f: T   (round 20): CPython evaluates the sub-expressions of an attribute / subscript
    target whether or not there is a value, so each of them is analysed once, starting from V; the statement binds no name"""
    for kind in ('subscript', 'attribute'):
        for with_value in (True, False):
            def build(kind=kind, with_value=with_value):
                patch_expr_end()
                sk = Skeleton()
                o = sk.child('expr', 'target_object')
                k = sk.child('expr', 'target_key') if kind == 'subscript' else None
                a = sk.child('expr', 'annotation')
                e = sk.child('expr', 'value') if with_value else None
                kw, nxt = Pos('annassign'), Pos('next-statement')
                sk.facts += [le(kw.t, o.start.t)]
                last = o
                for c in (k, a, e):
                    if c is not None:
                        sk.facts += [lt(last.end.t, c.start.t)]
                        last = c
                sk.facts += [le(last.end.t, nxt.t)]
                if kind == 'subscript':
                    t = kw.put(ast.Subscript(value=o.node(), slice=k.node(), ctx=ast.Store()))
                else:
                    t = kw.put(ast.Attribute(value=o.node(), attr='f', ctx=ast.Store()))
                sk.node = kw.put(ast.AnnAssign(target=t, annotation=a.node(), value=e.node() if e else None, simple=0))
                sk.node.end_lineno, sk.node.end_col_offset = SInt(nxt.l), SInt(nxt.c)
                sk.kids, sk.nxt = [c for c in (o, k, a, e) if c is not None], nxt
                return sk

            def check(sk, g, v, path, kind=kind, with_value=with_value):
                core.RUN.case = '%s-target-%s' % (kind, 'with-value' if with_value else 'annotation-only')
                fs = all_facts(sk)
                check_entries(sk, g, path, [(c, ID) for c in sk.kids], fs)
                nb = sum(len(Fl._names) for Fl in g.top_scope._all_flows)
                prove('attribute-or-subscript-target-binds-no-name[C03]', nb == 0, clause='`o[k]: T = e` / `o.f: T` bind no name', path=path)
                prove_eq('after-statement', g.view_at(v.flow, sk.nxt.t), g.V0, 'table right after the statement', path, fs)
                check_exit(sk, g, v, path, ID, fs)
            run_skeleton(build, check)
    core.RUN.case = None


@harness(['C02', 'C03', 'C01', 'C13'], 'supp.nast.extract_visitor.visit_NamedExpr')
def v_namedexpr(run):
    """(x := e): e starts from V; x is bound after e"""
    def build():
        patch_expr_end()
        sk = Skeleton()
        e = sk.child('expr', 'value')
        px, nxt = Pos('target'), Pos('next')
        sk.facts += px_facts(px) + [lt(px.t, e.start.t), le(e.end.t, nxt.t)]
        x = name_node('x', px)
        sk.node = px.put(ast.NamedExpr(target=x, value=e.node()))
        # the extent the parser records: the expression ends where its value ends (on whatever line that is)
        sk.node.end_lineno, sk.node.end_col_offset = SInt(e.end.l), SInt(e.end.c)
        x.end_lineno, x.end_col_offset = x.lineno, x.col_offset + 1
        sk.e, sk.x, sk.nxt = e, x, nxt
        return sk

    def check(sk, g, v, path):
        fs = all_facts(sk)
        check_entries(sk, g, path, [(sk.e, ID)], fs)
        bs = binding_for(g, None, sk.x)
        prove('target-bound-once[C01]', len(bs) == 1, path=path)
        if len(bs) != 1:
            return
        tr = bind(g.def_of(bs[0][1]), g.n == g.ident('x'))
        prove_eq('after-expression', g.view_at(v.flow, sk.nxt.t), tr(g.V0), 'x is bound right after the walrus expression', path, fs)
        check_exit(sk, g, v, path, tr, fs)
    run_skeleton(build, check)


def px_facts(p):
    return [p.l >= 1, p.c >= 0]


@harness(['C02', 'C03', 'C01', 'C13'], 'supp.nast.extract_visitor.visit_With')
def v_with(run):
    """with e1 as a, e2 as (b, c): B  —  items left to right: e1 from V; e2 from V[a]; B from V[a][b][c]; exit T_B(..)"""
    def build():
        sk = Skeleton()
        e1, e2, b = sk.child('expr', 'ctx1'), sk.child('expr', 'ctx2'), sk.child('stmts', 'body')
        kw, pa, pb, pc = Pos('with'), Pos('a'), Pos('b'), Pos('c')
        sk.order(kw, e1.start)
        sk.facts += px_facts(pa) + px_facts(pb) + px_facts(pc)
        sk.facts += [le(e1.end.t, pa.t), lt(pa.t, e2.start.t), le(e2.end.t, pb.t), lt(pb.t, pc.t), lt(pc.t, b.start.t)]
        a, bb, cc = name_node('a', pa), name_node('b', pb), name_node('c', pc)
        it1 = ast.withitem(context_expr=e1.node(), optional_vars=a)
        it2 = ast.withitem(context_expr=e2.node(), optional_vars=pb.put(ast.Tuple(elts=[bb, cc], ctx=ast.Store())))
        sk.node = kw.put(ast.With(items=[it1, it2], body=[b.node()]))
        sk.e1, sk.e2, sk.b, sk.ts = e1, e2, b, [a, bb, cc]
        return sk

    def check(sk, g, v, path):
        fs = all_facts(sk)
        binds = []
        for t in sk.ts:
            bs = binding_for(g, None, t)
            prove('target-%s-bound-once[C01]' % t.id, len(bs) == 1, path=path)
            if len(bs) != 1:
                return
            binds.append(bind(g.def_of(bs[0][1]), g.n == g.ident(t.id)))
        ba, bb, bc = binds
        check_entries(sk, g, path, [(sk.e1, ID), (sk.e2, ba), (sk.b, seq(ba, bb, bc))], fs)
        check_exit(sk, g, v, path, seq(ba, bb, bc, sk.b.tr), fs)
    run_skeleton(build, check)


# ---------------------------------------------------------------------------
# definitions: def / lambda / class

def mk_arg(sk, ident, after, ann=None):
    p = Pos('arg_' + ident)
    sk.facts += px_facts(p) + [lt(after.t, p.t)]
    a = p.put(ast.arg(arg=ident, annotation=ann.node() if ann else None))
    return a, p


def func_skeleton(sk, kind):
    """def with every parameter kind, decorator, defaults, kw-defaults, annotations, returns"""
    kw = Pos(kind)
    d = sk.child('expr', 'decorator') if kind == 'def' else None
    anns = {k: (sk.child('expr', 'ann_' + k) if kind == 'def' else None) for k in ('p', 'a', 'va', 'k', 'kw')}
    df, kd = sk.child('expr', 'default'), sk.child('expr', 'kwdefault')
    ret = sk.child('expr', 'returns') if kind == 'def' else None
    last = kw
    if d:
        sk.facts += [le(d.end.t, kw.t)]
    args = {}
    for k in ('p', 'a', 'va', 'k', 'kw'):
        args[k], last = mk_arg(sk, 'par_' + k, last, anns[k])
        if anns[k]:
            sk.facts += [lt(last.t, anns[k].start.t)]
            endp = Pos('after_ann_' + k)
            sk.facts += [le(anns[k].end.t, endp.t)]
            last = endp
        if k == 'a':
            sk.facts += [lt(last.t, df.start.t)]
            e2 = Pos('after_default')
            sk.facts += [le(df.end.t, e2.t)]
            last = e2
        if k == 'k':
            sk.facts += [lt(last.t, kd.start.t)]
            e2 = Pos('after_kwdefault')
            sk.facts += [le(kd.end.t, e2.t)]
            last = e2
    arguments = ast.arguments(posonlyargs=[args['p']], args=[args['a']], vararg=args['va'], kwonlyargs=[args['k']],
                              kw_defaults=[kd.node()], kwarg=args['kw'], defaults=[df.node()])
    if ret:
        sk.facts += [lt(last.t, ret.start.t)]
        e2 = Pos('after_returns')
        sk.facts += [le(ret.end.t, e2.t)]
        last = e2
    return kw, d, anns, df, kd, ret, args, arguments, last


def check_params(sk, g, scope, body_start, path, args):
    """every parameter kind is a binding of the function's entry region, declared at the parameter, visible from the body start"""
    Fl = [x for x in g.top_scope._all_flows if x.scope is scope and not x.parents][0]      # the function's entry region
    tr = ID
    for k, a in args.items():
        cands = [e for e in Fl._names if not isinstance(e, Summary) and str(e.name) == a.arg]
        ok = len(cands) == 1
        prove('param-%s-bound-once[C01]' % k, ok, clause='%s parameter becomes a binding of the function region' % {
            'p': 'positional-only', 'a': 'ordinary', 'va': '*args', 'k': 'keyword-only', 'kw': '**kwargs'}[k], path=path)
        if not ok:
            continue
        e = cands[0]
        prove('param-%s-declared-at-the-parameter[C11]' % k, e.declared_at[0] is a.lineno and e.declared_at[1] is a.col_offset, path=path)
        prove('param-%s-visible-from-body-start[C13]' % k, le(zpos(e.location), body_start.t),
              clause='the parameter is visible at the first position of the body', path=path)
        tr = tr.then(bind(g.def_of(e), g.n == g.ident(a.arg)))
    return tr


@harness(['C01', 'C02', 'C03', 'C05', 'C13'], 'supp.nast.extract_visitor.visit_FunctionDef + FuncScope.__init__')
def v_functiondef(run):
    """@d  def f(p: Ap, /, a: Aa = df, *va: Ava, k: Ak = kd, **kw: Akw) -> R: B
    decorator, defaults, kw-defaults, annotations, return annotation are evaluated in the ENCLOSING region from V, before f is
    bound; every parameter kind is bound in the function region and visible from the body start; B runs in the function scope
    whose parent is the enclosing scope; afterwards f is bound in the enclosing region"""
    def build():
        sk = Skeleton()
        kw, d, anns, df, kd, ret, args, arguments, last = func_skeleton(sk, 'def')
        b = sk.child('stmts', 'body')
        nxt = Pos('next-statement')
        sk.facts += [lt(last.t, b.start.t), le(b.end.t, nxt.t)]
        sk.node = kw.put(ast.FunctionDef(name='f', args=arguments, body=[b.node()], decorator_list=[d.node()],
                                         returns=ret.node(), type_params=[]))
        sk.__dict__.update(d=d, anns=anns, df=df, kd=kd, ret=ret, args=args, b=b, nxt=nxt)
        return sk

    def check(sk, g, v, path):
        import supp.scope as S
        fs = all_facts(sk)
        exprs = [sk.d, sk.df, sk.kd, sk.ret] + [sk.anns[k] for k in ('p', 'a', 'va', 'k', 'kw')]
        check_entries(sk, g, path, [(c, ID) for c in exprs], fs)
        for c in exprs:
            if c.visits:
                prove('%s-evaluated-in-the-enclosing-region[C05]' % c.label, c.visits[0][1].scope is g.top_scope, path=path)
        fb = [(Fl, e) for Fl in g.top_scope._all_flows for e in Fl._names if isinstance(e, S.FuncScope)]
        prove('def-name-bound-once[C01]', len(fb) == 1 and fb[0][0].scope is g.top_scope and fb[0][1].name == 'f', path=path)
        if len(fb) != 1:
            return
        scope = fb[0][1]
        prove('function-scope-parent-is-enclosing-scope[C05]', scope.parent is g.top_scope, path=path)
        if sk.b.visits:
            prove('body-runs-in-the-function-scope[C05]', sk.b.visits[0][1].scope is scope, path=path)
        ptr = check_params(sk, g, scope, sk.b.start, path, sk.args)
        if sk.b.visits and sk.b.visits[0][1].scope is scope:
            outer = g.entry_table([x for x in g.top_scope._all_flows if x.scope is scope and not x.parents][0])
            got = entry_view(g, sk.b)
            hyp = z3.And(*fs) if fs else z3.BoolVal(True)
            prove('body-entry-superset[C01]', z3.Implies(hyp, z3.IsSubset(ptr(outer), got)), clause='body starts from outer table + parameters', path=path)
            prove('body-entry-subset[C03]', z3.Implies(hyp, z3.IsSubset(got, ptr(outer))), path=path)
        tr = bind(g.def_of(scope), g.n == g.ident('f'))
        prove_eq('after-statement', g.view_at(v.flow, sk.nxt.t), tr(g.V0), 'f is bound right after the def statement', path, fs)
        check_exit(sk, g, v, path, tr, fs)
    run_skeleton(build, check)


@harness(['C01', 'C02', 'C03', 'C05', 'C13'], 'supp.nast.extract_visitor.visit_Lambda + FuncScope.__init__')
def v_lambda(run):
    """lambda p, /, a=df, *va, k=kd, **kw: e  — defaults in the enclosing region; parameters bound for the body expression"""
    def build():
        sk = Skeleton()
        kw, d, anns, df, kd, ret, args, arguments, last = func_skeleton(sk, 'lambda')
        e = sk.child('expr', 'body')
        sk.facts += [lt(last.t, e.start.t)]
        sk.node = kw.put(ast.Lambda(args=arguments, body=e.node()))
        sk.__dict__.update(df=df, kd=kd, args=args, e=e)
        return sk

    def check(sk, g, v, path):
        import supp.scope as S
        fs = all_facts(sk)
        check_entries(sk, g, path, [(sk.df, ID), (sk.kd, ID)], fs)
        prove('body-visited[C01]', len(sk.e.visits) == 1, path=path)
        if not sk.e.visits:
            return
        scope = sk.e.visits[0][1].scope
        prove('body-runs-in-a-function-scope-of-the-enclosing-scope[C05]', isinstance(scope, S.FuncScope) and scope.parent is g.top_scope, path=path)
        if not isinstance(scope, S.FuncScope):
            return
        ptr = check_params(sk, g, scope, sk.e.start, path, sk.args)
        outer = g.entry_table([x for x in g.top_scope._all_flows if x.scope is scope and not x.parents][0])
        got = entry_view(g, sk.e)
        prove('body-entry-superset[C01]', z3.IsSubset(ptr(outer), got), path=path)
        prove('body-entry-subset[C03]', z3.IsSubset(got, ptr(outer)), path=path)
        check_exit(sk, g, v, path, ID, fs)
    run_skeleton(build, check)


@harness(['C01', 'C02', 'C03', 'C05', 'C13'], 'supp.nast.extract_visitor.visit_ClassDef + ClassScope.__init__')
def v_classdef(run):
    """@d class C(base, metaclass=M): B — decorator, bases and keyword values evaluated in that order in the enclosing scope, before C is bound;
    B in a class scope whose parent is the enclosing scope; afterwards C is bound"""
    def build():
        sk = Skeleton()
        # decorator, base and keyword value may bind (a walrus) and may end in a region of their own (a comprehension inside them)
        d, base, kwv, b = (sk.child('expr', 'decorator', effects=True), sk.child('expr', 'base', effects=True),
                           sk.child('expr', 'keyword', effects=True), sk.child('stmts', 'body'))
        kw, nxt = Pos('class'), Pos('next-statement')
        sk.facts += px_facts(kw) + [le(d.end.t, kw.t), lt(kw.t, base.start.t), le(base.end.t, kwv.start.t), le(kwv.end.t, b.start.t), le(b.end.t, nxt.t)]
        sk.node = kw.put(ast.ClassDef(name='C', bases=[base.node()], keywords=[ast.keyword(arg='metaclass', value=kwv.node())],
                                      body=[b.node()], decorator_list=[d.node()], type_params=[]))
        sk.__dict__.update(d=d, base=base, kwv=kwv, b=b, nxt=nxt)
        return sk

    def check(sk, g, v, path):
        import supp.scope as S
        fs = all_facts(sk)
        hdr = sk.d.tr.then(sk.base.tr).then(sk.kwv.tr)
        check_entries(sk, g, path, [(sk.d, ID), (sk.base, sk.d.tr), (sk.kwv, sk.d.tr.then(sk.base.tr))], fs)
        cb = [(Fl, e) for Fl in g.top_scope._all_flows for e in Fl._names if isinstance(e, S.ClassScope)]
        prove('class-name-bound-once[C01]', len(cb) == 1 and cb[0][0].scope is g.top_scope, path=path)
        if len(cb) != 1:
            return
        scope = cb[0][1]
        prove('class-scope-parent-is-enclosing-scope[C05]', scope.parent is g.top_scope, path=path)
        if sk.b.visits:
            prove('body-runs-in-the-class-scope[C05]', sk.b.visits[0][1].scope is scope, path=path)
        tr = hdr.then(bind(g.def_of(scope), g.n == g.ident('C')))
        prove_eq('after-statement', g.view_at(v.flow, sk.nxt.t), tr(g.V0), 'C is bound right after the class statement', path, fs)
        check_exit(sk, g, v, path, tr, fs)
    run_skeleton(build, check)


# ---------------------------------------------------------------------------
# comprehensions

def comp_harness(kind):
    def h(run):
        def build():
            sk = Skeleton()
            # every sub-expression may bind (a walrus) and may end in a region of its own (a comprehension inside it)
            e1, c1, e2, elt = (sk.child('expr', 'iter1', effects=True), sk.child('expr', 'cond1', effects=True),
                               sk.child('expr', 'iter2', effects=True), sk.child('expr', 'element', effects=True))
            c2 = sk.child('expr', 'cond2', effects=True)
            val = sk.child('expr', 'value', effects=True) if kind == 'DictComp' else None
            kw, p1, p2 = Pos('comp'), Pos('x1'), Pos('x2')
            sk.facts += px_facts(kw) + [lt(kw.t, elt.start.t)]
            lastp = elt.end
            if val:
                sk.facts += [le(elt.end.t, val.start.t)]
                lastp = val.end
            sk.facts += [le(lastp.t, p1.t), lt(p1.t, e1.start.t), le(e1.end.t, c1.start.t), le(c1.end.t, p2.t), lt(p2.t, e2.start.t), le(e2.end.t, c2.start.t)]
            x1, x2 = name_node('x1', p1), name_node('x2', p2)
            gens = [ast.comprehension(target=x1, iter=e1.node(), ifs=[c1.node()], is_async=0),
                    ast.comprehension(target=x2, iter=e2.node(), ifs=[c2.node()], is_async=0)]
            cls = getattr(ast, kind)
            if kind == 'DictComp':
                sk.node = kw.put(cls(key=elt.node(), value=val.node(), generators=gens))
            else:
                sk.node = kw.put(cls(elt=elt.node(), generators=gens))
            sk.__dict__.update(e1=e1, c1=c1, e2=e2, elt=elt, val=val, x1=x1, x2=x2, c2=c2)
            return sk

        def check(sk, g, v, path):
            fs = all_facts(sk)
            b1, b2 = binding_for(g, None, sk.x1), binding_for(g, None, sk.x2)
            prove('targets-bound-once[C01]', len(b1) == 1 and len(b2) == 1, path=path)
            if len(b1) != 1 or len(b2) != 1:
                return
            t1 = bind(g.def_of(b1[0][1]), g.n == g.ident('x1'))
            t2 = bind(g.def_of(b2[0][1]), g.n == g.ident('x2'))
            # evaluation order (language reference 6.2.4): e1, x1 bound, c1 (may bind through a walrus), e2, x2 bound, then the element
            # (for a dict comprehension: the key, then the value)
            chain = [sk.e1.tr, t1, sk.c1.tr, sk.e2.tr, t2, sk.c2.tr, sk.elt.tr] + ([sk.val.tr] if sk.val else [])
            pre = [ID]
            for t in chain:
                pre.append(pre[-1].then(t))
            ents = [(sk.e1, pre[0]), (sk.c1, pre[2]), (sk.e2, pre[3]), (sk.c2, pre[5]), (sk.elt, pre[6])]
            if sk.val:
                ents.append((sk.val, pre[7]))
            check_entries(sk, g, path, ents, fs)
            # afterwards, for every identifier but the comprehension variables (reading those afterwards is outside C03's domain): the first
            # iterable is always evaluated; what the rest binds (a walrus binds in the enclosing scope) is there when everything ran, and nothing is
            # there that no prefix of the evaluation order produces
            other = [g.n != g.ident('x1'), g.n != g.ident('x2')]
            lo = pre[1].join(pre[-1])
            hi = joins(pre[1:])
            prove_between('exit-for-other-identifiers', g.view_end(v.flow), lo(g.V0), hi(g.V0),
                          'after the comprehension: what its first iterable leaves, joined with what a complete evaluation binds', path, fs + other)
        run_skeleton(build, check)
    h.__name__ = 'v_' + kind.lower()
    h.__doc__ = ('[elt for x1 in e1 if c1 for x2 in e2]: e1 from V; c1 and e2 from V[x1]; the element from V[x1][x2]; '
                 'no other identifier is affected')
    return h


for _k in ('ListComp', 'SetComp', 'GeneratorExp', 'DictComp'):
    harness(['C01', 'C02', 'C03', 'C13'], 'supp.nast.extract_visitor.visit_%s' % _k)(comp_harness(_k))


# ---------------------------------------------------------------------------
# imports

@harness(['C01', 'C02', 'C03', 'C13'], 'supp.nast.extract_visitor.visit_Import / visit_ImportFrom')
def v_imports(run):
    """import a.b, c as d  binds a and d;  from m import x as y, z  binds y and z (after the statement)"""
    for form in ('import', 'from'):
        def build(form=form):
            patch_expr_end()
            sk = Skeleton()
            kw, end, nxt = Pos(form), Pos('end-of-the-statement'), Pos('next-statement')
            # the next statement may stand on the line the import ends on (`import a; a.f()`)
            sk.facts += px_facts(kw) + px_facts(end) + [lt(kw.t, end.t), z3.Or(lt(end.t, nxt.t), z3.And(end.l == nxt.l, end.c == nxt.c))]
            if form == 'import':
                sk.node = kw.put(ast.Import(names=[ast.alias(name='a.b', asname=None), ast.alias(name='c', asname='d')]))
                sk.bound = ['a', 'd']
            else:
                sk.node = kw.put(ast.ImportFrom(module='m', names=[ast.alias(name='x', asname='y'), ast.alias(name='z', asname=None)], level=0))
                sk.bound = ['y', 'z']
            # what the parser records about the extent of the statement
            sk.node.end_lineno, sk.node.end_col_offset = SInt(end.l), SInt(end.c)
            sk.nxt = nxt
            return sk

        def check(sk, g, v, path, form=form):
            core.RUN.case = form
            tr = ID
            for ident in sk.bound:
                cands = [e for Fl in g.top_scope._all_flows for e in Fl._names if str(e.name) == ident]
                prove('%s-bound-once[C01]' % ident, len(cands) == 1, path=path)
                if len(cands) != 1:
                    return
                tr = tr.then(bind(g.def_of(cands[0]), g.n == g.ident(ident)))
            others = [e for Fl in g.top_scope._all_flows for e in Fl._names if str(e.name) not in sk.bound]
            prove('nothing-else-bound[C03]', not others, path=path)
            prove_eq('after-statement', g.view_at(v.flow, sk.nxt.t), tr(g.V0), 'aliases are bound right after the statement', path, [])
            check_exit(sk, g, v, path, tr, [])
        run_skeleton(build, check)
    core.RUN.case = None
