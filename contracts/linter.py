"""Sidecar contracts for supp/linter.py: the report loop (C10), the usage loop (C02/C03/C01), E01 (C08)."""
import ast

import z3

from pysym import core, loader, strings
from pysym.core import prove, assume, axiom, EngineEscape
from pysym.harness import harness
from pysym.loader import LoopSpec, Mutable
from pysym.proxies import SInt, SBool, Proxy, lift
from pysym.strings import SStr, is_s, Int, Formatted

MOD = 'supp.linter'


class AccList(Mutable):
    """result list inside a cut loop: the reports of the first `base` bindings (opaque) ++ items appended since"""
    _pyclass = list

    def __init__(self, base):
        self.base = base
        self.items = []

    def append(self, x):
        self.items.append(x)
        self.touched()

    def havoc(self, L, base):
        self.base, self.items = base, []
        self._hav = L


class QSet(Proxy):
    """qualified_imports at the entry of the report loop: membership is an uninterpreted predicate of the identifier"""
    _pyclass = set

    def __init__(self):
        self.member = z3.Function('dotted_import_used', z3.DeclareSort('Ident'), z3.BoolSort())

    def __contains__(self, s):
        return core.CUR.branch(self.has(s))

    def has(self, s):
        return z3.Bool('in_qualified_imports(%s)' % s.base.name)

    def add(self, x):
        raise EngineEscape('qualified_imports mutated in the report loop')


class OneBinding(Proxy):
    """scope.all_names of unknown length; element k is THE arbitrary binding built by the harness"""
    def __init__(self, pair):
        self.pair = pair
        self.n = z3.Int('n_bindings')

    def slen(self):
        return SInt(self.n)

    def elem_at(self, k):
        return self.pair


def scope_kinds():
    import supp.scope as S
    src = S.SourceScope.__new__(S.SourceScope)
    src.nonlocals = EmptySet()
    cls = S.ClassScope.__new__(S.ClassScope)
    cls.nonlocals = EmptySet()
    cls.parent = src
    meth = S.FuncScope.__new__(S.FuncScope)
    meth.parent = cls
    func = S.FuncScope.__new__(S.FuncScope)
    func.parent = src
    inner = S.FuncScope.__new__(S.FuncScope)
    inner.parent = meth
    lam = S.FuncScope.__new__(S.FuncScope)
    lam.parent = func
    lam.name = 'lambda'
    for sc in (meth, func, inner, lam):
        sc.nonlocals = NonlocalSet()
    return [('module', src), ('class', cls), ('method', meth), ('function', func), ('function-in-method', inner), ('lambda', lam)]


def binding_kinds(scope):
    """one instance per binding class, attributes symbolic"""
    import supp.name as Nm
    import supp.scope as S
    out = []
    for cls in (Nm.AssignedName, Nm.ArgumentName, Nm.ImportedName, S.FuncScope, S.ClassScope):
        if cls is Nm.ImportedName:
            for star in (False, True):
                for fut in (False, True):
                    o = cls.__new__(cls)
                    o.is_star, o.qualified = star, False
                    o.module = '__future__' if fut else 'os'
                    out.append(('import%s%s' % ('-star' if star else '', '-future' if fut else ''), o))
        else:
            o = cls.__new__(cls)
            out.append((cls.__name__, o))
    return out


NONLOCAL = z3.Bool('ident_declared_nonlocal_in_the_scope')


class EmptySet(Proxy):
    _pyclass = set

    def __contains__(self, s):
        return False


class NonlocalSet(Proxy):
    _pyclass = set

    def __contains__(self, s):
        return core.CUR.branch(NONLOCAL)


def spec_report(kind_scope, scope, kind_name, obj, used, name, qi):
    """the exemption table of the property statement, transcribed.  Returns (condition, code, message-format)"""
    import supp.name as Nm
    import supp.scope as S
    underscore = z3.And(name.n() >= 1, name.at(0) == 95)
    base = z3.And(z3.BoolVal(not used), z3.Not(underscore))
    is_import = isinstance(obj, Nm.ImportedName)
    in_function = kind_scope in ('method', 'function', 'function-in-method', 'lambda')
    if in_function:
        # W01: a local of a function or lambda ... that is not a parameter of a method
        param_of_method = isinstance(obj, Nm.ArgumentName) and kind_scope == 'method'
        star = is_import and obj.is_star
        # a local of the function: a binding of a name declared nonlocal there rebinds the enclosing function's variable instead
        return z3.And(base, z3.BoolVal(not param_of_method and not star), z3.Not(NONLOCAL)), 'W01', 'Unused name: {}'
    # module or class level: only imports
    if not is_import:
        return z3.BoolVal(False), None, None
    ok = not obj.is_star and obj.module != '__future__'
    return z3.And(base, z3.BoolVal(ok), z3.Not(qi)), 'W02', 'Unused import: {}'


LINT_REPLAY = '''import sys; sys.path.insert(0, %(repo)r)
from supp.linter import lint
from supp.project import Project
cases = %(cases)r
for src, want in cases:
    got = sorted((r[0], r[1]) for r in lint(Project(['/nonexistent']), src) if r[0].startswith('W'))
    if got != sorted(want):
        print('REPRODUCED: lint(%%r) unused-diagnostics %%r, the exemption rules give %%r' %% (src, got, sorted(want))); sys.exit(1)
print('not reproduced')
'''
# small programs per (scope kind, binding kind), for native replay of a failing loop-body obligation
REPLAY_CASES = [
    ('def f():\n    x = 1\n', [('W01', 'Unused name: x')]),
    ('def f():\n    _x = 1\n', []),
    ('def f(a):\n    pass\n', [('W01', 'Unused name: a')]),
    ('class A:\n    def m(self, a):\n        pass\n', []),
    ('class A:\n    def m(self):\n        def g(b): pass\n', [('W01', 'Unused name: g'), ('W01', 'Unused name: b')]),
    ('import os\n', [('W02', 'Unused import: os')]),
    ('import _os\n', []),
    ('from __future__ import print_function\n', []),
    ('from os import *\n', []),
    ('class A:\n    import os\n', [('W02', 'Unused import: os')]),
    ('def f():\n    import os\n', [('W01', 'Unused name: os')]),
    ('x = 1\nclass A:\n    y = 2\n', []),
    ('f = lambda a: 1\n', [('W01', 'Unused name: a')]),
    ('import os.path\nimport os\nos.path\n', []),
    ('def f():\n    def g(): pass\n    class C: pass\n', [('W01', 'Unused name: g'), ('W01', 'Unused name: C')]),
    ('def g():\n    x = 1\n    def f():\n        nonlocal x\n        x = 2\n    return f, x\n', []),
]


@harness('C10', 'supp.linter.lint[report loop]', twins=('spec-method-params-reported',))
def lint_report_loop(run, twin=None):
    """loop-body contract of the report loop over scope.all_names, for an arbitrary binding: every binding class x every
    scope kind x used / unused x arbitrary identifier text x (not) in the dotted-import set: what is appended is exactly what the
    exemption rules of the statement prescribe: (code, message with the binding's own name, its declared_at, flow), at most once.
    Loop invariant: result == the reports of the first k bindings."""
    import supp.scope as S
    import supp.name as Nm
    holder = {}
    run.concretise = lambda model, ob: {'input': 'one small program per scope kind x binding kind',
                                        'script': LINT_REPLAY % {'repo': core.REPO, 'cases': REPLAY_CASES}}

    def inv(L, st):
        r = st['result']
        spec_c, code, msg = holder['spec']
        nm, flow = holder['name'], holder['flow']
        if not r.items:
            # nothing appended: fine at k, or at k+1 when the spec reports nothing for binding k
            return z3.Or(r.base == L.k, z3.And(r.base + 1 == L.k, z3.Not(spec_c)))
        if len(r.items) != 1:
            return z3.BoolVal(False)
        t = r.items[0]
        shape = (isinstance(t, tuple) and len(t) == 5 and t[0] == code and isinstance(t[1], Formatted) and t[1].fmt == msg
                 and len(t[1].args) == 1 and t[1].args[0] is nm.name and t[4] is flow)
        if not shape:
            return z3.BoolVal(False)
        pos = z3.And(lift(t[2]) == holder['dl'], lift(t[3]) == holder['dc'])
        return z3.And(r.base + 1 == L.k, spec_c, pos)

    def hav(L, st):
        st['result'].havoc(L, L.k)
        return {}

    f = loader.load(MOD, 'lint', strlit=True, stubs=dict(
        Source=lambda source, filename: source,
        extract_scope=lambda source, project: holder['scope'],
        get_name_usages=lambda tree: [],
        set=lambda *a: holder['qi'] if not a else set(*a),
    ), cuts={2: LoopSpec(inv, hav, temps=("w", "message", "flow", "name"))}, displays={'list': lambda: AccList(z3.IntVal(0))})

    class Src(object):
        tree = None

    for sk, scope in scope_kinds():
        for bk, obj in binding_kinds(scope):
            for used in (False, True):
                def body(sk=sk, scope=scope, bk=bk, obj=obj, used=used):
                    run.case = '%s/%s/%s' % (sk, bk, 'used' if used else 'unused')
                    name = SStr.sym('ident')
                    assume(name.n() >= 1)
                    dl, dc = z3.Int('decl_line'), z3.Int('decl_col')
                    obj.name = name
                    obj.declared_at = (SInt(dl), SInt(dc))
                    obj.location = (SInt(z3.Int('vl')), SInt(z3.Int('vc')))
                    if used:
                        obj.used = True
                    elif 'used' in obj.__dict__:
                        del obj.__dict__['used']
                    flow = S.Flow.__new__(S.Flow)
                    flow.scope = scope
                    qi = QSet()
                    holder.update(name=obj, flow=flow, dl=dl, dc=dc, qi=qi)
                    sc, code, msg = spec_report(sk, scope, bk, obj, used, name, qi.has(name))
                    if twin and sk == 'method' and isinstance(obj, Nm.ArgumentName):
                        sc = z3.And(z3.BoolVal(not used), z3.Not(z3.And(name.n() >= 1, name.at(0) == 95)))
                    holder['spec'] = (sc, code, msg)

                    class Scope(object):
                        all_names = OneBinding((flow, obj))
                    holder['scope'] = Scope()
                    return f(None, Src(), 'f.py')

                def on_path(p, out, sk=sk, bk=bk, used=used):
                    if out[0] != 'ok':
                        prove('no-exception(%s)' % type(out[1]).__name__, False, path=p)
                    else:
                        prove('returns-result', isinstance(out[1], AccList),
                              clause='lint returns the accumulated list', path=p)
                core.explore(body, on_path)
    # relabel loop obligations with the case they belong to is not needed: names carry the path signature
