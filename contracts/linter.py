"""Sidecar contracts for supp/linter.py: the report loop (C10), the usage loop (C02/C03/C01), E01 (C08)."""
import ast

import z3

from pysym import core, loader, strings
from pysym.core import prove, assume, axiom, EngineEscape
from pysym.harness import harness
from pysym.loader import LoopSpec, Mutable
from pysym.proxies import SInt, SBool, Proxy, lift
from pysym.strings import SStr, is_s, Int, Formatted

MOD = 'supp.linter'


class AccList(Mutable):
    """result list inside a cut loop: the reports of the first `base` bindings (opaque) ++ items appended since"""
    _pyclass = list

    def __init__(self, base):
        self.base = base
        self.items = []

    def append(self, x):
        self.items.append(x)
        self.touched()

    def havoc(self, L, base):
        self.base, self.items = base, []
        self._hav = L


class QSet(Proxy):
    """qualified_imports at the entry of the report loop: membership is an uninterpreted predicate of the identifier"""
    _pyclass = set

    def __init__(self):
        self.member = z3.Function('dotted_import_used', z3.DeclareSort('Ident'), z3.BoolSort())

    def __contains__(self, s):
        return core.CUR.branch(self.has(s))

    def has(self, s):
        return z3.Bool('in_qualified_imports(%s)' % s.base.name)

    def add(self, x):
        raise EngineEscape('qualified_imports mutated in the report loop')


class OneBinding(Proxy):
    """scope.all_names of unknown length; element k is THE arbitrary binding built by the harness"""
    def __init__(self, pair):
        self.pair = pair
        self.n = z3.Int('n_bindings')

    def slen(self):
        return SInt(self.n)

    def elem_at(self, k):
        return self.pair


def scope_kinds():
    import supp.scope as S
    src = loader.bare_instance(S.SourceScope)
    src.nonlocals = EmptySet()
    cls = loader.bare_instance(S.ClassScope)
    cls.nonlocals = EmptySet()
    cls.parent = src
    meth = loader.bare_instance(S.FuncScope)
    meth.parent = cls
    func = loader.bare_instance(S.FuncScope)
    func.parent = src
    inner = loader.bare_instance(S.FuncScope)
    inner.parent = meth
    lam = loader.bare_instance(S.FuncScope)
    lam.parent = func
    lam.name = 'lambda'
    for sc in (meth, func, inner, lam):
        sc.nonlocals = NonlocalSet()
    return [('module', src), ('class', cls), ('method', meth), ('function', func), ('function-in-method', inner), ('lambda', lam)]


def binding_kinds(scope):
    """one instance per binding class, attributes symbolic"""
    import supp.name as Nm
    import supp.scope as S
    out = []
    for cls in (Nm.AssignedName, Nm.ArgumentName, Nm.ImportedName, S.FuncScope, S.ClassScope):
        if cls is Nm.ImportedName:
            for star in (False, True):
                for fut in (False, 'feature', 'module'):
                    # `from __future__ import feature` (exempt), `import __future__ as name` (an import like any other)
                    o = cls('imp', (1, 0), (1, 0), '__future__' if fut else 'os', None if fut == 'module' else 'feature', star)
                    o.qualified = False
                    out.append(('import%s%s' % ('-star' if star else '', '-future-%s' % fut if fut else ''), o))
        else:
            o = loader.bare_instance(cls)
            out.append((cls.__name__, o))
    return out


NONLOCAL = z3.Bool('ident_declared_nonlocal_in_the_scope')


class EmptySet(Proxy):
    _pyclass = set

    def __contains__(self, s):
        return False


class NonlocalSet(Proxy):
    _pyclass = set

    def __contains__(self, s):
        return core.CUR.branch(NONLOCAL)


def spec_report(kind_scope, scope, kind_name, obj, used, name, qi):
    """the exemption table of the property statement, transcribed.  Returns (condition, code, message-format)"""
    import supp.name as Nm
    import supp.scope as S
    underscore = z3.And(name.n() >= 1, name.at(0) == 95)
    base = z3.And(z3.BoolVal(not used), z3.Not(underscore))
    is_import = isinstance(obj, Nm.ImportedName)
    in_function = kind_scope in ('method', 'function', 'function-in-method', 'lambda')
    if in_function:
        # W01: a local of a function or lambda ... that is not a parameter of a method
        param_of_method = isinstance(obj, Nm.ArgumentName) and kind_scope == 'method'
        star = is_import and obj.is_star
        # a local of the function: a binding of a name declared nonlocal there rebinds the enclosing function's variable instead
        return z3.And(base, z3.BoolVal(not param_of_method and not star), z3.Not(NONLOCAL)), 'W01', 'Unused name: {}'
    # module or class level: only imports
    if not is_import:
        return z3.BoolVal(False), None, None
    ok = not obj.is_star and not (obj.module == '__future__' and obj.mname)      # from __future__ import x is exempt, import __future__ is not
    return z3.And(base, z3.BoolVal(ok), z3.Not(qi)), 'W02', 'Unused import: {}'


LINT_REPLAY = '''import sys; sys.path.insert(0, %(repo)r)
from supp.linter import lint
from supp.project import Project
cases = %(cases)r
for src, want in cases:
    got = sorted((r[0], r[1]) for r in lint(Project(['/nonexistent']), src) if r[0].startswith('W'))
    if got != sorted(want):
        print('REPRODUCED: lint(%%r) unused-diagnostics %%r, the exemption rules give %%r' %% (src, got, sorted(want))); sys.exit(1)
print('not reproduced')
'''
# small programs per (scope kind, binding kind), for native replay of a failing loop-body obligation
REPLAY_CASES = [
    ('def f():\n    x = 1\n', [('W01', 'Unused name: x')]),
    ('def f():\n    _x = 1\n', []),
    ('def f(a):\n    pass\n', [('W01', 'Unused name: a')]),
    ('class A:\n    def m(self, a):\n        pass\n', []),
    ('class A:\n    def m(self):\n        def g(b): pass\n', [('W01', 'Unused name: g'), ('W01', 'Unused name: b')]),
    ('import os\n', [('W02', 'Unused import: os')]),
    ('import _os\n', []),
    ('from __future__ import print_function\n', []),
    ('from os import *\n', []),
    ('class A:\n    import os\n', [('W02', 'Unused import: os')]),
    ('def f():\n    import os\n', [('W01', 'Unused name: os')]),
    ('x = 1\nclass A:\n    y = 2\n', []),
    ('f = lambda a: 1\n', [('W01', 'Unused name: a')]),
    ('import os.path\nimport os\nos.path\n', []),
    ('def f():\n    def g(): pass\n    class C: pass\n', [('W01', 'Unused name: g'), ('W01', 'Unused name: C')]),
    ('def g():\n    x = 1\n    def f():\n        nonlocal x\n        x = 2\n    return f, x\n', []),
]


@harness('C10', 'supp.linter.lint[report loop]', twins=('spec-method-params-reported',))
def lint_report_loop(run, twin=None):
    """loop-body contract of the report loop over scope.all_names, for an arbitrary binding: every binding class x every
    scope kind x used / unused x arbitrary identifier text x (not) in the dotted-import set: what is appended is exactly what the
    exemption rules of the statement prescribe: (code, message with the binding's own name, its declared_at, flow), at most once.
    Loop invariant: result == the reports of the first k bindings."""
    import supp.scope as S
    import supp.name as Nm
    holder = {}
    run.concretise = lambda model, ob: {'input': 'one small program per scope kind x binding kind',
                                        'script': LINT_REPLAY % {'repo': core.REPO, 'cases': REPLAY_CASES}}

    def inv(L, st):
        r = st['result']
        spec_c, code, msg = holder['spec']
        nm, flow = holder['name'], holder['flow']
        if not r.items:
            # nothing appended: fine at k, or at k+1 when the spec reports nothing for binding k
            return z3.Or(r.base == L.k, z3.And(r.base + 1 == L.k, z3.Not(spec_c)))
        if len(r.items) != 1:
            return z3.BoolVal(False)
        t = r.items[0]
        shape = (isinstance(t, tuple) and len(t) == 5 and t[0] == code and isinstance(t[1], Formatted) and t[1].fmt == msg
                 and len(t[1].args) == 1 and t[1].args[0] is nm.name and t[4] is flow)
        if not shape:
            return z3.BoolVal(False)
        pos = z3.And(lift(t[2]) == holder['dl'], lift(t[3]) == holder['dc'])
        return z3.And(r.base + 1 == L.k, spec_c, pos)

    def hav(L, st):
        st['result'].havoc(L, L.k)
        return {}

    f = loader.load(MOD, 'lint', strlit=True, stubs=dict(
        Source=lambda source, filename: source,
        extract_scope=lambda source, project: holder['scope'],
        get_name_usages=lambda tree: [],
        set=lambda *a: holder['qi'] if not a else set(*a),
    ), cuts={2: LoopSpec(inv, hav, temps=("w", "message", "flow", "name"))}, displays={'list': lambda: AccList(z3.IntVal(0))})

    class Src(object):
        tree = None

    for sk, scope in scope_kinds():
        for bk, obj in binding_kinds(scope):
            for used in (False, True):
                def body(sk=sk, scope=scope, bk=bk, obj=obj, used=used):
                    run.case = '%s/%s/%s' % (sk, bk, 'used' if used else 'unused')
                    name = SStr.sym('ident')
                    assume(name.n() >= 1)
                    dl, dc = z3.Int('decl_line'), z3.Int('decl_col')
                    obj.name = name
                    obj.declared_at = (SInt(dl), SInt(dc))
                    obj.location = (SInt(z3.Int('vl')), SInt(z3.Int('vc')))
                    if used:
                        obj.used = True
                    elif 'used' in obj.__dict__:
                        del obj.__dict__['used']
                    flow = loader.bare_instance(S.Flow)
                    flow.scope = scope
                    qi = QSet()
                    holder.update(name=obj, flow=flow, dl=dl, dc=dc, qi=qi)
                    sc, code, msg = spec_report(sk, scope, bk, obj, used, name, qi.has(name))
                    if twin and sk == 'method' and isinstance(obj, Nm.ArgumentName):
                        sc = z3.And(z3.BoolVal(not used), z3.Not(z3.And(name.n() >= 1, name.at(0) == 95)))
                    holder['spec'] = (sc, code, msg)

                    class Scope(object):
                        all_names = OneBinding((flow, obj))
                    holder['scope'] = Scope()
                    return f(None, Src(), 'f.py')

                def on_path(p, out, sk=sk, bk=bk, used=used):
                    if out[0] != 'ok':
                        prove('no-exception(%s)' % type(out[1]).__name__, False, path=p)
                    else:
                        prove('returns-result', isinstance(out[1], AccList),
                              clause='lint returns the accumulated list', path=p)
                core.explore(body, on_path)
    # relabel loop obligations with the case they belong to is not needed: names carry the path signature


# ---------------------------------------------------------------------------
# lint: E01 clause and the usage loop (C08, C01, C02, C03)

class UsageList(Proxy):
    """get_name_usages(tree): an unknown number of Name reads; element k is the arbitrary read the harness built"""
    _pyclass = list

    def __init__(self, node):
        self.node = node
        self.n = z3.Int('n_reads')

    def slen(self):
        return SInt(self.n)

    def elem_at(self, k):
        return self.node


def table_values(ident):
    """one instance of every class a names table can hold for `ident`"""
    import supp.name as Nm
    import supp.scope as S
    import builtins
    out = []
    a = Nm.AssignedName(ident, (1, 0), (1, 0), None)
    out.append(('AssignedName', a, [a]))
    g = Nm.ArgumentName([0], ident, (1, 0), (1, 4), None)
    out.append(('ArgumentName', g, [g]))
    for q in (False, True):
        i = Nm.ImportedName(ident, (1, 0), (1, 7), 'os', None, qualified=q)
        out.append(('ImportedName%s' % ('-qualified' if q else ''), i, [i]))
    f = loader.bare_instance(S.FuncScope)
    f.name, f.location, f.declared_at = ident, (2, 4), (1, 4)
    out.append(('FuncScope', f, [f]))
    c = loader.bare_instance(S.ClassScope)
    c.name, c.location, c.declared_at = ident, (2, 4), (1, 6)
    out.append(('ClassScope', c, [c]))
    r = Nm.RuntimeName(ident, getattr(builtins, ident, None), True)
    out.append(('RuntimeName-builtin', r, [r]))
    a1, a2 = Nm.AssignedName(ident, (1, 0), (1, 0), None), Nm.AssignedName(ident, (3, 0), (3, 0), None)
    m = Nm.MultiName([a1, a2])
    out.append(('MultiName', m, [a1, a2]))
    a3 = Nm.AssignedName(ident, (1, 0), (1, 0), None)
    u = Nm.UndefinedName(ident)
    m2 = Nm.MultiName([a3, u])
    out.append(('MultiName-with-unbound', m2, [a3, u]))
    return out


USAGE_REPLAY = '''import sys; sys.path.insert(0, %(repo)r)
from supp.linter import lint
from supp.project import Project
src = "def f(c):\\n    if c:\\n        locals = 1\\n    else:\\n        locals = 2\\n    return locals\\n"
try:
    r = lint(Project(['/nonexistent']), src)
except Exception as e:
    print('REPRODUCED: lint raises %%s: %%s on a program that binds `locals` in two branches' %% (type(e).__name__, e)); sys.exit(1)
print('not reproduced', r)
'''


@harness(['C08', 'C01', 'C02', 'C03', 'C10'], 'supp.linter.lint[usage loop] + use_name', twins=('spec-unbound-alternative-is-E02',))
def lint_usage_loop(run, twin=None):
    """loop-body contract of the loop over the Name reads, for an arbitrary read whose table entry is of ANY class a table can hold
    (each binding class, builtin, MultiName with and without `unbound`), identifier `locals` or not: raises nothing; UNKNOWN NAME (E42)
    iff the read was never visited; Undefined name (E02) iff the identifier is absent from the table at the read; otherwise no diagnostic,
    every alternative is marked used (and nothing else), dotted imports are remembered; a builtin `locals` marks every local of the scope"""
    import supp.name as Nm
    run.concretise = lambda model, ob: {'input': '`locals` bound in two branches of a function', 'script': USAGE_REPLAY % {'repo': core.REPO}}
    holder = {}

    def marks_ok():
        """after the iteration: exactly the alternatives of the table entry are marked used; a dotted import is remembered"""
        import supp.name as Nm
        alts, val, other, qi, ident = holder['alts'], holder['val'], holder['other'], holder['qi'], holder['ident']
        if val is None:
            return not getattr(other, 'used', False) and not qi.added
        is_locals_builtin = ident == 'locals' and isinstance(val, Nm.RuntimeName)
        if is_locals_builtin:
            # locals(): every name of the scope visible there counts as read - one bound in several branches with all its alternatives - and
            # no name of another scope
            return (getattr(other, 'used', False) is True and all(getattr(b, 'used', False) is True for b in holder['branchy'])
                    and not getattr(holder['outer'], 'used', False))
        marked = all(getattr(a, 'used', False) is True for a in alts)
        others_clean = not getattr(other, 'used', False)
        want_q = [ident] if (type(val) is Nm.ImportedName and val.qualified) else []
        return marked and others_clean and qi.added == want_q

    def inv(L, st):
        r = st['result']
        want = holder['want']
        at_next = r.base + 1 == L.k
        if not r.items:
            if want is not None:
                return r.base == L.k
            # no diagnostic expected: at k+1 the marks must be right
            return z3.Or(r.base == L.k, z3.And(at_next, z3.BoolVal(bool(marks_ok()))))
        if len(r.items) != 1 or want is None:
            return z3.BoolVal(False)
        t = r.items[0]
        ok = isinstance(t, tuple) and len(t) == 5 and t[0] == want[0] and t[2:4] == (7, 3) and isinstance(t[1], str) and t[1] == want[1]
        return z3.And(at_next, z3.BoolVal(bool(ok) and bool(marks_ok())))

    def hav(L, st):
        st['result'].havoc(L, L.k)
        return {}
    f = loader.load(MOD, 'lint', stubs=dict(
        Source=lambda source, filename: source, extract_scope=lambda source, project: holder['scope'],
        get_name_usages=lambda tree: holder['usages'],
        set=lambda *a: holder['qi'] if not a else set(*a)),
        cuts={0: LoopSpec(inv, hav, temps=('name', 'location', 'flow', 'snames', 'sname', 'n'))},
        displays={'list': lambda: AccList(z3.IntVal(0))})

    class Src(object):
        tree = None

    class QI(set):
        """qualified_imports: a real set that also remembers the order in which names were put in"""
        def __init__(self):
            set.__init__(self)
            self.added = []

        def add(self, x):
            self.added.append(x)
            set.add(self, x)

        def update(self, *others):
            for o in others:
                for x in o:
                    self.add(x)

    class EmptyNames(object):
        all_names = []

    cases = [('not-visited', None, None), ('absent', None, None)]
    for ident in ('x', 'locals'):
        for label, val, alts in table_values(ident):
            cases.append(('%s/%s' % (ident, label), val, alts))
    for label, val, alts in cases:
        def body(label=label, val=val, alts=alts):
            run.case = label
            ident = label.split('/')[0] if '/' in label else 'x'
            node = ast.Name(id=ident, ctx=ast.Load())
            node.lineno, node.col_offset = 7, 3
            other = Nm.AssignedName('other', (1, 0), (1, 0), None)

            class Sc(object):
                pass
            sc = Sc()
            other.scope = sc
            # a local bound in two branches, and a name of an enclosing scope
            branchy = [Nm.AssignedName('branchy', (2, 0), (2, 0), None), Nm.AssignedName('branchy', (4, 0), (4, 0), None)]
            for b_ in branchy:
                b_.scope = sc
            outer = Nm.AssignedName('outer', (1, 0), (1, 0), None)
            outer.scope = Sc()
            holder.update(branchy=branchy, outer=outer)
            for a in alts or []:
                if not isinstance(a, str):
                    a.scope = sc

            class Fl(object):
                scope = sc
                asked = []

                def names_at(self, loc):
                    Fl.asked.append(loc)
                    t = {'other': other, 'branchy': Nm.MultiName(list(branchy)), 'outer': outer}
                    if val is not None:
                        t[ident] = val
                    return t
            if label != 'not-visited':
                node.flow = Fl()
            holder.update(usages=UsageList(node), qi=QI(), scope=EmptyNames(), other=other, Fl=Fl, alts=alts, val=val, ident=ident)
            if label == 'not-visited':
                holder['want'] = ('E42', 'UNKNOWN NAME: %s' % ident)
            elif val is None:
                holder['want'] = ('E02', 'Undefined name: %s' % ident)
            else:
                holder['want'] = None
            if twin and alts and any(isinstance(a, str) for a in alts):
                holder['want'] = ('E02', 'Undefined name: %s' % ident)
            for a in (alts or []) + [other, outer] + branchy:
                if not isinstance(a, str):
                    a.__dict__.pop('used', None)
            return f(None, Src(), 'f.py')

        def on_path(p, out, label=label):
            if out[0] != 'ok':
                prove('no-exception', False, clause='the usage loop raises nothing [%s: %s]' % (type(out[1]).__name__, out[1]), path=p)
        core.explore(body, on_path)

        # the marks, observed after one arbitrary iteration: re-run the body natively on the built objects
        def marks(path, label=label, val=val, alts=alts):
            import supp.linter as Lt
            if val is None:
                return
            ident = label.split('/')[0]
            for a in alts:
                a.__dict__.pop('used', None)
            try:
                Lt.use_name(val)
                exc = None
            except Exception as e:
                exc = e
            run.case = label
            prove('use_name-marks-every-alternative', exc is None and all(getattr(a, 'used', False) is True for a in alts),
                  clause='use_name marks exactly the alternatives of the table entry', path=path)
        core.explore(lambda: None, lambda p, out: marks(p))
    run.case = None


@harness(['C08'], 'supp.linter.lint[E01 clause]')
def lint_e01(run):
    """if parsing raises SyntaxError: exactly one diagnostic ('E01', message, line, offset, None) and nothing else is computed;
    if it does not: no E01"""
    f = loader.load(MOD, 'lint', stubs=dict(extract_scope=lambda s, p: (_ for _ in ()).throw(AssertionError('analysed after a syntax error'))))

    def go(path):
        class Bad(object):
            @property
            def tree(self):
                e = SyntaxError('invalid syntax')
                e.msg, e.lineno, e.offset = 'invalid syntax', 3, 7
                raise e
        f2 = loader.load(MOD, 'lint', stubs=dict(Source=lambda s, fn: Bad(),
                                                  extract_scope=lambda s, p: (_ for _ in ()).throw(AssertionError('analysed after a syntax error'))))
        try:
            r = f2(None, 'src', 'f.py')
        except Exception as e:
            r = e
        prove('syntax-error-gives-exactly-one-E01', r == [('E01', 'invalid syntax', 3, 7, None)],
              clause="[('E01', CPython's message, line, offset, None)] and nothing else", path=path)
        import supp.linter as Lt
        from supp.project import Project
        for src in ('def f(:\n', 'x = (\n', 'a\x00b', '\tif x:\n  y\n', 'x = 1 +\n'):
            try:
                r = Lt.lint(Project(['/nonexistent']), src)
                try:
                    compile(src, '<string>', 'exec')
                    want = None
                except SyntaxError as e:
                    want = [('E01', e.msg, e.lineno, e.offset, None)]
                ok = r == want
            except Exception as e:
                ok, r = False, e
            prove('unparsable-text-%r' % src[:8], ok, clause='lint == [E01 with CPython\'s message and position] [%r]' % (r,), path=path)
    core.explore(lambda: None, lambda p, out: go(p))
