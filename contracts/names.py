"""Sidecar contracts for supp/name.py: MultiName (C02, C03, C17), first_name, and the evaluator's declarations() (C02, C17)."""
import itertools

import z3

from pysym import core, loader
from pysym.core import prove, assume, EngineEscape
from pysym.harness import harness
from pysym.proxies import Proxy, SInt, lift

Int = z3.IntSort()

ORDER_REPLAY = '''import sys, subprocess, json
code = """
import sys; sys.path.insert(0, %(repo)r)
from supp.assistant import location
from supp.project import Project
src = 'def f(c):\\\\n    if c == 1:\\\\n        v = 1\\\\n    elif c == 2:\\\\n        v = 2\\\\n    elif c == 3:\\\\n        v = 3\\\\n    else:\\\\n        v = 4\\\\n    return v\\\\n'
print(location(Project(['/nonexistent']), src, (10, 12)))
"""
outs = set()
import os
for seed in range(1, 9):
    r = subprocess.run([sys.executable, '-c', code], capture_output=True, text=True, env=dict(os.environ, PYTHONHASHSEED=str(seed)))
    outs.add(r.stdout.strip())
exp = "[[{'loc': (3, 8), 'file': '<string>'}, {'loc': (5, 8), 'file': '<string>'}, {'loc': (7, 8), 'file': '<string>'}, {'loc': (9, 8), 'file': '<string>'}]]"
if len(outs) != 1 or outs != {exp}:
    print('REPRODUCED: go-to-definition of a name bound in four branches, under 8 hash seeds: %%d different answers, e.g. %%s (source order: %%s)' %% (len(outs), sorted(outs)[0], exp)); sys.exit(1)
print('not reproduced')
'''


class PermSet(object):
    """set(items): iteration order is an ARBITRARY permutation (assumed contract of set iteration for objects hashed by identity)"""
    def __init__(self, items):
        seen, out = set(), []
        for x in items:
            if id(x) not in seen:
                seen.add(id(x))
                out.append(x)
        self.items = out

    def permuted(self):
        perms = list(itertools.permutations(self.items))
        return list(perms[core.choice(len(perms))])

    def __iter__(self):
        return iter(self.permuted())

    def __len__(self):
        return len(self.items)


@harness(['C17', 'C02', 'C03'], 'supp.name.MultiName.__init__ / valid_names / has_undefined / first_name',
         twins=('spec-reverse-source-order',))
def multiname_contract(run, twin=None):
    """MultiName(names): the alternatives are exactly the flattening of `names` (nested MultiNames expanded, no duplicates, no MultiName
    inside), and their ORDER does not depend on the iteration order of any set: source order of the definitions (`unbound` first);
    has_undefined <=> `unbound` is an alternative; valid_names == the alternatives without it, same order; first_name picks the first.
    Set iteration is modelled as an arbitrary permutation, all permutations are explored (up to 4 alternatives), positions are symbolic"""
    import supp.name as Nm
    run.trust('set iteration order: an arbitrary permutation chosen afresh at each conversion (Python makes no promise; objects hash by identity)')
    run.concretise = lambda model, ob: {'input': 'a name bound in four branches; 8 interpreter processes with different PYTHONHASHSEED',
                                        'script': ORDER_REPLAY % {'repo': core.REPO}}
    f = loader.load('supp.name', 'MultiName.__init__', stubs={'set': PermSet, 'list': lambda x: x.permuted() if isinstance(x, PermSet) else list(x)})
    outs = {}

    def mk(i):
        n = Nm.AssignedName('v', (SInt(z3.Int('vl%d' % i)), SInt(z3.Int('vc%d' % i))),
                            (SInt(z3.Int('dl%d' % i)), SInt(z3.Int('dc%d' % i))), None)
        n._i = i
        return n
    names = [mk(i) for i in range(3)]
    undef = Nm.UndefinedName('v')

    def lt(a, b):
        return z3.Or(a[0] < b[0], z3.And(a[0] == b[0], a[1] < b[1]))

    def body():
        # definitions have pairwise different positions, all after (0, 0)
        for i in range(3):
            assume(z3.And(z3.Int('dl%d' % i) >= 1, z3.Int('dc%d' % i) >= 0))
            for j in range(i):
                assume(z3.Or(z3.Int('dl%d' % i) != z3.Int('dl%d' % j), z3.Int('dc%d' % i) != z3.Int('dc%d' % j)))
        inner = Nm.MultiName.__new__(Nm.MultiName)
        inner.alt_names = [names[1], undef]
        inner.name = 'v'
        m = Nm.MultiName.__new__(Nm.MultiName)
        # the row arrives in an arbitrary order (parent_names builds it through a set)
        row = PermSet([names[0], inner, names[2]]).permuted() + [names[1]]
        f(m, row)
        return m

    def on_path(p, out):
        if out[0] != 'ok':
            prove('no-exception(%s)' % type(out[1]).__name__, False, path=p)
            return
        m = out[1]
        alts = m.alt_names
        ids = [id(x) for x in alts]
        flat_ok = (len(alts) == 4 and len(set(ids)) == 4 and set(ids) == set(id(x) for x in names + [undef])
                   and not any(isinstance(x, Nm.MultiName) for x in alts))
        prove('alternatives-are-the-flattening', flat_ok, clause='set(alt_names) == flatten(names); no duplicates; no nested MultiName', path=p)
        if not flat_ok:
            return
        # order: unbound first, then by position of the definition
        if True:
            first_undef = alts[0] is undef
            prove('unbound-first[C17]', first_undef, clause='`unbound` is listed first', path=p)
            rest = alts[1:] if first_undef else [a for a in alts if a is not undef]
            if twin:
                rest = rest[::-1]
            cs = [lt((lift(a.declared_at[0]), lift(a.declared_at[1])), (lift(b.declared_at[0]), lift(b.declared_at[1])))
                  for a, b in zip(rest, rest[1:])]
            prove('alternatives-in-source-order[C17]', z3.And(*cs), clause='alternatives are listed in source order of the definitions', path=p)
        prove('name-is-the-identifier', m.name == 'v', path=p)
        prove('has-undefined-iff-unbound-alternative[C03]', m.has_undefined is True, path=p)
        vn = m.valid_names
        prove('valid-names-are-the-definitions-in-order', [id(x) for x in vn] == [id(x) for x in alts if x is not undef], path=p)
        prove('first-name-is-the-first-definition', Nm.first_name(m) is vn[0], path=p)
    core.explore(body, on_path)


@harness(['C17', 'C06'], 'supp.evaluator.EvalCtx._evaluate[MultiName] / declarations[MultiName]')
def evaluate_multiname_order(run):
    """evaluating a multiply-bound name: the values of the resulting CompositeValue are the values of the alternatives in the order of the
    alternatives (source order), and declarations() lists the alternatives in that order - whatever order any set would be iterated in
    (set iteration is an arbitrary permutation in the namespace the function runs in: all permutations explored)"""
    import supp.name as Nm
    import supp.evaluator as E
    f = loader.load('supp.evaluator', 'EvalCtx._evaluate', stubs={'set': PermSet, 'list': lambda x=(): x.permuted() if isinstance(x, PermSet) else list(x),
                                                                  'frozenset': PermSet})
    fd = loader.load('supp.evaluator', 'EvalCtx.declarations', stubs={'set': PermSet, 'list': lambda x=(): x.permuted() if isinstance(x, PermSet) else list(x)})
    holder = {}

    def body():
        alts = [Nm.AssignedName('v', (i + 1, 0), (i + 1, 0), None) for i in range(4)]
        m = Nm.MultiName(alts + [Nm.UndefinedName('v')])
        vals = {id(a): Nm.AttrObject({'n': i}) for i, a in enumerate(alts)}

        class Ctx(object):
            def evaluate(self, n):
                return vals.get(id(n))
        holder.update(alts=alts, vals=vals)
        c = Ctx()
        r = f(c, m)
        d = fd(c, m, [])
        return r, d

    def on_path(p, out):
        if out[0] != 'ok':
            prove('no-exception(%s)' % type(out[1]).__name__, False, path=p)
            return
        r, d = out[1]
        alts, vals = holder['alts'], holder['vals']
        ok = isinstance(r, Nm.CompositeValue) and [id(v) for v in r.values] == [id(vals[id(a)]) for a in alts]
        prove('values-in-the-order-of-the-alternatives', ok, clause='CompositeValue.values follow the source order of the definitions', path=p)
        ok2 = len(d) == 1 and [id(x) for x in d[0]] == [id(a) for a in alts]
        prove('declarations-list-the-alternatives-in-source-order', ok2, path=p)
    core.explore(body, on_path)


# the sets that are iterated on the way to an ordered answer, each with the reason its order cannot reach the output
SET_SITES_ALLOWED = {
    ('supp/scope.py', 'Flow.parent_names'): (3, 'nameset / nrow / outer_names: rows are re-ordered by MultiName.__init__ (proved above); table key order never reaches an output (assist sorts, lint walks reads and regions)'),
    ('supp/name.py', 'AdditionalNameWrapper.attr_list'): (2, 'a set of attribute names: assist sorts'),
    ('supp/name.py', 'CompositeValue.attr_list'): (1, 'a set of attribute names: assist sorts'),
    ('supp/name.py', 'MultiValue.attr_list'): (1, 'a set of attribute names: assist sorts'),
    ('supp/assistant.py', 'assist'): (2, 'set(plist) | set(names): sorted'),
    ('supp/project.py', 'Project.__init__'): (1, 'dyn_modules: membership tests only'),
    ('supp/project.py', 'Project.list_packages'): (1, 'a set of names: its only consumer sorts'),
    ('supp/linter.py', 'lint'): (1, 'qualified_imports: membership tests only'),
    ('supp/evaluator.py', 'EvalCtx.__init__'): (1, 'nodes: membership tests only'),
    ('supp/scope.py', 'Scope.__init__'): (3, 'locals / globals / nonlocals: membership tests and set difference only'),
}


@harness(['C17'], 'supp/*.py [frame scan: sets on the way to ordered output]')
def set_sites_scan(run):
    """mechanical scan of the modules between the entry points and the answers (assistant, linter, evaluator, name, scope, project, nast,
    module, merged_dict): every construction of a set (set(...), frozenset(...), set display, set comprehension) sits in a function
    listed with the reason its iteration order cannot reach an ordered result; no use of id(), hash(), random, time in those modules"""
    import ast
    import os

    def go(path):
        found = {}
        banned = []
        for mod in ('assistant', 'linter', 'evaluator', 'name', 'scope', 'project', 'nast', 'module', 'merged_dict'):
            fn = os.path.join(core.REPO, 'supp', mod + '.py')
            tree = ast.parse(open(fn).read())
            stack = []

            class V(ast.NodeVisitor):
                def visit_ClassDef(self, n):
                    stack.append(n.name)
                    self.generic_visit(n)
                    stack.pop()

                def visit_FunctionDef(self, n):
                    stack.append(n.name)
                    self.generic_visit(n)
                    stack.pop()
                visit_AsyncFunctionDef = visit_FunctionDef

                def hit(self, n):
                    key = ('supp/%s.py' % mod, '.'.join(stack) or '<module>')
                    found[key] = found.get(key, 0) + 1

                def visit_Call(self, n):
                    if isinstance(n.func, ast.Name) and n.func.id in ('set', 'frozenset'):
                        self.hit(n)
                    if isinstance(n.func, ast.Name) and n.func.id in ('id', 'hash'):
                        banned.append(('supp/%s.py' % mod, '.'.join(stack), n.func.id))
                    self.generic_visit(n)

                def visit_Set(self, n):
                    self.hit(n)
                    self.generic_visit(n)

                def visit_SetComp(self, n):
                    self.hit(n)
                    self.generic_visit(n)

                def visit_Import(self, n):
                    for a in n.names:
                        if a.name.split('.')[0] in ('random', 'time', 'uuid'):
                            banned.append(('supp/%s.py' % mod, 'import', a.name))
            V().visit(tree)
        for key, cnt in sorted(found.items()):
            allowed = SET_SITES_ALLOWED.get(key)
            prove('set-site-%s:%s' % key, allowed is not None and cnt <= allowed[0],
                  clause='%d set construction(s) in %s %s: %s' % (cnt, key[0], key[1], allowed[1] if allowed else
                                                                 'NOT LISTED - its iteration order may reach an ordered answer'), path=path)
        prove('no-identity-hash-random-time', not banned, clause='no id() / hash() / random / time in the analysis modules [%r]' % (banned,), path=path)
    core.explore(lambda: None, lambda p, out: go(p))
