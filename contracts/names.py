"""Sidecar contracts for supp/name.py: MultiName (C02, C03, C17), first_name, and the evaluator's declarations() (C02, C17)."""
import itertools

import z3

from pysym import core, loader
from pysym.core import prove, assume, EngineEscape
from pysym.harness import harness
from pysym.proxies import Proxy, SInt, lift

Int = z3.IntSort()

ORDER_REPLAY = '''import sys, subprocess, json
code = """
import sys; sys.path.insert(0, %(repo)r)
from supp.assistant import location
from supp.project import Project
src = 'def f(c):\\\\n    if c == 1:\\\\n        v = 1\\\\n    elif c == 2:\\\\n        v = 2\\\\n    elif c == 3:\\\\n        v = 3\\\\n    else:\\\\n        v = 4\\\\n    return v\\\\n'
print(location(Project(['/nonexistent']), src, (10, 12)))
"""
outs = set()
import os
for seed in range(1, 9):
    r = subprocess.run([sys.executable, '-c', code], capture_output=True, text=True, env=dict(os.environ, PYTHONHASHSEED=str(seed)))
    outs.add(r.stdout.strip())
exp = "[[{'loc': (3, 8), 'file': '<string>'}, {'loc': (5, 8), 'file': '<string>'}, {'loc': (7, 8), 'file': '<string>'}, {'loc': (9, 8), 'file': '<string>'}]]"
if len(outs) != 1 or outs != {exp}:
    print('REPRODUCED: go-to-definition of a name bound in four branches, under 8 hash seeds: %%d different answers, e.g. %%s (source order: %%s)' %% (len(outs), sorted(outs)[0], exp)); sys.exit(1)
print('not reproduced')
'''


class PermSet(object):
    """set(items): iteration order is an ARBITRARY permutation (assumed contract of set iteration for objects hashed by identity)"""
    def __init__(self, items=()):
        self.items = []
        for x in items:
            self.add(x)

    def add(self, x):
        if not any(y is x or (type(y) in (str, int, tuple) and y == x) for y in self.items):
            self.items.append(x)

    def update(self, *others):
        for o in others:
            for x in o:
                self.add(x)

    def __contains__(self, x):
        return any(y is x or (type(y) in (str, int, tuple) and y == x) for y in self.items)

    def permuted(self):
        perms = list(itertools.permutations(self.items))
        return list(perms[core.choice(len(perms))])

    def __iter__(self):
        return iter(self.permuted())

    def __len__(self):
        return len(self.items)


@harness(['C17', 'C02', 'C03'], 'supp.name.MultiName.__init__ / valid_names / has_undefined / first_name',
         twins=('spec-reverse-source-order',))
def multiname_contract(run, twin=None):
    """MultiName(names): the alternatives are exactly the flattening of `names` (nested MultiNames expanded, no duplicates, no MultiName
    inside), and their ORDER does not depend on the iteration order of any set: source order of the definitions (`unbound` first);
    has_undefined <=> `unbound` is an alternative; valid_names == the alternatives without it, same order; first_name picks the first.
    Set iteration is modelled as an arbitrary permutation, all permutations are explored (up to 4 alternatives), positions are symbolic"""
    import supp.name as Nm
    run.trust('set iteration order: an arbitrary permutation chosen afresh at each conversion (Python makes no promise; objects hash by identity)')
    run.concretise = lambda model, ob: {'input': 'a name bound in four branches; 8 interpreter processes with different PYTHONHASHSEED',
                                        'script': ORDER_REPLAY % {'repo': core.REPO}}
    f = loader.load('supp.name', 'MultiName.__init__', stubs={'set': PermSet, 'list': lambda x: x.permuted() if isinstance(x, PermSet) else list(x)})
    outs = {}

    def mk(i):
        n = Nm.AssignedName('v', (SInt(z3.Int('vl%d' % i)), SInt(z3.Int('vc%d' % i))),
                            (SInt(z3.Int('dl%d' % i)), SInt(z3.Int('dc%d' % i))), None)
        n._i = i
        return n
    names = [mk(i) for i in range(3)]
    undef = Nm.UndefinedName('v')

    def lt(a, b):
        return z3.Or(a[0] < b[0], z3.And(a[0] == b[0], a[1] < b[1]))

    def body():
        # definitions have pairwise different positions, all after (0, 0)
        for i in range(3):
            assume(z3.And(z3.Int('dl%d' % i) >= 1, z3.Int('dc%d' % i) >= 0))
            for j in range(i):
                assume(z3.Or(z3.Int('dl%d' % i) != z3.Int('dl%d' % j), z3.Int('dc%d' % i) != z3.Int('dc%d' % j)))
        inner = loader.bare_instance(Nm.MultiName)
        inner.alt_names = [names[1], undef]
        inner.name = 'v'
        m = loader.bare_instance(Nm.MultiName)
        # the row arrives in an arbitrary order (parent_names builds it through a set)
        row = PermSet([names[0], inner, names[2]]).permuted() + [names[1]]
        f(m, row)
        return m

    def on_path(p, out):
        if out[0] != 'ok':
            prove('no-exception(%s)' % type(out[1]).__name__, False, path=p)
            return
        m = out[1]
        alts = m.alt_names
        ids = [id(x) for x in alts]
        flat_ok = (len(alts) == 4 and len(set(ids)) == 4 and set(ids) == set(id(x) for x in names + [undef])
                   and not any(isinstance(x, Nm.MultiName) for x in alts))
        prove('alternatives-are-the-flattening', flat_ok, clause='set(alt_names) == flatten(names); no duplicates; no nested MultiName', path=p)
        if not flat_ok:
            return
        # order: unbound first, then by position of the definition
        if True:
            first_undef = alts[0] is undef
            prove('unbound-first[C17]', first_undef, clause='`unbound` is listed first', path=p)
            rest = alts[1:] if first_undef else [a for a in alts if a is not undef]
            if twin:
                rest = rest[::-1]
            cs = [lt((lift(a.declared_at[0]), lift(a.declared_at[1])), (lift(b.declared_at[0]), lift(b.declared_at[1])))
                  for a, b in zip(rest, rest[1:])]
            prove('alternatives-in-source-order[C17]', z3.And(*cs), clause='alternatives are listed in source order of the definitions', path=p)
        prove('name-is-the-identifier', m.name == 'v', path=p)
        prove('has-undefined-iff-unbound-alternative[C03]', m.has_undefined is True, path=p)
        vn = m.valid_names
        prove('valid-names-are-the-definitions-in-order', [id(x) for x in vn] == [id(x) for x in alts if x is not undef], path=p)
        prove('first-name-is-the-first-definition', Nm.first_name(m) is vn[0], path=p)
    core.explore(body, on_path)


@harness(['C17', 'C06'], 'supp.evaluator.EvalCtx._evaluate[MultiName] / declarations[MultiName]')
def evaluate_multiname_order(run):
    """evaluating a multiply-bound name: the values of the resulting CompositeValue are the values of the alternatives in the order of the
    alternatives (source order), and declarations() lists the alternatives in that order - whatever order any set would be iterated in
    (set iteration is an arbitrary permutation in the namespace the function runs in: all permutations explored)"""
    import supp.name as Nm
    import supp.evaluator as E
    f = loader.load('supp.evaluator', 'EvalCtx._evaluate', stubs={'set': PermSet, 'list': lambda x=(): x.permuted() if isinstance(x, PermSet) else list(x),
                                                                  'frozenset': PermSet})
    fd = loader.load('supp.evaluator', 'EvalCtx.declarations', stubs={'set': PermSet, 'list': lambda x=(): x.permuted() if isinstance(x, PermSet) else list(x)})
    holder = {}

    def body():
        alts = [Nm.AssignedName('v', (i + 1, 0), (i + 1, 0), None) for i in range(4)]
        m = Nm.MultiName(alts + [Nm.UndefinedName('v')])
        vals = {id(a): Nm.AttrObject({'n': i}) for i, a in enumerate(alts)}

        class Ctx(object):
            def evaluate(self, n):
                return vals.get(id(n))
        holder.update(alts=alts, vals=vals)
        c = Ctx()
        r = f(c, m)
        d = fd(c, m, [])
        return r, d

    def on_path(p, out):
        if out[0] != 'ok':
            prove('no-exception(%s)' % type(out[1]).__name__, False, path=p)
            return
        r, d = out[1]
        alts, vals = holder['alts'], holder['vals']
        ok = isinstance(r, Nm.CompositeValue) and [id(v) for v in r.values] == [id(vals[id(a)]) for a in alts]
        prove('values-in-the-order-of-the-alternatives', ok, clause='CompositeValue.values follow the source order of the definitions', path=p)
        ok2 = len(d) == 1 and [id(x) for x in d[0]] == [id(a) for a in alts]
        prove('declarations-list-the-alternatives-in-source-order', ok2, path=p)
    core.explore(body, on_path)


# the sets whose iteration order can leave the constructing expression (returned, iterated, passed on), each with the reason the order
# cannot reach an answer; sets used only for membership / size / set algebra / sorted(...) need no entry (order_can_escape decides)
SET_SITES_ALLOWED = {
    ('supp/scope.py', 'Flow.parent_names'): (4, 'nameset / nrow / outer_names (function and class branch): rows are re-ordered by MultiName.__init__ (proved above); table key order never reaches an output (assist sorts, lint walks reads and regions)'),
    ('supp/name.py', 'AdditionalNameWrapper.attr_list'): (2, 'a set of attribute names: assist sorts'),
    ('supp/name.py', 'CompositeValue.attr_list'): (1, 'a set of attribute names: assist sorts'),
    ('supp/name.py', 'MultiValue.attr_list'): (1, 'a set of attribute names: assist sorts'),
    ('supp/project.py', 'Project.list_packages'): (1, 'a set of names: its only consumer sorts'),
    ('supp/scope.py', 'Scope.__init__'): (2, 'locals / globals: iterated only to build dictionaries (parent_names) and sets; key order never reaches an output'),
}


ORDER_FREE_CALLS = ('sorted', 'len', 'any', 'all', 'sum', 'bool', 'set', 'frozenset', 'min', 'max', 'isinstance')
ORDER_FREE_METHODS = ('add', 'update', 'discard', 'remove', 'clear', 'difference_update', 'intersection_update', 'symmetric_difference_update',
                      'issubset', 'issuperset', 'isdisjoint', '__contains__')
SET_VALUED_METHODS = ('difference', 'union', 'intersection', 'symmetric_difference', 'copy')


def order_can_escape(node, parents, fn_node, all_trees):
    """syntactic frame analysis of ONE set-valued expression: None when every use of the value is insensitive to iteration order
    (membership, size, truth, set algebra, sorted(...), mutation), else a description of the first use that may observe the order"""
    import ast
    par = parents.get(node)
    if par is None:
        return 'no context'
    if isinstance(par, ast.Expr):
        return None
    if isinstance(par, ast.Call):
        if node in par.args and isinstance(par.func, ast.Name) and par.func.id in ORDER_FREE_CALLS:
            if par.func.id in ('set', 'frozenset'):
                return order_can_escape(par, parents, fn_node, all_trees)
            return None
        if isinstance(par.func, ast.Attribute) and node in par.args and par.func.attr in ORDER_FREE_METHODS + SET_VALUED_METHODS:
            return None        # an argument of a set operation of another set
        return 'passed to %s()' % (ast.unparse(par.func),)
    if isinstance(par, ast.Attribute) and par.value is node:
        gp = parents.get(par)
        if isinstance(gp, ast.Call) and gp.func is par:
            if par.attr in ORDER_FREE_METHODS:
                return None
            if par.attr in SET_VALUED_METHODS:
                return order_can_escape(gp, parents, fn_node, all_trees)
            return 'method .%s()' % par.attr
        return 'attribute .%s' % par.attr
    if isinstance(par, ast.Compare):
        if node in par.comparators and all(isinstance(o, (ast.In, ast.NotIn, ast.Eq, ast.NotEq, ast.LtE, ast.GtE, ast.Lt, ast.Gt)) for o in par.ops):
            return None
        if node is par.left and all(isinstance(o, (ast.Eq, ast.NotEq, ast.LtE, ast.GtE, ast.Lt, ast.Gt)) for o in par.ops):
            return None
        return 'comparison'
    if isinstance(par, ast.BinOp) and isinstance(par.op, (ast.BitOr, ast.BitAnd, ast.Sub, ast.BitXor)):
        return order_can_escape(par, parents, fn_node, all_trees)
    if isinstance(par, (ast.BoolOp, ast.IfExp)):
        return order_can_escape(par, parents, fn_node, all_trees) if not (isinstance(par, ast.IfExp) and par.test is node) else None
    if isinstance(par, (ast.If, ast.While, ast.Assert)) and par.test is node:
        return None
    if isinstance(par, ast.UnaryOp) and isinstance(par.op, ast.Not):
        return None
    if isinstance(par, ast.AugAssign) and par.value is node and isinstance(par.op, (ast.BitOr, ast.BitAnd, ast.Sub, ast.BitXor)):
        return None
    if isinstance(par, ast.comprehension) and par.iter is node:
        comp = parents.get(par)
        if isinstance(comp, ast.SetComp):
            return order_can_escape(comp, parents, fn_node, all_trees)
        if isinstance(comp, ast.GeneratorExp):
            cp = parents.get(comp)
            if isinstance(cp, ast.Call) and isinstance(cp.func, ast.Name) and cp.func.id in ORDER_FREE_CALLS:
                return order_can_escape(cp, parents, fn_node, all_trees) if cp.func.id in ('set', 'frozenset') else None
        return 'iterated by a comprehension'
    if isinstance(par, (ast.For, ast.AsyncFor)) and par.iter is node:
        return 'iterated by a for loop'
    if isinstance(par, (ast.Assign, ast.AnnAssign)) and par.value is node:
        tgts = par.targets if isinstance(par, ast.Assign) else [par.target]
        for t in tgts:
            if isinstance(t, ast.Name):
                scope = fn_node if fn_node is not None else all_trees[0]
                for u in ast.walk(scope):
                    if isinstance(u, ast.Name) and u.id == t.id and isinstance(u.ctx, ast.Load):
                        why = order_can_escape(u, parents, fn_node, all_trees)
                        if why:
                            return '%s (through the variable %s, line %d)' % (why, t.id, u.lineno)
            elif isinstance(t, ast.Attribute):
                for tree in all_trees:
                    for u in ast.walk(tree):
                        if isinstance(u, ast.Attribute) and u.attr == t.attr and isinstance(u.ctx, ast.Load):
                            why = order_can_escape(u, PARENTS[id(tree)], None, all_trees)
                            if why:
                                return '%s (through the attribute .%s, line %d)' % (why, t.attr, u.lineno)
            else:
                return 'assigned to %s' % ast.unparse(t)
        return None
    if isinstance(par, ast.Return):
        return 'returned'
    return 'used in %s' % type(par).__name__


PARENTS = {}


@harness(['C17'], 'supp/*.py [frame scan: sets on the way to ordered output]')
def set_sites_scan(run):
    """mechanical scan of the modules between the entry points and the answers (assistant, linter, evaluator, name, scope, project, nast,
    module, merged_dict): for every construction of a set (set(...), frozenset(...), set display, set comprehension) either every use of the
    value is insensitive to iteration order (membership, size, set algebra, sorted(...), mutation: decided syntactically, through local
    variables and attributes), or it sits in a function listed with the reason its iteration order cannot reach an ordered result.  A new set
    whose order may escape and which is not listed leaves the frame condition UNDECIDED (it is not reported as a violation: the behavioural
    obligations above decide that).  No use of id(), hash(), random, time in those modules"""
    import ast
    import os

    def go(path):
        found = {}
        banned = []
        trees = {}
        mods = ('assistant', 'linter', 'evaluator', 'name', 'scope', 'project', 'nast', 'module', 'merged_dict')
        for mod in mods:
            fn = os.path.join(core.REPO, 'supp', mod + '.py')
            tree = ast.parse(open(fn).read())
            trees[mod] = tree
            PARENTS[id(tree)] = {c: p for p in ast.walk(tree) for c in ast.iter_child_nodes(p)}
        all_trees = list(trees.values())
        for mod in mods:
            tree = trees[mod]
            parents = PARENTS[id(tree)]
            stack = []
            fstack = []

            class V(ast.NodeVisitor):
                def visit_ClassDef(self, n):
                    stack.append(n.name)
                    self.generic_visit(n)
                    stack.pop()

                def visit_FunctionDef(self, n):
                    stack.append(n.name)
                    fstack.append(n)
                    self.generic_visit(n)
                    fstack.pop()
                    stack.pop()
                visit_AsyncFunctionDef = visit_FunctionDef

                def hit(self, n):
                    key = ('supp/%s.py' % mod, '.'.join(stack) or '<module>')
                    why = order_can_escape(n, parents, fstack[-1] if fstack else None, [tree] + [t for t in all_trees if t is not tree])
                    found.setdefault(key, []).append((n.lineno, why))

                def visit_Call(self, n):
                    if isinstance(n.func, ast.Name) and n.func.id in ('set', 'frozenset'):
                        self.hit(n)
                    if isinstance(n.func, ast.Name) and n.func.id in ('id', 'hash'):
                        banned.append(('supp/%s.py' % mod, '.'.join(stack), n.func.id))
                    self.generic_visit(n)

                def visit_Set(self, n):
                    self.hit(n)
                    self.generic_visit(n)

                def visit_SetComp(self, n):
                    self.hit(n)
                    self.generic_visit(n)

                def visit_Import(self, n):
                    for a in n.names:
                        if a.name.split('.')[0] in ('random', 'time', 'uuid'):
                            banned.append(('supp/%s.py' % mod, 'import', a.name))
            V().visit(tree)
        uncovered = []
        for key, sites in sorted(found.items()):
            escaping = [(ln, why) for ln, why in sites if why]
            allowed = SET_SITES_ALLOWED.get(key)
            if not escaping:
                prove('set-site-%s:%s' % key, True, clause='%d set construction(s) in %s %s: every use is insensitive to iteration order' % (
                    len(sites), key[0], key[1]), path=path)
            elif allowed is not None and len(escaping) <= allowed[0]:
                prove('set-site-%s:%s' % key, True, clause='%d set construction(s) in %s %s whose order may leave the function: %s' % (
                    len(escaping), key[0], key[1], allowed[1]), path=path)
            else:
                uncovered.append('%s %s line %d: %s' % (key[0], key[1], escaping[0][0], escaping[0][1]))
        prove('no-identity-hash-random-time', not banned, clause='no id() / hash() / random / time in the analysis modules [%r]' % (banned,), path=path)
        if uncovered:
            raise core.EngineEscape('frame condition of C17 not covered: a set whose iteration order may reach an answer is constructed in a place '
                                    'no contract accounts for: %s' % '; '.join(uncovered))
    core.explore(lambda: None, lambda p, out: go(p))


# ---------------------------------------------------------------------------
# whole-API stand-in: every set of the analysis modules iterates in an adversarial order

PERMSET_SRC = '''
class PermSet(object):
    """a set whose iteration order is chosen by the checker (the language leaves it unspecified): insertion order, its reverse, or rotated"""
    MODE = 0

    def __init__(self, it=()):
        self._d = {}
        for x in it:
            self._d[x] = None

    def __iter__(self):
        ks = list(self._d)
        if PermSet.MODE == 1:
            ks.reverse()
        elif PermSet.MODE == 2 and ks:
            k = len(ks) // 2 + 1
            ks = ks[k:] + ks[:k]
        elif PermSet.MODE == 3:
            ks = ks[1::2] + ks[0::2]
        return iter(ks)

    def __len__(self): return len(self._d)
    def __contains__(self, x): return x in self._d
    def __bool__(self): return bool(self._d)
    def __eq__(self, o): return set(self._d) == set(o)
    def __ne__(self, o): return not self == o
    __hash__ = None
    def __repr__(self): return 'PermSet(%r)' % (list(self),)
    def add(self, x): self._d[x] = None
    def discard(self, x): self._d.pop(x, None)
    def remove(self, x): del self._d[x]
    def clear(self): self._d.clear()
    def copy(self): return PermSet(self._d)
    def pop(self):
        x = next(iter(self)); del self._d[x]; return x
    def update(self, *others):
        for o in others:
            for x in o: self._d[x] = None
    def difference_update(self, *others):
        for o in others:
            for x in list(o): self._d.pop(x, None)
    def intersection_update(self, *others):
        for o in others:
            keep = set(o)
            for x in list(self._d):
                if x not in keep: del self._d[x]
    def union(self, *others):
        r = self.copy(); r.update(*others); return r
    def difference(self, *others):
        r = self.copy(); r.difference_update(*others); return r
    def intersection(self, *others):
        r = self.copy(); r.intersection_update(*others); return r
    def symmetric_difference(self, o):
        o = PermSet(o); return (self - o) | (o - self)
    def issubset(self, o): return all(x in o for x in self._d)
    def issuperset(self, o): return all(x in self._d for x in o)
    def isdisjoint(self, o): return not any(x in self._d for x in o)
    def __or__(self, o): return self.union(o)
    def __ror__(self, o): return PermSet(o).union(self)
    def __and__(self, o): return self.intersection(o)
    def __rand__(self, o): return PermSet(o).intersection(self)
    def __sub__(self, o): return self.difference(o)
    def __rsub__(self, o): return PermSet(o).difference(self)
    def __xor__(self, o): return self.symmetric_difference(o)
    def __ior__(self, o): self.update(o); return self
    def __iand__(self, o): self.intersection_update(o); return self
    def __isub__(self, o): self.difference_update(o); return self
    def __le__(self, o): return self.issubset(o)
    def __ge__(self, o): return self.issuperset(o)
    def __lt__(self, o): return self.issubset(o) and len(self) < len(o)
    def __gt__(self, o): return self.issuperset(o) and len(self) > len(o)


def install(mode):
    import importlib
    PermSet.MODE = mode
    for m in ('assistant', 'linter', 'evaluator', 'name', 'scope', 'project', 'nast', 'module', 'util'):
        mod = importlib.import_module('supp.' + m)
        mod.__dict__['set'] = PermSet
        mod.__dict__['frozenset'] = PermSet
        # sets built when the module was imported
        for k, v in list(mod.__dict__.items()):
            if type(v).__name__ in ('set', 'frozenset') and type(v).__module__ == 'builtins':
                mod.__dict__[k] = PermSet(sorted(v, key=repr))
'''

ORDER_CORPUS = [
    ('four-branches', '''import os
def f(c):
    if c == 1:
        x = os
    elif c == 2:
        x = 2
    elif c == 3:
        x = "s"
    else:
        x = []
    zz = 1
    yy = 2
    undefined_one(undefined_two, x)
    return x
''', [(14, 12)], [(13, 35)]),
    ('loop-and-try', '''def g(items):
    acc = None
    for it in items:
        try:
            val = it.a
        except KeyError:
            val = 0
        except ValueError as e:
            val = e
        else:
            other = 1
        acc = val
    while acc:
        acc = step(acc, val)
    unused_a = unused_b = 0
    return acc, val
''', [(16, 11), (16, 16)], [(14, 24)]),
    ('class-attrs', '''class Base(object):
    kind = 1
    def method_b(self):
        self.inst_b = 1
class Mixin:
    flag = True
    def mix(self): pass
class D(Base, Mixin):
    own = 2
    def method_d(self):
        self.inst_d = self.own
d = D()
d.own
b = Base() if d else D()
b.kind
''', [(13, 2), (15, 2)], [(13, 2), (15, 2)]),
    ('merged-value-attribute', '''class A:
    def shared(self): return 1
    only_a = 1
class B:
    def shared(self): return 2
    only_b = 2
class C(B):
    def shared(self): return 3
def pick(c):
    if c == 1:
        v = A()
    elif c == 2:
        v = B()
    else:
        v = C()
    v.shared
    v.only_b
    return v
''', [(16, 6)], [(16, 12), (17, 12)]),
    ('same-attribute-assigned-in-two-bases', '''class A(object):
    def open_a(self):
        self.conn = 1
        self.only_a = 1
class B(object):
    def open_b(self):
        self.conn = "b"
        self.only_b = 2
class B2(B):
    def reopen(self):
        self.conn = []
class C(A, B2):
    def use(self):
        return self.conn
c = C()
c.conn
''', [(14, 20), (16, 2)], [(14, 23), (16, 6)]),
    ('one-attribute-assigned-from-several-owners', '''class Cfg(object):
    pass
cfg = Cfg()
cfg.mode = 0
def plain():
    cfg.mode = "p"
class One(object):
    def set(self):
        cfg.mode = 1.0
class Two(object):
    def set(self):
        cfg.mode = []
class Three(object):
    def set(self):
        cfg.mode = {}
    def again(self):
        cfg.mode = ()
cfg.mode
''', [(18, 4)], [(18, 8)]),
    ('two-free-heads-in-the-linearisation', '''class Base(object):
    def run(self):
        return 1
    shared = 1
class Worker(Base):
    pass
class Mixin(object):
    def run(self):
        return 2
    shared = 2
class Other(object):
    shared = 3
class Job(Worker, Mixin, Other):
    pass
Job().run
Job.shared
''', [(15, 6), (16, 4)], [(15, 9), (16, 10)]),
    ('closures-globals', '''import sys, os.path
from os import path as p1, sep as s1
count = 0
def outer(a, b=1, *args, k=2, **kw):
    global count
    tmp = a
    def inner():
        nonlocal tmp
        tmp = b
        return tmp, k, args, kw, count, sys
    lam = lambda q, r=tmp: (q, r, missing_name)
    return inner, lam
[v for v in (1, 2) if (w := v)]
print(w, p1)
''', [(15, 7), (10, 18)], [(15, 7)]),
]

# a source root whose file names carry multi-part extension suffixes: (relative path, content)
ORDER_TREE = [('ext_mod.cpython-312-x86_64-linux-gnu.so', ''), ('abi_mod.abi3.so', ''), ('plain_so.so', ''), ('plain_mod.py', 'v = 1\n'),
              ('pkg_o/__init__.py', ''), ('pkg_o/inner_ext.abi3.so', ''), ('pkg_o/inner_cp.cpython-312-x86_64-linux-gnu.so', ''), ('pkg_o/inner.py', 'w = 2\n')]
ORDER_TREE_CALLS = [('import ', (1, 7)), ('import pkg_o.', (1, 13)), ('from pkg_o import ', (1, 18)), ('from . import ', (1, 14))]

ORDER_REPLAY = '''import sys, json, os, tempfile, shutil; sys.path.insert(0, %(repo)r)
''' + PERMSET_SRC.replace('%', '%%') + '''
from supp.project import Project
import supp.linter, supp.assistant
src = %(src)r
root = tempfile.mkdtemp(prefix='supp-c17-')
for rel, content in %(tree)r:
    os.makedirs(os.path.dirname(os.path.join(root, rel)), exist_ok=True)
    open(os.path.join(root, rel), 'w').write(content)
outs = []
for mode in (0, %(mode)d):
    install(mode)
    p = Project([root])
    outs.append(%(call)s)
shutil.rmtree(root, ignore_errors=True)
print('sets iterated in insertion order :', outs[0])
print('sets iterated in another order   :', outs[1])
print('REPRODUCED: the answer depends on the iteration order of a set' if outs[0] != outs[1] else 'not reproduced')
'''


@harness(['C17'], 'supp.linter.lint / supp.assistant.assist / location [every set(...) of the analysis modules iterates in an adversarial order]',
         bounded='7 programs (a hierarchy in whose linearisation several classes are free at once, branches, loops and try, class hierarchy with instance attributes, one attribute assigned through self in several bases, an attribute of a value merged from three branches, closures / globals / imports / comprehension) x '
                 '{lint, assist and location at 1-2 cursor positions} x 4 iteration orders of every set constructed through set() / frozenset() or held by a module global '
                 '(insertion order, reversed, rotated, interleaved); a source root with 8 files of every extension-suffix shape x 4 import completions')
def api_independent_of_set_order(run):
    """BOUNDED whole-API stand-in for the frame condition of C17: the real lint / assist / location with the name `set` of every analysis
    module bound to a set whose iteration order the checker picks; the answers must not change with the order.  Not counted as proved."""
    ns = {}
    exec(PERMSET_SRC, ns)

    def go(path):
        import logging
        import supp.project as Pj
        import supp.linter as L
        import supp.assistant as A
        logging.disable(logging.CRITICAL)
        for name, src, assist_at, loc_at in ORDER_CORPUS:
            calls = [('lint', 'supp.linter.lint(p, src)', lambda p: [d[:4] for d in L.lint(p, src)])]
            for pos in assist_at:
                calls.append(('assist@%d:%d' % pos, 'supp.assistant.assist(p, src, %r)' % (pos,), lambda p, pos=pos: A.assist(p, src, pos)))
            for pos in loc_at:
                calls.append(('location@%d:%d' % pos, 'supp.assistant.location(p, src, %r)' % (pos,), lambda p, pos=pos: A.location(p, src, pos)))
            for label, text, fn in calls:
                outs = []
                for mode in range(4):
                    ns['install'](mode)
                    try:
                        outs.append(repr(fn(Pj.Project(['/nonexistent']))))
                    except Exception as e:
                        outs.append('raised %s: %s' % (type(e).__name__, e))
                diff = [m for m in range(1, 4) if outs[m] != outs[0]]
                if diff:
                    core.RUN.concretise = lambda model, ob, src=src, text=text, m=diff[0]: {
                        'input': {'program': name, 'call': text}, 'script': ORDER_REPLAY % {'repo': core.REPO, 'src': src, 'mode': m, 'call': text, 'tree': []}}
                prove('%s:%s-independent-of-set-order' % (name, label), not diff,
                      clause='%s gives the same answer under every iteration order of the sets [%s]' % (
                          text, 'same' if not diff else '%s  vs  %s' % (outs[0][:300], outs[diff[0]][:300])), path=path)
                core.RUN.concretise = None
        # module names taken from file names with multi-part suffixes (sets built at import time are permuted as well)
        import os
        import shutil
        import tempfile
        root = tempfile.mkdtemp(prefix='supp-c17-')
        try:
            for rel, content in ORDER_TREE:
                os.makedirs(os.path.dirname(os.path.join(root, rel)), exist_ok=True)
                with open(os.path.join(root, rel), 'w') as f:
                    f.write(content)
            for src, pos in ORDER_TREE_CALLS:
                text = 'supp.assistant.assist(p, src, %r, os.path.join(root, "pkg_o", "edited.py"))' % (pos,)
                outs = []
                for mode in range(4):
                    ns['install'](mode)
                    try:
                        outs.append(repr(A.assist(Pj.Project([root]), src, pos, os.path.join(root, 'pkg_o', 'edited.py'))))
                    except Exception as e:
                        outs.append('raised %s: %s' % (type(e).__name__, e))
                diff = [m for m in range(1, 4) if outs[m] != outs[0]]
                if diff:
                    core.RUN.concretise = lambda model, ob, src=src, text=text, m=diff[0]: {
                        'input': {'tree': [t[0] for t in ORDER_TREE], 'call': text}, 'script': ORDER_REPLAY % {
                            'repo': core.REPO, 'src': src, 'mode': m, 'call': text, 'tree': ORDER_TREE}}
                complete = all(n in outs[0] for n in (("'ext_mod'", "'abi_mod'", "'plain_so'", "'plain_mod'", "'pkg_o'") if src == 'import ' else
                                                      ("'inner_ext'", "'inner_cp'", "'inner'")))
                prove('extension-suffixes:%r-independent-of-set-order' % src, not diff and complete,
                      clause='%s proposes every module of the tree under every iteration order of the sets [%s]' % (
                          text, outs[0][-200:] if not diff else '%s  vs  %s' % (outs[0][-200:], outs[diff[0]][-200:])), path=path)
                core.RUN.concretise = None
        finally:
            shutil.rmtree(root, ignore_errors=True)
    core.explore(lambda: None, lambda p, out: go(p))
