"""Sidecar contracts for supp/name.py: MultiName (C02, C03, C17), first_name, and the evaluator's declarations() (C02, C17)."""
import itertools

import z3

from pysym import core, loader
from pysym.core import prove, assume, EngineEscape
from pysym.harness import harness
from pysym.proxies import Proxy, SInt, lift

Int = z3.IntSort()

ORDER_REPLAY = '''import sys, subprocess, json
code = """
import sys; sys.path.insert(0, %(repo)r)
from supp.assistant import location
from supp.project import Project
src = 'def f(c):\\\\n    if c == 1:\\\\n        v = 1\\\\n    elif c == 2:\\\\n        v = 2\\\\n    elif c == 3:\\\\n        v = 3\\\\n    else:\\\\n        v = 4\\\\n    return v\\\\n'
print(location(Project(['/nonexistent']), src, (10, 12)))
"""
outs = set()
import os
for seed in range(1, 9):
    r = subprocess.run([sys.executable, '-c', code], capture_output=True, text=True, env=dict(os.environ, PYTHONHASHSEED=str(seed)))
    outs.add(r.stdout.strip())
exp = "[[{'loc': (3, 8), 'file': '<string>'}, {'loc': (5, 8), 'file': '<string>'}, {'loc': (7, 8), 'file': '<string>'}, {'loc': (9, 8), 'file': '<string>'}]]"
if len(outs) != 1 or outs != {exp}:
    print('REPRODUCED: go-to-definition of a name bound in four branches, under 8 hash seeds: %%d different answers, e.g. %%s (source order: %%s)' %% (len(outs), sorted(outs)[0], exp)); sys.exit(1)
print('not reproduced')
'''


class PermSet(object):
    """set(items): iteration order is an ARBITRARY permutation (assumed contract of set iteration for objects hashed by identity)"""
    def __init__(self, items):
        seen, out = set(), []
        for x in items:
            if id(x) not in seen:
                seen.add(id(x))
                out.append(x)
        self.items = out

    def permuted(self):
        perms = list(itertools.permutations(self.items))
        return list(perms[core.choice(len(perms))])

    def __iter__(self):
        return iter(self.permuted())

    def __len__(self):
        return len(self.items)


@harness(['C17', 'C02', 'C03'], 'supp.name.MultiName.__init__ / valid_names / has_undefined / first_name',
         twins=('spec-reverse-source-order',))
def multiname_contract(run, twin=None):
    """MultiName(names): the alternatives are exactly the flattening of `names` (nested MultiNames expanded, no duplicates, no MultiName
    inside), and their ORDER does not depend on the iteration order of any set: source order of the definitions (`unbound` first);
    has_undefined <=> `unbound` is an alternative; valid_names == the alternatives without it, same order; first_name picks the first.
    Set iteration is modelled as an arbitrary permutation, all permutations are explored (up to 4 alternatives), positions are symbolic"""
    import supp.name as Nm
    run.trust('set iteration order: an arbitrary permutation chosen afresh at each conversion (Python makes no promise; objects hash by identity)')
    run.concretise = lambda model, ob: {'input': 'a name bound in four branches; 8 interpreter processes with different PYTHONHASHSEED',
                                        'script': ORDER_REPLAY % {'repo': core.REPO}}
    f = loader.load('supp.name', 'MultiName.__init__', stubs={'set': PermSet, 'list': lambda x: x.permuted() if isinstance(x, PermSet) else list(x)})
    outs = {}

    def mk(i):
        n = Nm.AssignedName('v', (SInt(z3.Int('vl%d' % i)), SInt(z3.Int('vc%d' % i))),
                            (SInt(z3.Int('dl%d' % i)), SInt(z3.Int('dc%d' % i))), None)
        n._i = i
        return n
    names = [mk(i) for i in range(3)]
    undef = Nm.UndefinedName('v')

    def lt(a, b):
        return z3.Or(a[0] < b[0], z3.And(a[0] == b[0], a[1] < b[1]))

    def body():
        # definitions have pairwise different positions, all after (0, 0)
        for i in range(3):
            assume(z3.And(z3.Int('dl%d' % i) >= 1, z3.Int('dc%d' % i) >= 0))
            for j in range(i):
                assume(z3.Or(z3.Int('dl%d' % i) != z3.Int('dl%d' % j), z3.Int('dc%d' % i) != z3.Int('dc%d' % j)))
        inner = Nm.MultiName.__new__(Nm.MultiName)
        inner.alt_names = [names[1], undef]
        inner.name = 'v'
        m = Nm.MultiName.__new__(Nm.MultiName)
        # the row arrives in an arbitrary order (parent_names builds it through a set)
        row = PermSet([names[0], inner, names[2]]).permuted() + [names[1]]
        f(m, row)
        return m

    def on_path(p, out):
        if out[0] != 'ok':
            prove('no-exception(%s)' % type(out[1]).__name__, False, path=p)
            return
        m = out[1]
        alts = m.alt_names
        ids = [id(x) for x in alts]
        flat_ok = (len(alts) == 4 and len(set(ids)) == 4 and set(ids) == set(id(x) for x in names + [undef])
                   and not any(isinstance(x, Nm.MultiName) for x in alts))
        prove('alternatives-are-the-flattening', flat_ok, clause='set(alt_names) == flatten(names); no duplicates; no nested MultiName', path=p)
        if not flat_ok:
            return
        # order: unbound first, then by position of the definition
        if True:
            first_undef = alts[0] is undef
            prove('unbound-first[C17]', first_undef, clause='`unbound` is listed first', path=p)
            rest = alts[1:] if first_undef else [a for a in alts if a is not undef]
            if twin:
                rest = rest[::-1]
            cs = [lt((lift(a.declared_at[0]), lift(a.declared_at[1])), (lift(b.declared_at[0]), lift(b.declared_at[1])))
                  for a, b in zip(rest, rest[1:])]
            prove('alternatives-in-source-order[C17]', z3.And(*cs), clause='alternatives are listed in source order of the definitions', path=p)
        prove('name-is-the-identifier', m.name == 'v', path=p)
        prove('has-undefined-iff-unbound-alternative[C03]', m.has_undefined is True, path=p)
        vn = m.valid_names
        prove('valid-names-are-the-definitions-in-order', [id(x) for x in vn] == [id(x) for x in alts if x is not undef], path=p)
        prove('first-name-is-the-first-definition', Nm.first_name(m) is vn[0], path=p)
    core.explore(body, on_path)
