"""BOUNDED stand-in for C04 (and the request side of C09): answers do not depend on the query history.  Project modules with the shapes in which a
value or a table is computed while something else is only partially evaluated (mutually recursive functions, attributes assigned on values
reached through self, classes evaluated through their own instances, loops, star imports); every ordered pair of requests on ONE long-lived
Project (each inside check_changes(), as the server does) is compared with the second request alone on a fresh Project.  Not counted as proved:
the deductive obligations of contracts/memo.py cover the memo descriptors and the region tables; this samples the evaluation-side memos."""
import itertools
import os
import shutil
import tempfile

from pysym import core
from pysym.core import prove
from pysym.harness import harness

MODULES = {
    'mutual-recursion': '''class A:
    marker = 1
def f(n):
    if n:
        r = A()
    else:
        r = g(n)
    return r
def g(n):
    v = f(n)
    return v
def h(n):
    return h(n - 1) if n else A()
a = f(0)
b = g(0)
c = h(3)
''',
    'attributes-through-self': '''class Other:
    def __init__(self):
        self.tag = 0
class Helper:
    def make(self):
        return Other()
    def run(self):
        t = self.make()
        t.flag = True
        self.last = 2
        return self
    def me(self):
        return self
o = Other()
h = Helper()
n = h.me()
n.extra = 1
r = h.run()
''',
    'classes': '''class Base:
    kind = 1
    def clone(self):
        return self.__class__()
    def first(self):
        self.seen = 1
        return self
class Left(Base):
    left_only = 1
class Right(Base):
    right_only = 1
    def first(self):
        self.seen_right = 2
        return Base.first(self)
def pick(c):
    if c:
        v = Left()
    else:
        v = Right()
    return v
both = pick(1)
lft = Left().clone()
rgt = Right().first()
''',
    'loops': '''def walk(items):
    cur = None
    for it in items:
        if it:
            cur = Node(it, cur)
        prev = cur
    while cur:
        nxt = cur.parent
        cur = nxt
    return prev, cur
class Node:
    def __init__(self, value, parent):
        self.value = value
        self.parent = parent
pair = walk([1])
one = Node(1, None)
''',
}


PROJECTS = {
    'star-import-cycle': ({'a.py': 'from b import *\nxa = 1\n', 'b.py': 'from a import *\nxb = 2\n', 'c.py': 'from a import xa, xb\nfrom b import *\nxc = 3\n'},
                          [('a.', 'import a\na.', (2, 2)), ('b.', 'import b\nb.', (2, 2)), ('c.', 'import c\nc.', (2, 2)),
                           ('from a import *', 'from a import *\nx', (2, 1)), ('from b import *', 'from b import *\nx', (2, 1))]),
    'star-import-ring-of-three': ({'pa.py': 'from pb import *\nalpha = 1\n', 'pb.py': 'from pc import *\nbeta = 2\n', 'pc.py': 'from pa import *\ngamma = 3\n',
                                   'pd.py': 'from pb import *\nfrom pc import gamma as g2\ndelta = 4\n'},
                                  [('pa.', 'import pa\npa.', (2, 3)), ('pb.', 'import pb\npb.', (2, 3)), ('pc.', 'import pc\npc.', (2, 3)), ('pd.', 'import pd\npd.', (2, 3))]),
    'class-whose-base-is-answered-through-itself': ({'plug.py': 'class Mixin(object):\n    def mixed(self):\n        return 1\n\n\ndef base_for():\n    return Plugin.fallback\n\n\n'
                                                                 'class Plugin(base_for()):\n    fallback = Mixin\n\n    def run(self):\n        return 2\n\n\n'
                                                                 'class Late(Plugin):\n    own = Plugin.fallback\n'},
                                                    [('base_for().', 'import plug\nplug.base_for().', (2, 16)), ('Plugin.', 'import plug\nplug.Plugin.', (2, 12)),
                                                     ('Plugin().', 'import plug\nplug.Plugin().', (2, 14)), ('Late().', 'import plug\nplug.Late().', (2, 12)),
                                                     ('Late.own.', 'import plug\nplug.Late.own.', (2, 14))]),
    'relative-imports-of-two-levels-in-one-module': ({'pkq/__init__.py': '', 'pkq/topmod.py': 'top_name = 1\n', 'pkq/sub/__init__.py': '',
                                                       'pkq/sub/sib.py': 'sib_name = 2\n', 'pkq/sub/user.py': 'from . import sib\nfrom .. import topmod\nu = 3\n'},
                                                      [('sib.', 'from . import sib\nfrom .. import topmod\nsib.', (3, 4)),
                                                       ('topmod.', 'from . import sib\nfrom .. import topmod\ntopmod.', (3, 7)),
                                                       ('topmod-only.', 'from .. import topmod\ntopmod.', (2, 7)), ('sib-only.', 'from . import sib\nsib.', (2, 4)),
                                                       ('user.', 'from . import user\nuser.', (2, 5))], 'pkq/sub/edited.py'),
    'star-import-cycle-own-definitions-before-the-star-import': (
        {'a.py': 'aa = 1\nfrom b import *\n', 'b.py': 'bb = 2\nfrom a import *\n'},
        [('a.', 'import a\na.', (2, 2)), ('b.', 'import b\nb.', (2, 2)),
         ('definition of a.aa', 'import a\na.aa', (2, 4), 'location'), ('definition of a.bb', 'import a\na.bb', (2, 4), 'location'),
         ('definition of b.aa', 'import b\nb.aa', (2, 4), 'location'), ('definition of b.bb', 'import b\nb.bb', (2, 4), 'location')]),
    'star-importer-outside-a-star-import-cycle': (
        {'a.py': 'from b import *\nxa = 1\n', 'b.py': 'from a import *\nxb = 1\n', 'd.py': 'from a import *\nxd = 1\n', 'e.py': 'from d import *\nxe = 1\n'},
        [('d.', 'import d\nd.', (2, 2)), ('d. after the star of b', 'from b import *\nimport d\nd.', (3, 2)), ('d. after the star of a', 'from a import *\nimport d\nd.', (3, 2)),
         ('e.', 'import e\ne.', (2, 2)), ('e. after the star of b', 'from b import *\nimport e\ne.', (3, 2)), ('names after the stars of b and d', 'from b import *\nfrom d import *\nx', (3, 1))]),
    'dotted-import-in-another-text': (
        {'pkg/__init__.py': 'VERSION = 1\n', 'pkg/sub.py': 'inner = 1\n', 'user.py': 'import pkg.sub\nu = 1\n'},
        [('pkg. after import pkg', 'import pkg\npkg.', (2, 4)), ('pkg.sub. after import pkg.sub', 'import pkg.sub\npkg.sub.', (2, 8)),
         ('pkg. after import pkg.sub', 'import pkg.sub\npkg.', (2, 4)), ('definition of pkg.sub after import pkg', 'import pkg\npkg.sub', (2, 7), 'location'),
         ('pkg. after import pkg and user', 'import user\nimport pkg\npkg.', (3, 4))]),
    'from-import-cycle': ({'p.py': 'from q import qv\npv = 1\ndef pf(): return qv\n', 'q.py': 'from p import pv\nqv = 2\nclass Q:\n    attr = pv\n'},
                          [('p.', 'import p\np.', (2, 2)), ('q.', 'import q\nq.', (2, 2)), ('q.Q.', 'import q\nq.Q.', (2, 4)), ('p.pf().', 'import p\np.pf().', (2, 7))]),
}


def requests_for(text):
    """one completion request per top-level name bound to a value, through `import m`"""
    import ast
    names = []
    for st in ast.parse(text).body:
        if isinstance(st, ast.Assign):
            names += [t.id for t in st.targets if isinstance(t, ast.Name)]
        elif isinstance(st, ast.ClassDef):
            names.append(st.name)
    return [('m.%s.' % n, 'import m\nm.%s.' % n, (2, 3 + len(n))) for n in names] + [('lint', None, None), ('m.', 'import m\nm.', (2, 2))]


REPLAY = '''import sys, os, tempfile, shutil; sys.path.insert(0, %(repo)r)
from supp.assistant import assist
from supp.linter import lint
from supp.project import Project
d = tempfile.mkdtemp(prefix='supp-c04-')
try:
    open(os.path.join(d, 'm.py'), 'w').write(%(module)r)
    def ask(p, req):
        with p.check_changes():
            if req[1] is None:
                return [x[:4] for x in lint(p, %(module)r, os.path.join(d, 'm.py'))]
            return assist(p, req[1], req[2], os.path.join(d, 'edited.py'))[1]
    first, second = %(first)r, %(second)r
    p = Project([d])
    ask(p, first)
    after = ask(p, second)
    alone = ask(Project([d]), second)
    print('request', second[0], 'after', first[0], ':', after)
    print('request', second[0], 'alone          :', alone)
    print('REPRODUCED: the answer depends on the request made before it' if after != alone else 'not reproduced')
finally:
    shutil.rmtree(d, ignore_errors=True)
'''


@harness(['C04', 'C09'], 'supp.assistant.assist / supp.linter.lint on one long-lived Project [every ordered pair of requests]',
         bounded='5 projects (a module with relative imports of two levels; modules importing each other in cycles: star imports in rings of two and three, from-imports; a class whose base expression is answered through the class itself), every request sequence of length 2 and 3; 4 project modules (mutually recursive functions with a base case, attributes assigned on values reached through self, a class '
                 'hierarchy evaluated through its instances and through a merged value, loop-carried values) x every ordered pair of requests '
                 '(completion of every top-level name, of the module itself, lint of the module) on one Project, compared with the second '
                 'request alone on a fresh Project')
def request_pairs(run):
    """BOUNDED stand-in: for every ordered pair (q1, q2): the answer to q2 after q1 on the same Project equals the answer to q2 on a fresh
    Project.  Not counted as proved."""
    import logging
    import supp.assistant as A
    import supp.linter as L
    import supp.project as Pj

    def go(path):
        logging.disable(logging.CRITICAL)
        for mname, text in MODULES.items():
            top = tempfile.mkdtemp(prefix='supp-c04-')
            try:
                mfile = os.path.join(top, 'm.py')
                with open(mfile, 'w') as f:
                    f.write(text)

                def ask(project, req):
                    with project.check_changes():
                        try:
                            if req[1] is None:
                                return [d[:4] for d in L.lint(project, text, mfile)]
                            return A.assist(project, req[1], req[2], os.path.join(top, 'edited.py'))[1]
                        except Exception as e:
                            return '<raised %s>' % type(e).__name__
                reqs = requests_for(text)
                alone = {r[0]: ask(Pj.Project([top]), r) for r in reqs}
                bad = []
                n = 0
                for q1, q2 in itertools.permutations(reqs, 2):
                    p = Pj.Project([top])
                    ask(p, q1)
                    got = ask(p, q2)
                    n += 1
                    if got != alone[q2[0]]:
                        bad.append((q1, q2, got))
                # and a third request after two others (all three orders end in q3)
                for q1, q2, q3 in itertools.permutations(reqs[:4], 3):
                    p = Pj.Project([top])
                    ask(p, q1)
                    ask(p, q2)
                    got = ask(p, q3)
                    n += 1
                    if got != alone[q3[0]]:
                        bad.append((q2, q3, got))
                for q1, q2, got in bad[:3]:
                    core.RUN.concretise = lambda model, ob, q1=q1, q2=q2: {'input': {'module': mname, 'first': q1[0], 'second': q2[0]}, 'script': REPLAY % {
                        'repo': core.REPO, 'module': text, 'first': q1, 'second': q2}}
                    prove('%s:%s-after-%s' % (mname, q2[0], q1[0]), False,
                          clause='the answer to %s after %s differs from the answer alone [%r vs %r]' % (q2[0], q1[0], got, alone[q2[0]]), path=path)
                    core.RUN.concretise = None
                prove('%s:every-order-gives-the-same-answers' % mname, not bad,
                      clause='%d request histories on module %r, %d whose last answer differs from the answer on a fresh project' % (n, mname, len(bad)), path=path)
                prove('%s:answers-are-not-trivial' % mname, any(isinstance(v, list) and v for v in alone.values()), kind='lemma', path=path)
            finally:
                shutil.rmtree(top, ignore_errors=True)
        for pname, spec in PROJECTS.items():
            files, reqs = spec[0], spec[1]
            edited = spec[2] if len(spec) > 2 else 'edited.py'
            top = tempfile.mkdtemp(prefix='supp-c04-')
            try:
                for fn, body in files.items():
                    os.makedirs(os.path.dirname(os.path.join(top, fn)), exist_ok=True)
                    with open(os.path.join(top, fn), 'w') as f:
                        f.write(body)

                import contextlib

                def ask2(project, req, edited=edited, direct=False):
                    # as the server asks (inside a change-checking context), or as a caller of the API does who holds a Project and never
                    # enters one: C04 speaks of "one project", not of the context
                    with (contextlib.nullcontext() if direct else project.check_changes()):
                        try:
                            if len(req) > 3 and req[3] == 'location':
                                locs = A.location(project, req[1], req[2], os.path.join(top, edited))
                                return [(os.path.basename(l['file']), tuple(l['loc'])) if isinstance(l, dict) else
                                        [(os.path.basename(x['file']), tuple(x['loc'])) for x in l] for l in locs]
                            return A.assist(project, req[1], req[2], os.path.join(top, edited))[1]
                        except Exception as e:
                            return '<raised %s>' % type(e).__name__
                alone = {r[0]: ask2(Pj.Project([top]), r) for r in reqs}
                bad = []
                n = 0
                for k in (2, 3):
                    for seq in itertools.permutations(reqs, k):
                        p = Pj.Project([top])
                        for q in seq[:-1]:
                            ask2(p, q)
                        got = ask2(p, seq[-1])
                        n += 1
                        if got != alone[seq[-1][0]]:
                            bad.append((seq, got))
                for seq, got in bad[:3]:
                    prove('%s:%s-after-%s' % (pname, seq[-1][0], '+'.join(q[0] for q in seq[:-1])), False,
                          clause='the answer to %s after %s differs from the answer alone [%r vs %r]; files %r' % (
                              seq[-1][0], [q[0] for q in seq[:-1]], got, alone[seq[-1][0]], files), path=path)
                prove('%s:every-order-gives-the-same-answers' % pname, not bad,
                      clause='%d request histories on project %r, %d whose last answer differs from the answer on a fresh project' % (n, pname, len(bad)), path=path)
                # the same pairs asked directly, without a change-checking context
                bad_d = []
                for seq in itertools.permutations(reqs, 2):
                    p = Pj.Project([top])
                    ask2(p, seq[0], direct=True)
                    got = ask2(p, seq[1], direct=True)
                    if got != alone[seq[1][0]]:
                        bad_d.append((seq, got))
                for seq, got in bad_d[:2]:
                    script = ('import sys, os, tempfile, shutil; sys.path.insert(0, %r)\nfrom supp.assistant import assist, location\nfrom supp.project import Project\n'
                              'd = tempfile.mkdtemp(prefix="supp-c04-")\ntry:\n    for fn, body in %r.items():\n        os.makedirs(os.path.dirname(os.path.join(d, fn)), exist_ok=True)\n'
                              '        open(os.path.join(d, fn), "w").write(body)\n    def ask(p, r):\n        f = location if len(r) > 3 else assist\n        a = f(p, r[1], r[2], os.path.join(d, %r))\n'
                              '        return a if len(r) > 3 else a[1]\n    p = Project([d]); ask(p, %r); after = ask(p, %r); alone = ask(Project([d]), %r)\n'
                              '    print("after the other request:", after); print("alone:", alone)\n'
                              '    print("REPRODUCED: without check_changes() the answer depends on the request made before it" if after != alone else "not reproduced")\n'
                              'finally:\n    shutil.rmtree(d, ignore_errors=True)\n') % (core.REPO, files, edited, seq[0], seq[1], seq[1])
                    core.RUN.concretise = lambda model, ob, seq=seq, script=script: {'input': [q[0] for q in seq], 'script': script}
                    prove('%s[asked directly]:%s-after-%s' % (pname, seq[1][0], seq[0][0]), False,
                          clause='without a change-checking context the answer to %s after %s differs from the answer alone [%r vs %r]; files %r' % (
                              seq[1][0], seq[0][0], got, alone[seq[1][0]], files), path=path)
                    core.RUN.concretise = None
                prove('%s[asked directly]:every-order-gives-the-same-answers' % pname, not bad_d,
                      clause='%d ordered pairs of requests on one Project outside check_changes(), %d whose second answer differs from the answer alone' % (
                          len(reqs) * (len(reqs) - 1), len(bad_d)), path=path)
                prove('%s:answers-are-not-trivial' % pname, sum(1 for v in alone.values() if isinstance(v, list) and v) >= 2, kind='lemma',
                      clause='at least two requests of the project have proposals [%r]' % ({k: (len(v) if isinstance(v, list) else v) for k, v in alone.items()},), path=path)
            finally:
                shutil.rmtree(top, ignore_errors=True)
    core.explore(lambda: None, lambda p, out: go(p))


# ---------------------------------------------------------------------------
# C09: histories with edits

CHAIN = {
    'm4.py': ['base = 1\n', 'base = 1\nextra4 = 2\n', 'other = "s"\n'],
    'm3.py': ['import m4\nre3 = m4\nown3 = 3\n', 'import m4\nre3 = m4\nown3b = 33\n'],
    'm2.py': ['from m3 import re3\nfrom m4 import *\nown2 = 2\n', 'from m3 import re3\nown2 = 2\nnew2 = 22\n'],
    'm1.py': ['from m2 import *\nown1 = 1\n', 'from m2 import *\nown1 = 1\nlate1 = 11\n'],
    'm0.py': ['from m5 import *\nfrom m1 import own1\nown0 = 0\n'],            # m5 does not exist at first
    'pk/__init__.py': ['from .inner import thing\nfrom . import inner\n', 'from .inner import thing, thing2\n'],
    'pk/inner.py': ['thing = 1\nthing2 = 2\n', 'thing = "s"\nthing2 = 2\nthing3 = 3\n'],
    # a module that has nothing public at first, star-imported by m7
    'm6.py': ['', '_private6 = 0\n', 'six = 6\n_private6 = 0\n'],
    'm7.py': ['from m6 import *\nown7 = 7\n'],
    # a package module star-importing a sibling that does not exist yet (a RELATIVE name: it is resolved against the importing file)
    'pk/late_user.py': ['from .late import *\nfrom . import inner\nown_l = 1\n'],
    # a plain directory (no __init__.py yet): the relative star import of plain/user.py leads nowhere until the directory becomes a package
    'plain/user.py': ['from .sib import *\nown_p = 1\n'],
    'plain/sib.py': ['sib_name = 1\n'],
}
CHAIN_REQUESTS = [
    ('m0.', 'import m0\nm0.', (2, 3)), ('m1.', 'import m1\nm1.', (2, 3)), ('m2.', 'import m2\nm2.', (2, 3)), ('m3.re3.', 'import m3\nm3.re3.', (2, 7)),
    ('m1.re3.', 'import m1\nm1.re3.', (2, 7)), ('pk.', 'import pk\npk.', (2, 3)), ('pk.inner.', 'import pk\npk.inner.', (2, 9)),
    ('star-names', 'from m1 import *\nown', (2, 3)), ('lint', 'from m1 import *\nprint(base, own1, re3)\n', None),
    ('pk.late_user.', 'import pk.late_user\npk.late_user.', (2, 13)), ('star-of-late_user', 'from pk.late_user import *\nprint(late_name, own_l)\n', None),
    ('plain.user.', 'import plain.user\nplain.user.', (2, 11)), ('star-of-plain-user', 'from plain.user import *\nprint(sib_name, own_p)\n', None),
    ('m4.', 'import m4\nm4.', (2, 3)), ('m6.', 'import m6\nm6.', (2, 3)), ('m7.', 'import m7\nm7.', (2, 3)), ('star-of-m7', 'from m7 import *\nprint(six, own7)\n', None),
    # requests that fail (the editor is in the middle of a line): the exception leaves the change-checking context as it does in the server
    ('unparsable-request', 'import m1\ndef f(:\n', (2, 5)), ('unparsable-lint', 'from m1 import *\nprint(base\n', None),
]

EDIT_REPLAY = '''import sys, os, tempfile, shutil; sys.path.insert(0, %(repo)r)
from supp.assistant import assist
from supp.linter import lint
from supp.project import Project
d = tempfile.mkdtemp(prefix='supp-c09-')
clock = [1000]
def write(name, text):
    fn = os.path.join(d, name); os.makedirs(os.path.dirname(fn), exist_ok=True)
    open(fn, 'w').write(text); clock[0] += 10; os.utime(fn, (clock[0], clock[0]))
def ask(p, req):
    try:
        with p.check_changes():
            if req[2] is None:
                return [x[:4] for x in lint(p, req[1], os.path.join(d, 'edited.py'))]
            return assist(p, req[1], req[2], os.path.join(d, 'edited.py'))[1]
    except Exception as e:
        return '<raised %%s>' %% type(e).__name__
try:
    for name, text in %(initial)r.items(): write(name, text)
    p = Project([d])
    last = None
    for step in %(history)r:
        if step[0] == 'request': last = ask(p, step[1])
        elif step[0] == 'touch': clock[0] += 10; os.utime(os.path.join(d, step[1]), (clock[0], clock[0]))
        else: write(step[1], step[2])
    fresh = ask(Project([d]), %(history)r[-1][1])
    print('long-lived:', last); print('fresh     :', fresh)
    print('REPRODUCED: the long-lived project answers differently from a fresh one' if last != fresh else 'not reproduced')
finally:
    shutil.rmtree(d, ignore_errors=True)
'''


@harness(['C09'], 'supp.project.Project / supp.module.SourceModule [request - edit - request histories against a fresh project]',
         bounded='a project of 12 modules in 1 package and 1 directory that becomes a package (one star-importing a sibling there by a relative name; two star-importing a module that does not exist yet - by an absolute and by a relative name -, one a module that has nothing public at first) with import, from-import, star-import and re-export edges (chain of length 4): every history '
                 'request; edit; request  over 19 requests (2 of which fail inside the change-checking context) and 14 edits (rewrite of each module to each of its variants with a new mtime, touch), '
                 'every history  failing request; request; edit; the same request, the histories  request; edit M; look M up by name; request, and 300 histories  request; edit; request; edit; request  drawn with a fixed seed')
def edit_histories(run):
    """BOUNDED stand-in for the claim of C09 itself: after any history of edits (each with a new modification time) interleaved with requests,
    a request inside check_changes() on the long-lived project returns what a fresh project returns on the same disk state - also when the
    edited module is reached only through the imports or star imports of unchanged modules.  Not counted as proved."""
    import logging
    import random
    import supp.assistant as A
    import supp.linter as L
    import supp.project as Pj

    def go(path):
        logging.disable(logging.CRITICAL)
        edits = []
        for name, variants in CHAIN.items():
            for v in variants[1:]:
                edits.append(('rewrite', name, v))
        edits.append(('touch', 'm4.py'))
        edits.append(('touch', 'm2.py'))
        edits.append(('rewrite', 'm5.py', 'five = 5\n'))
        edits.append(('rewrite', 'pk/late.py', 'late_name = 5\n'))
        edits.append(('rewrite', 'plain/__init__.py', ''))
        initial = {name: variants[0] for name, variants in CHAIN.items()}
        hists = [[('request', q1), e, ('request', q2)] for q1 in CHAIN_REQUESTS for e in edits for q2 in CHAIN_REQUESTS]
        # a failed request; a request that loads the modules; an edit; the same request again
        hists += [[('request', f), ('request', q), e, ('request', q)] for f in CHAIN_REQUESTS[-2:] for q in CHAIN_REQUESTS[:-2] for e in edits]
        # the edited module is looked up by name first, then reached through its importers:  request; edit M; `import M; M.`; request
        direct = {'m4.py': 'm4.', 'm6.py': 'm6.', 'm2.py': 'm2.', 'm1.py': 'm1.', 'pk/__init__.py': 'pk.'}
        by_label = {q[0]: q for q in CHAIN_REQUESTS}
        for e in edits:
            if e[1] in direct:
                through = [q for q in CHAIN_REQUESTS[:-2] if q[0] != direct[e[1]]]
                hists += [[('request', q1), e, ('request', by_label[direct[e[1]]]), ('request', q3)] for q1 in through[::2] for q3 in through]
        rnd = random.Random(20260927)
        for _ in range(300):
            hists.append([('request', rnd.choice(CHAIN_REQUESTS)), rnd.choice(edits), ('request', rnd.choice(CHAIN_REQUESTS)), rnd.choice(edits),
                          ('request', rnd.choice(CHAIN_REQUESTS))])
        bad = []
        for hist in hists:
            top = tempfile.mkdtemp(prefix='supp-c09-')
            clock = [1000]
            try:
                def write(name, text):
                    fn = os.path.join(top, name)
                    os.makedirs(os.path.dirname(fn), exist_ok=True)
                    with open(fn, 'w') as f:
                        f.write(text)
                    clock[0] += 10
                    os.utime(fn, (clock[0], clock[0]))

                def ask(project, req):
                    # as Server.assist / Server.lint do: an exception of the request propagates through the context
                    try:
                        with project.check_changes():
                            if req[2] is None:
                                return [d[:4] for d in L.lint(project, req[1], os.path.join(top, 'edited.py'))]
                            return A.assist(project, req[1], req[2], os.path.join(top, 'edited.py'))[1]
                    except Exception as e:
                        return '<raised %s>' % type(e).__name__
                for name, text in initial.items():
                    write(name, text)
                p = Pj.Project([top])
                last = None
                for step in hist:
                    if step[0] == 'request':
                        last = ask(p, step[1])
                    elif step[0] == 'touch':
                        clock[0] += 10
                        os.utime(os.path.join(top, step[1]), (clock[0], clock[0]))
                    else:
                        write(step[1], step[2])
                fresh = ask(Pj.Project([top]), hist[-1][1])
                if last != fresh:
                    bad.append((hist, last, fresh))
            finally:
                shutil.rmtree(top, ignore_errors=True)
        for hist, last, fresh in bad[:3]:
            short = ' ; '.join(s[1][0] if s[0] == 'request' else '%s %s' % (s[0], s[1]) for s in hist)
            core.RUN.concretise = lambda model, ob, hist=hist: {'input': [s[1][0] if s[0] == 'request' else list(s[:2]) for s in hist], 'script': EDIT_REPLAY % {
                'repo': core.REPO, 'initial': initial, 'history': hist}}
            prove('history:%s' % short, False, clause='after [%s] the long-lived project answers %r, a fresh one %r' % (short, last, fresh), path=path)
            core.RUN.concretise = None
        prove('every-history-ends-like-a-fresh-project', not bad,
              clause='%d histories, %d whose last answer differs from a fresh project on the same disk state' % (len(hists), len(bad)), path=path)
    core.explore(lambda: None, lambda p, out: go(p))
