"""Sidecar contracts for supp/server.py (C15 containment / transparency, C16 exit branches)."""
import z3

from pysym import core, loader
from pysym.core import prove, EngineEscape, PathEnd
from pysym.harness import harness
from pysym.loader import LoopSpec, Mutable

MOD = 'supp.server'


class Boom(Exception):
    pass


@harness(['C15'], 'supp.server.Server.process', twins=('spec-errors-propagate',))
def process_containment(run, twin=None):
    """process(name, args, kwargs): the named method is an opaque call that returns a value or raises any Exception or SystemExit (unknown name ->
    AttributeError, wrong arguments -> TypeError, failing request -> anything): process never raises; (value, True) iff the method
    returned value, otherwise ((exception class name, str(exception)), False); the server object is not modified; an attribute of the server
    that is no request (run, process, conn, dunder methods) is reported like an unknown method and never called"""
    import supp.server as Sv
    f = loader.load(MOD, 'Server.process', stubs={'logger': type('L', (), {'exception': staticmethod(lambda *a, **k: None)})})

    called = []

    class Srv(Sv.Server):
        # the real class with four more requests (whatever the class uses to tell requests from its other attributes is inherited)
        requests = tuple(getattr(Sv.Server, 'requests', ())) + ('ok', 'bad', 'keyerr', 'mute', 'leaves', 'surrogate')

        def __init__(self):
            pass

        def run(self):
            called.append('run')

        def helper(self):
            called.append('helper')

        def ok(self, a, k=None):
            return ('value', a, k)

        def bad(self, a):
            raise Boom('request failed: %r' % (a,))

        def keyerr(self):
            raise KeyError('k')

        def leaves(self):
            raise SystemExit('leaving')

        def surrogate(self):
            raise ValueError('bad \udc80 name')

        def mute(self):
            class Mute(Exception):
                def __str__(self):
                    raise RuntimeError('this exception cannot describe itself')
            raise Mute()

    cases = [('mute', (), {}, (('Mute', None), False)),
             ('ok', (1,), {'k': 2}, (('value', 1, 2), True)),
             ('bad', (1,), {}, (('Boom', 'request failed: 1'), False)),
             ('keyerr', (), {}, (('KeyError', "'k'"), False)),
             # code that calls sys.exit() ends its request, not the session
             ('leaves', (), {}, (('SystemExit', 'leaving'), False)),
             # a message the codec cannot carry as it stands arrives escaped, and can be encoded
             ('surrogate', (), {}, (('ValueError', 'bad \\udc80 name'), False)),
             ('nosuchmethod', (), {}, (('AttributeError', None), False)),
             # attributes of the server that are no requests: reported like an unknown method, never called
             ('run', (), {}, ((None, None), False)), ('process', ('ok', (1,), {}), {}, ((None, None), False)), ('helper', (), {}, ((None, None), False)),
             ('conn', (), {}, ((None, None), False)), ('__init__', (), {}, ((None, None), False)), ('__class__', (), {}, ((None, None), False)),
             ('ok', (), {}, (('TypeError', None), False)),
             ('ok', (1, 2, 3), {}, (('TypeError', None), False)),
             ('ok', (1,), {'zz': 1}, (('TypeError', None), False))]

    def go(path):
        for name, args, kwargs, want in cases:
            s = Srv()
            before = dict(s.__dict__)
            try:
                got = f(s, name, args, kwargs)
                exc = None
            except BaseException as e:
                got, exc = None, e
            run.case = '%s%r' % (name, args)
            if twin and not want[1]:
                prove('contained', exc is not None, path=path)
                continue
            prove('never-raises', exc is None, clause='a failing request is reported, not raised [%r]' % (exc,), path=path)
            if exc is not None:
                continue
            ok = isinstance(got, tuple) and len(got) == 2 and got[1] is want[1]
            if want[1]:
                ok = ok and got[0] == want[0]
            else:
                ok = ok and (want[0][0] is None or got[0][0] == want[0][0]) and (want[0][1] is None or got[0][1] == want[0][1]) and isinstance(got[0][1], str)
            prove('reports-value-or-class-and-message', bool(ok), clause='(value, True) | ((class name, message), False) [%r]' % (got,), path=path)
            prove('only-requests-are-called', called == [], clause='run, process and other attributes of the server are not requests: none of them is called [%r]' % (called,), path=path)
            del called[:]
            prove('server-state-unchanged', s.__dict__ == before, path=path)
        run.case = None
    core.explore(lambda: None, lambda p, out: go(p))


class Conn(object):
    """the connection: each operation's outcome is an environment choice"""

    def __init__(self, w):
        self.w = w

    def poll(self, t=None):
        r = core.choice(2) == 0
        self.w.log.append(('poll', r))
        return r

    def recv_bytes(self, maxlength=None):
        c = core.choice(2)
        if c == 0:
            self.w.log.append(('recv', 'eof'))
            raise EOFError()
        if maxlength is not None and core.choice(2):
            # a limit on what is read: a request may be longer than any limit (multiprocessing raises OSError and the message is lost)
            self.w.log.append(('recv', 'too long'))
            raise OSError('bad message length')
        self.w.log.append(('recv', 'bytes'))
        return b'<message>'

    def send_bytes(self, content):
        c = core.choice(2)
        self.w.log.append(('send', content, 'fails' if c else 'ok'))
        if c:
            raise OSError('peer gone')

    def close(self):
        self.w.log.append(('close',))


class W(object):
    def __init__(self):
        self.log = []


@harness(['C15', 'C16'], 'supp.server.Server.run', twins=('spec-stops-after-a-failed-request',))
def server_loop(run, twin=None):
    """one arbitrary iteration of the serve loop (the while loop is cut; invariant: nothing is pending between iterations):
    no message -> nothing happens, the loop continues; EOF or an undecodable message -> the loop ends, nothing is sent; a `close`
    request -> the connection is closed, the loop ends, nothing is sent; any other request (name, args, kwargs) -> process() is called
    once with exactly those, exactly ONE reply is sent: dumps((result, ok)), or the SerializeError reply when that cannot be
    serialised; a failing send is swallowed; the loop continues"""
    import supp.server as Sv
    w = W()
    holder = {}

    def loads_stub(b):
        c = core.choice(3)
        if c == 0:
            w.log.append(('loads', 'undecodable'))
            raise ValueError('bad message')
        if c == 1:
            w.log.append(('loads', 'close'))
            return ['close', [], {}]
        w.log.append(('loads', 'request'))
        return ['assist', ['src', [1, 2], 'f.py'], {'k': 1}]

    def dumps_stub(obj):
        if obj == (('SerializeError', 'Serialize error'), False):
            w.log.append(('dumps-fallback',))
            return b'<fallback reply>'
        c = core.choice(2)
        w.log.append(('dumps', obj, 'unserialisable' if c else 'ok'))
        if c:
            raise TypeError('unsupported type')
        return ('<reply>', obj)

    inv = lambda L, st: True
    f = loader.load(MOD, 'Server.run', stubs={'loads': loads_stub, 'dumps': dumps_stub,
                                              'logger': type('L', (), {'exception': staticmethod(lambda *a, **k: None)})},
                    cuts={0: LoopSpec(inv, temps=('args', 'result', 'is_ok', 'content'))})

    class Srv(object):
        def process(self, name, args, kwargs):
            ok = core.choice(2) == 0
            w.log.append(('process', name, args, kwargs))
            return ('the result' if ok else ('Boom', 'message')), ok

    def body():
        del w.log[:]
        s = Srv()
        s.conn = Conn(w)
        holder['s'] = s
        holder['ended'] = False
        try:
            f(s)
            holder['ended'] = True      # the function returned: the loop was left
        except PathEnd:
            raise
        return 'returned'

    def on_path(p, out):
        log = list(w.log)
        if out[0] == 'exc':
            prove('loop-never-dies-with-an-exception', False, clause='no exception leaves the serve loop [%r after %r]' % (out[1], log), path=p)

    # the cut loop ends paths at `preserved`; observe each iteration through a wrapper of LoopCtx.preserved
    from pysym import loader as Ld
    orig_preserved = Ld.LoopCtx.preserved

    def check_iteration(log, continued):
        kinds = [e[0] for e in log]
        sends = [e for e in log if e[0] == 'send']
        procs = [e for e in log if e[0] == 'process']
        desc = repr(log)[:300]
        if ('poll', False) in log:
            prove('idle-iteration-does-nothing', continued and kinds == ['poll'], clause='no message: nothing happens, loop continues [%s]' % desc)
            return
        if ('recv', 'eof') in log:
            prove('eof-ends-the-loop-silently', (not continued) and not sends and not procs, clause='client gone: the server leaves the loop [%s]' % desc)
            return
        if ('loads', 'undecodable') in log:
            prove('undecodable-ends-the-loop-silently', (not continued) and not sends and not procs, clause='[%s]' % desc)
            return
        if ('loads', 'close') in log:
            prove('close-request-closes-and-ends', (not continued) and ('close',) in log and not sends and not procs, clause='[%s]' % desc)
            return
        # an ordinary request
        want_cont = True if not twin else all(e[1] is not False for e in [('x', True)])
        one_proc = len(procs) == 1 and procs[0][1:] == ('assist', ['src', [1, 2], 'f.py'], {'k': 1})
        prove('request-processed-once-with-its-arguments', one_proc, clause='process(name, args, kwargs) called once [%s]' % desc)
        dl = [e for e in log if e[0] == 'dumps']
        ok_reply = len(sends) == 1 and len(dl) == 1 and (
            (dl[0][2] == 'ok' and sends[0][1] == ('<reply>', dl[0][1])) or
            (dl[0][2] == 'unserialisable' and ('dumps-fallback',) in log and sends[0][1] == b'<fallback reply>'))
        prove('exactly-one-reply', bool(ok_reply), clause='one reply: dumps((result, ok)) or the SerializeError reply [%s]' % desc)
        if dl and procs:
            prove('reply-carries-what-process-returned', dl[0][1][0] in ('the result', ('Boom', 'message')) and isinstance(dl[0][1][1], bool), clause='[%s]' % desc)
        prove('loop-continues-after-a-request', continued if not twin else (continued and dl[0][1][1] is True),
              clause='a failing request, an unserialisable result or a failing send does not end the loop [%s]' % desc)

    def patched_preserved(self, st):
        check_iteration(list(w.log), True)
        return orig_preserved(self, st)
    Ld.LoopCtx.preserved = patched_preserved

    def body2():
        r = body()
        # reached only when the loop was left through `break` in the arbitrary iteration (or the exit havoc path)
        if w.log:
            check_iteration(list(w.log), False)
        return r
    try:
        core.explore(body2, on_path)
    finally:
        Ld.LoopCtx.preserved = orig_preserved


@harness(['C15'], 'supp.server.Server.{assist,location,lint,configure} + compat.nstr')
def request_methods(run):
    """each request method calls the in-process API inside a change-checking context with the same arguments (bytes source decoded, position
    as a tuple) and returns its result unchanged (lint: the first four fields of each diagnostic)"""
    import supp.server as Sv
    import supp.compat as C
    calls = []

    class Ctx(object):
        def __enter__(self):
            calls.append('enter')

        def __exit__(self, *a):
            calls.append('exit')

    class Proj(object):
        def check_changes(self):
            return Ctx()

    class A(object):
        @staticmethod
        def assist(project, source, position, filename):
            calls.append(('assist', project, source, position, filename))
            return ('pre', ['a', 'b'])

        @staticmethod
        def location(project, source, position, filename):
            calls.append(('location', project, source, position, filename))
            return [{'loc': (1, 2), 'file': 'f'}]

    class Lt(object):
        @staticmethod
        def lint(project, source, filename):
            calls.append(('lint', project, source, filename))
            return [('W01', 'Unused name: x', 3, 4, object()), ('E01', 'msg', 1, 2, None)]

    fa = loader.load(MOD, 'Server.assist', stubs={'assistant': A})
    fl = loader.load(MOD, 'Server.location', stubs={'assistant': A})
    fn = loader.load(MOD, 'Server.lint', stubs={'linter': Lt})

    def go(path):
        s = Sv.Server(None)
        s.project = Proj()
        for src in ('text', b'text'):
            del calls[:]
            r = fa(s, src, [3, 4], 'f.py')
            prove('assist-transparent[%s]' % type(src).__name__, r == ('pre', ['a', 'b']) and
                  calls == ['enter', ('assist', s.project, 'text', (3, 4), 'f.py'), 'exit'], path=path)
            del calls[:]
            r = fl(s, src, [3, 4], 'f.py')
            prove('location-transparent[%s]' % type(src).__name__, r == [{'loc': (1, 2), 'file': 'f'}] and
                  calls == ['enter', ('location', s.project, 'text', (3, 4), 'f.py'), 'exit'], path=path)
            del calls[:]
            r = fn(s, src, 'f.py')
            prove('lint-first-four-fields[%s]' % type(src).__name__, r == [('W01', 'Unused name: x', 3, 4), ('E01', 'msg', 1, 2)] and
                  calls == ['enter', ('lint', s.project, 'text', 'f.py'), 'exit'], path=path)
        prove('nstr-identity-on-str', C.nstr('x') == 'x' and C.nstr(b'\xc3\xa9') == '\xe9' and C.nstr(None) is None, path=path)
        s2 = Sv.Server(None)
        s2.configure({'sources': ['/a', '/b'], 'dyn_modules': ['m']})
        prove('configure-builds-the-project', s2.project.sources == ['/a', '/b'] and s2.project.dyn_modules == {'m'}, path=path)
    core.explore(lambda: None, lambda p, out: go(p))


# ---------------------------------------------------------------------------
# bounded end-to-end stand-in: the real Server.run / process over the REAL codec, request sequences of every failure kind

SEQ_REPLAY = '''import sys; sys.path.insert(0, %(repo)r); sys.path.insert(0, %(verif)r)
from contracts.server import play_sequence, REQUESTS
got, want, alive = play_sequence(%(seq)r)
for k, (g, w) in enumerate(zip(got, want)):
    print('request', %(seq)r[k], '->', g, '| in-process:', w)
print('replies', len(got), 'of', len(want), '; server loop ended by the close request:', alive)
print('REPRODUCED' if (got != want or not alive) else 'not reproduced')
'''

REQUESTS = {
    'lint-ok': ('lint', ('import os\nx = 1\n', 'f.py'), {}),
    'assist-ok': ('assist', ('import os\nos.pa', [2, 5], 'f.py'), {}),
    'location-ok': ('location', ('x = 1\nx', [2, 1], 'f.py'), {}),
    'eval-ok': ('eval', ('return [1, (2, 3), {"k": None}]',), {}),
    'unknown-method': ('no_such_method', (1,), {}),
    'wrong-arguments': ('lint', (), {'nope': 1}),
    'raises': ('eval', ('raise ValueError("boom " + "x" * 3)',), {}),
    'unserialisable-result': ('eval', ('return {1, 2}',), {}),
    'unserialisable-nested': ('eval', ('return [1, {"k": object()}]',), {}),
    'syntax-error-in-request': ('assist', ('def f(:\n', [1, 5], 'f.py'), {}),
    'str-of-the-exception-raises': ('eval', ('class E(Exception):\n    def __str__(self): raise RuntimeError("x")\nraise E()',), {}),
    # text that is not ASCII: in the source, in a result, in the message of an exception (character counts differ from byte counts)
    'lint-non-ascii': ('lint', ('import os\n\u043f\u0435\u0440\u0435\u043c = "\u00e9\u20ac" * 20\nprint(\u043f\u0435\u0440\u0435\u043c, \u043d\u0435\u0442)\n', 'f.py'), {}),
    'eval-non-ascii': ('eval', ('return ["\u00e9" * 20, "\u20ac" * 40, {"\u00fc" * 33: "\U0001f600" * 9}]',), {}),
    'raises-non-ascii': ('eval', ('raise ValueError("\u00fc" * 40)',), {}),
    # values of subclasses of the serialisable types travel as their base type
    'eval-subclass-values': ('eval', ('import collections, enum, sys\nP = collections.namedtuple("P", "x y")\nclass S(str): pass\nclass B(bytes): pass\n'
                                      'class E(enum.IntEnum):\n    A = 1\nclass L(list): pass\n'
                                      'return [P(1, 2), collections.OrderedDict(a=1), collections.defaultdict(int, b=2), S("s"), B(b"b"), E.A, L([3]), '
                                      'tuple(sys.version_info[:2]), sys.version_info[:0], {P(0, 0): S("k")}]',), {}),
    # an eval leaves nothing behind for the next one
    'eval-binds-a-global': ('eval', ('global leaked\nleaked = 41\nreturn leaked + 1',), {}),
    'eval-reads-what-an-earlier-eval-bound': ('eval', ('return [leaked, result]',), {}),
    'eval-reads-the-wrapper': ('eval', ('return boo.__name__ + str(result)',), {}),
    # a request of several MiB
    'lint-3MiB': ('lint', ('import os\n# ' + 'x' * (3 << 20) + '\nprint(sys)\n', 'f.py'), {}),
    # the code a request runs ends the interpreter: the request fails, the session goes on
    'eval-raises-SystemExit': ('eval', ('raise SystemExit("leaving")',), {}),
    'eval-calls-sys-exit': ('eval', ('import sys\nsys.exit("bye")',), {}),
    # a message that cannot be encoded as it stands (a lone surrogate): what can be encoded of it arrives, the rest escaped
    'raises-with-a-lone-surrogate': ('eval', ('raise ValueError("bad \\udc80 name")',), {}),
    # attributes of the server object that are no requests
    'attribute-run': ('run', (), {}),
    'attribute-process': ('process', ('eval', ('return 1',), {}), {}),
}
API = ('configure', 'assist', 'location', 'lint', 'eval')          # the in-process API the client exposes

# requests whose answer depends on the configured project ($A and $B are source roots made for the run: $A holds alpha_mod.py, $B holds beta_mod.py)
PROJECT_REQUESTS = {
    'eval-tuple-keys': ('eval', ('return {((1, 2), 3): "v", (4, (5, (6,))): [((7,),)]}',), {}),
    'configure-A': ('configure', ({'sources': ['$A']},), {}),
    'configure-B-dyn': ('configure', ({'sources': ['$B'], 'dyn_modules': ['os']},), {}),
    'assist-import': ('assist', ('import ', [1, 7], 'f.py'), {}),
    'assist-from-alpha': ('assist', ('from alpha_mod import ', [1, 22], 'f.py'), {}),
    'lint-star-alpha': ('lint', ('from alpha_mod import *\nprint(alpha_name, beta_name)\n', 'f.py'), {}),
    'configure-bad-dyn': ('configure', ({'sources': ['$B'], 'dyn_modules': 5},), {}),
    'configure-no-sources': ('configure', ({'dyn_modules': ['os']},), {}),
    'configure-not-a-map': ('configure', (7,), {}),
    'configure-wrong-arguments': ('configure', (), {'sources': ['$B']}),
}
REQUESTS.update(PROJECT_REQUESTS)


def _lists(x):
    if isinstance(x, (list, tuple)):
        return [_lists(i) for i in x]
    if isinstance(x, dict):
        return {k: _lists(v) for k, v in x.items()}
    return x


def play_sequence(seq):
    """returns (replies seen by a client, replies the in-process API gives, loop ended by the close request)"""
    import logging
    import supp.server as Sv
    from supp.umsgpack import dumps, loads
    logging.disable(logging.CRITICAL)

    class Wire(object):
        def __init__(self, requests):
            self.inbox = [dumps(r) for r in requests] + [dumps(('close', (), {}))]
            self.sent, self.closed = [], False

        idle = 0

        def poll(self, t=None):
            if not self.inbox:
                # (a server that waits for requests nobody sends would wait for ever: the client is gone after a while)
                self.idle += 1
                if self.idle > 20:
                    raise EOFError('no client')
            return bool(self.inbox)

        def recv_bytes(self, maxlength=None):
            if not self.inbox:
                raise EOFError()
            if maxlength is not None and len(self.inbox[0]) > maxlength:
                self.inbox.pop(0)
                raise OSError('bad message length')          # as multiprocessing.connection does
            return self.inbox.pop(0)

        def send_bytes(self, b):
            self.sent.append(b)

        def close(self):
            self.closed = True

    import shutil
    import tempfile
    root = tempfile.mkdtemp(prefix='supp-c15-')
    try:
        return _play(seq, root, Sv, Wire, dumps, loads)
    finally:
        shutil.rmtree(root, ignore_errors=True)


def _subst(x, root):
    if isinstance(x, str):
        return x.replace('$A', root + '/a').replace('$B', root + '/b')
    if isinstance(x, (list, tuple)):
        return type(x)(_subst(i, root) for i in x)
    if isinstance(x, dict):
        return {k: _subst(v, root) for k, v in x.items()}
    return x


def _play(seq, root, Sv, Wire, dumps, loads):
    import os
    for d, mod, name in (('a', 'alpha_mod', 'alpha_name'), ('b', 'beta_mod', 'beta_name')):
        os.mkdir(os.path.join(root, d))
        with open(os.path.join(root, d, mod + '.py'), 'w') as f:
            f.write('%s = 1\n' % name)
    reqs = [_subst(REQUESTS[k], root) for k in seq]
    wire = Wire(reqs)
    srv = Sv.Server(wire)
    srv.configure({'sources': ['/nonexistent']})
    try:
        srv.run()
        ended = wire.closed and not wire.inbox
    except BaseException as e:
        ended = False
    got = []
    for b in wire.sent:
        try:
            r, ok = loads(b)
            got.append((_lists(r), ok) if ok else ('error', r[1] if isinstance(r, (list, tuple)) and len(r) == 2 else r))
        except Exception as e:
            got.append(('undecodable reply', type(e).__name__))
    # the in-process answers; a request that fails leaves no trace: the reference for the requests after it is a server that never saw it
    def fresh(history):
        ref = Sv.Server(None)
        ref.configure({'sources': ['/nonexistent']})
        for name, args, kwargs in history:
            getattr(ref, name)(*args, **kwargs)
        return ref
    ref = fresh([])
    want, applied = [], []
    for name, args, kwargs in reqs:
        if name not in API:
            want.append(('error', None))          # no such call in the API: an error with the server's own message
            continue
        try:
            try:
                if name == 'eval' and len(args) == 1 and not kwargs and isinstance(args[0], str):
                    # eval is the body of a function run in a namespace of its own: written out here, so that state the server keeps
                    # between two evals cannot hide in the reference
                    ns = {}
                    exec('def boo():\n%s\nresult = boo()' % '\n'.join('    ' + l for l in args[0].splitlines()), ns)
                    r = ns['result']
                else:
                    r = getattr(ref, name)(*args, **kwargs)
                applied.append((name, args, kwargs))
            except BaseException:
                ref = fresh(applied)
                raise
            try:
                # can the result be serialised at all?  decided by the reference codec written from the specification, not by the codec under test
                from spec.msgpack_ref import ref_pack
                ref_pack(r)
                want.append((_lists(r), True))
            except Exception:
                want.append(('error', 'Serialize error'))
        except (Exception, SystemExit) as e:
            try:
                # (characters UTF-8 cannot carry - lone surrogates - arrive escaped: the message as far as it can travel)
                want.append(('error', str(e).encode('utf-8', 'backslashreplace').decode('utf-8')))
            except Exception:
                want.append(('error', None))          # the exception has no printable message: any message will do
    return got, want, ended


@harness(['C15'], 'supp.server.Server.run / process over the real codec [request sequences]',
         bounded='every sequence of 1 and 2 requests, and every failing request followed by two good ones, over 24 request kinds (4 that succeed; a lint of a 3 MiB source; code that raises SystemExit / calls sys.exit; a message with a lone surrogate; non-ASCII text in a source, a result and a message; run and process asked for as requests; unknown '
                 'method, wrong arguments, exception, unserialisable result (flat and nested), syntax error in the request, an exception whose str() raises); '
                 'a result with nested tuples as map keys; 6 configure requests (2 valid, 4 failing: bad dyn_modules, no sources, not a map, wrong arguments) '
                 'before and between 3 questions whose answer depends on the configured source roots (71 sequences of 2 to 4 requests)')
def request_sequences(run):
    """BOUNDED end-to-end stand-in: the real request loop, the real process() and the real dumps / loads on an in-memory connection; every reply
    equals the in-process answer (tuples as lists), replies pair with requests in order, a failing request is reported as an error carrying the
    server's message and changes nothing for the requests after it, and the loop ends only with the close request.  Not counted as proved."""
    import itertools
    import os
    verif = os.path.dirname(os.path.dirname(os.path.abspath(__file__)))

    def go(path):
        kinds = list(REQUESTS)
        good = ['lint-ok', 'eval-ok']
        kinds = [k for k in kinds if k not in PROJECT_REQUESTS]
        seqs = [(k,) for k in kinds] + list(itertools.product(kinds, repeat=2)) + [(k, g1, g2) for k in kinds[4:] for g1 in good for g2 in good]
        # answers that depend on the configured project: every (re)configuration, failed or not, between two questions about the project
        conf = ['configure-A', 'configure-B-dyn', 'configure-bad-dyn', 'configure-no-sources', 'configure-not-a-map', 'configure-wrong-arguments']
        asks = ['assist-import', 'assist-from-alpha', 'lint-star-alpha']
        seqs += [('eval-tuple-keys',), ('raises', 'eval-tuple-keys', 'lint-ok')]
        seqs += [(c, q) for c in conf for q in asks]
        seqs += [('configure-A', q, c, q) for c in conf + ['raises', 'unserialisable-result', 'unknown-method'] for q in asks]
        seqs += [('configure-A', c1, c2, q) for c1 in conf[2:] for c2 in conf[1:3] for q in asks[:2]]
        for seq in seqs:
            got, want, ended = play_sequence(seq)
            ok = ended and len(got) == len(want)
            if ok:
                for g, w in zip(got, want):
                    if w == ('error', None):
                        ok = ok and g[0] == 'error'
                    else:
                        ok = ok and g == w
            if not ok:
                core.RUN.concretise = lambda model, ob, seq=seq: {'input': list(seq), 'script': SEQ_REPLAY % {'repo': core.REPO, 'verif': verif, 'seq': tuple(seq)}}
            prove('sequence:%s' % '+'.join(seq), ok,
                  clause='replies == in-process answers, in order, and the loop survives [%r vs %r; ended by close: %s]' % (got, want, ended), path=path)
            core.RUN.concretise = None
    core.explore(lambda: None, lambda p, out: go(p))



@harness(['C15'], 'supp/server.py as the process the client launches [module search path]',
         bounded='one real server process launched by the real Environment: 2 requests')
def launched_server_search_path(run):
    """BOUNDED: the process Environment launches answers about the caller's modules, not about its own: the directory of supp's own files
    (which Python puts first on the path of a script) is no root of the module search - `import umsgpack` in the edited file is not supp's
    codec.  One run of the real script; not counted as proved."""
    import os
    import supp.remote as R

    def go(path):
        here = os.path.dirname(os.path.abspath(R.__file__))
        devnull = os.open(os.devnull, os.O_WRONLY)
        saved = os.dup(2)
        roots = names = None
        failure = None
        try:
            os.dup2(devnull, 2)
            for attempt in range(3):          # (a launch may time out on a machine that is busy: tried again before it counts)
                env = R.Environment()
                try:
                    roots = env.eval('import sys, os\nreturn [os.path.abspath(p) for p in sys.path]')
                    env.configure({'sources': ['/nonexistent']})
                    match, names = env.assist('import umsg', (1, 11), '/nonexistent/edited.py')
                    failure = None
                except Exception as e:
                    failure = '%s: %s' % (type(e).__name__, e)
                finally:
                    try:
                        env.close()
                    except Exception:
                        pass
                    proc = getattr(env, 'proc', None)
                    if proc is not None:
                        try:
                            proc.wait(10)
                        except Exception:
                            proc.kill()
                if failure is None:
                    break
        finally:
            os.dup2(saved, 2)
            os.close(saved)
            os.close(devnull)
        prove('the-launched-server-answers', failure is None, clause='three requests to a server launched by Environment are answered [%s]' % (failure,), path=path)
        if failure is not None:
            return
        script = ('import sys, os; sys.path.insert(0, %r)\nfrom supp.remote import Environment\nenv = Environment()\n'
                  'try:\n    roots = env.eval("import sys, os\\nreturn [os.path.abspath(p) for p in sys.path]")\n    env.configure({"sources": ["/nonexistent"]})\n'
                  '    names = env.assist("import umsg", (1, 11), "/nonexistent/edited.py")[1]\nfinally:\n    env.close()\n'
                  'here = %r\nprint("module search path of the server:", roots[:3], "...")\nprint("import umsg| proposes", names)\n'
                  'print("REPRODUCED: the directory of supp\'s own files is a root of the module search of the launched server" if here in roots or "umsgpack" in names else "not reproduced")\n'
                  ) % (core.REPO, here)
        core.RUN.concretise = lambda model, ob: {'input': 'import umsg|', 'script': script}
        prove('own-directory-is-no-search-root', here not in roots, clause='sys.path of the launched server does not hold %r [%r ...]' % (here, roots[:3]), path=path)
        prove('own-modules-are-not-proposed-as-top-level-modules', 'umsgpack' not in names,
              clause='`import umsg` proposes %r: supp\'s own umsgpack.py is no top-level module of the project' % (names,), path=path)
        core.RUN.concretise = None
    core.explore(lambda: None, lambda p, out: go(p))
