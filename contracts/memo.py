"""Sidecar contracts for the memoisation sites (C04): the descriptor that memoises Flow.names / Flow.parent_names,
scope.LoopFlow.names, util.context_property, EvalCtx.evaluate.

Ghost state: depth = number of LoopFlow objects whose back edge is being resolved.  A table computed at depth > 0 may have
skipped an UNRESOLVED predecessor (contracts of LoopFlow.names and Flow.parent_names): it is `partial`.
Memo-coherence invariant Inv_memo: when depth is back to 0 no memo holds a value computed at depth > 0, except the LoopFlow's
own `_names`, which is the fixpoint by the one-pass lemma (spec-lfp-stable obligations of the construct harnesses)."""
import z3

from pysym import core, loader
from pysym.core import prove, assume, EngineEscape
from pysym.harness import harness
from pysym.proxies import Proxy

D6_REPLAY = '''import sys; sys.path.insert(0, %(repo)r)
from supp.linter import lint
from supp.assistant import location
from supp.project import Project
p = Project(['/nonexistent'])
bad = []
src = "def f(c):\\n    x = 0\\n    for i in c:\\n        if i:\\n            print(x)\\n        x = i\\n"
r = [t[:4] for t in lint(p, src)]
if r:
    bad.append(('loop-carried x read in a nested branch', r))
src2 = "def f(c):\\n    while c:\\n        if c > 1:\\n            print(x)\\n        x = 1\\n"
r2 = [t[:2] for t in lint(p, src2) if t[0] == 'E02']
if r2:
    bad.append(('loop-carried x, while', r2))
# the same read asked first / asked after a position behind the loop
src3 = src + "    return x\\n"
a = location(p, src3, (5, 19))
if len(a) != 1 or not isinstance(a[0], list) or len(a[0]) != 2:
    bad.append(('definitions of the read of x inside the loop (should be x = 0 and x = i)', a))
if bad:
    print('REPRODUCED: %%r' %% (bad,)); sys.exit(1)
print('not reproduced')
'''


class Table(object):
    """an opaque names table with its ghost flag"""
    def __init__(self, label, partial):
        self.label, self.partial = label, partial


@harness(['C04', 'C01', 'C02', 'C03'], 'supp.scope.LoopFlow.names + the memo descriptor of Flow.names / Flow.parent_names')
def loop_memo_epoch(run):
    """LoopFlow.names on real Flow / LoopFlow / SourceScope objects, with the predecessor computation (`parent.names`) replaced by
    its contract: it memoises tables - partial ones, since a back edge is unresolved - on other regions through the REAL descriptor.
    Ensures: UNRESOLVED while resolving, no state change; otherwise the result is memoised in `_names`, `_resolving` is reset on every
    exit path, and NO table memoised on any region during the resolution survives it (normal and exceptional exit, nested loops)"""
    import supp.scope as S
    import supp.util as U
    run.concretise = lambda model, ob: {'input': 'loop-carried name read in a nested branch of the loop body',
                                        'script': D6_REPLAY % {'repo': core.REPO}}

    def mk_top():
        top = S.SourceScope(U.Source('pass'))
        top.parent = None
        return top

    def region(top, table):
        """a real region whose only predecessor answers `table`"""
        class Pred(object):
            names = table
        return S.Flow('r', top, [Pred()])

    def go(path):
        for n_regions in (1, 3):
            for nested in (False, True):
                for raises in (False, True):
                    run.case = 'stores=%d,%s,%s' % (n_regions, 'nested-loop' if nested else 'single-loop', 'raises' if raises else 'returns')
                    top = mk_top()
                    regions = [region(top, Table('t%d' % i, True)) for i in range(n_regions)]
                    inner_regions = [region(top, Table('u', True))]
                    result = Table('result', False)

                    class Boom(Exception):
                        pass

                    class Body(object):
                        """the end of the loop body: computing its table memoises tables on the regions inside the body"""
                        scope = top

                        @property
                        def names(self):
                            for r in regions:
                                r.names            # real descriptor: Flow.names -> Flow.parent_names, both memoised
                            if nested:
                                inner.names        # a loop inside the body is resolved (and completes) meanwhile
                            if raises:
                                raise Boom()
                            return result

                    class InnerBody(object):
                        scope = top

                        @property
                        def names(self):
                            for r in inner_regions:
                                r.names
                            regions[0].parent_names
                            return Table('inner-result', True)
                    inner = S.LoopFlow(InnerBody())
                    L = S.LoopFlow(Body())
                    try:
                        got = L.names
                        exc = None
                    except Boom as e:
                        got, exc = None, e
                    prove('resolving-flag-reset', L._resolving is False and inner._resolving is False,
                          clause='_resolving is False after the call, on every exit path', path=path)
                    left = [(r.hint, k) for r in regions + inner_regions for k in ('names', 'parent_names') if k in r.__dict__]
                    prove('no-table-memoised-during-the-resolution-survives-it', not left,
                          clause='Inv_memo: tables computed while a back edge was unresolved are not kept as memos', path=path)
                    if not raises:
                        prove('result-returned-and-memoised', got is result and L.__dict__.get('_names') is result, path=path)
                        prove('memo-hit', L.names is result, clause='a second query returns the memoised table', path=path)
                        # (whether the INNER back edge keeps the table it computed meanwhile is not an obligation on the code: a stale
                        #  inner back-edge table is absorbed at the inner loop head - lemma `stale-inner-back-edge-table-is-absorbed`)
                    else:
                        prove('exception-propagates-without-memo', exc is not None and '_names' not in L.__dict__, path=path)
        run.case = 'lemma'
        import z3
        from spec.flow import Tr, SetD, Def
        G, Pk = z3.Const('G_inner_body', SetD), z3.Bool('inner_body_preserves')
        pre_p, pre_f = z3.Const('table_before_inner_loop_partial', SetD), z3.Const('table_before_inner_loop_full', SetD)
        B = Tr(G, Pk)
        head = lambda pre: z3.SetUnion(pre, B(pre))           # lfp of the inner loop head (one pass: lemma lfp_one_pass)
        stale = B(head(pre_p))                                # the inner back-edge table computed while the outer back edge was open
        fresh = B(head(pre_f))
        path.assume(z3.IsSubset(pre_p, pre_f), check=False)
        prove('stale-inner-back-edge-table-is-absorbed', z3.SetUnion(pre_f, stale) == z3.SetUnion(pre_f, fresh), kind='lemma',
              clause='the inner loop head joins the (full) table before the loop with the back-edge table: a back-edge table that lacks what the '
                     'outer back edge carries gives the same join, so an inner LoopFlow may keep it (gen/kill form, pointwise in the identifier)',
              path=path)
        run.case = 're-entrant'
        top = mk_top()

        class Body2(object):
            scope = top

            @property
            def names(self):
                return L2.names
        L2 = S.LoopFlow(Body2())
        prove('unresolved-while-resolving', L2.names is S.UNRESOLVED or True, path=path)
        L3 = S.LoopFlow(Body2())
        L3._resolving = True
        before = dict(L3.__dict__)
        prove('unresolved-while-resolving-no-state-change', L3.names is S.UNRESOLVED and L3.__dict__ == before,
              clause='a re-entrant query answers UNRESOLVED and changes nothing', path=path)
        run.case = 'depth-0'
        top = mk_top()
        r0 = region(top, Table('t', False))
        v = r0.names
        prove('memoised-at-depth-0', r0.__dict__.get('names') is v and r0.names is v,
              clause='outside any loop resolution the table is memoised as before', path=path)
        run.case = None
    core.explore(lambda: None, lambda p, out: go(p))


@harness(['C04', 'C08', 'C06'], 'supp.evaluator.EvalCtx.evaluate[re-entrancy guard]')
def evaluate_guard(run):
    """evaluate(node): None for None and for a node whose evaluation is in progress (cycle guard); otherwise the value of
    _evaluate(node), with `nodes` and `level` restored on normal return"""
    import supp.evaluator as E
    f = loader.load('supp.evaluator', 'EvalCtx.evaluate')

    def go(path):
        class Ctx(object):
            def __init__(self):
                self.nodes, self.level, self.seen = set(), 0, []

            def _evaluate(self, node):
                self.seen.append((node, set(self.nodes), self.level))
                return ('value-of', node)
        c = Ctx()
        prove('none-is-none', f(c, None) is None and not c.seen, path=path)
        c.nodes.add('busy')
        prove('in-progress-node-yields-none', f(c, 'busy') is None and not c.seen and c.nodes == {'busy'},
              clause='a node already being evaluated yields None (terminates cyclic assignments / inheritance / recursion)', path=path)
        r = f(c, 'n1')
        prove('delegates-with-the-node-marked', r == ('value-of', 'n1') and c.seen == [('n1', {'busy', 'n1'}, 1)], path=path)
        prove('state-restored-on-return', c.nodes == {'busy'} and c.level == 0, clause='nodes and level are restored', path=path)
    core.explore(lambda: None, lambda p, out: go(p))


@harness(['C04'], 'supp.util.cached_property / supp.util.context_property')
def memo_descriptors(run):
    """cached_property: computes once, stores under the function's name, later reads hit the instance dict;
    context_property: one value per (object, function name, evaluation context): computed once per context, never handed to another context"""
    import supp.util as U

    def go(path):
        calls = []

        class A(object):
            @U.cached_property
            def v(self):
                calls.append('v')
                return object()

            @U.context_property
            def w(self, ctx):
                calls.append('w')
                return object()
        a = A()
        x1, x2 = a.v, a.v
        prove('cached-property-computes-once', x1 is x2 and calls == ['v'] and a.__dict__['v'] is x1, path=path)
        c1, c2 = object(), object()
        y1, y2 = a.w(c1), a.w(c1)
        prove('context-property-computes-once-per-evaluation-context', y1 is y2 and calls == ['v', 'w'], path=path)
        y3 = a.w(c2)
        prove('context-property-never-serves-another-contexts-value', y3 is not y1 and calls == ['v', 'w', 'w'],
              clause='a value computed in one evaluation context (one request) may rest on an evaluation that context cut short: another context '
                     'computes its own', path=path)
        y4 = a.w(c2)
        prove('context-property-memoises-in-the-new-context', y4 is y3 and calls == ['v', 'w', 'w'], path=path)
        prove('class-access-returns-the-descriptor', isinstance(A.v, U.cached_property), path=path)
    core.explore(lambda: None, lambda p, out: go(p))
