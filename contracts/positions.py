"""Sidecar contracts for the layout-sensitive helpers (C13, C03): util.get_expr_end, scope.get_first_body_node_loc, util.np."""
import ast

import z3

from pysym import core, loader
from pysym.core import prove, assume, EngineEscape
from pysym.harness import harness
from pysym.proxies import SInt, lift
from contracts.nast_flow import Pos, lt, le, _Expr, _Stmts

Int = z3.IntSort()

# one snippet per expression class of the grammar (Python.asdl `expr`, plus comprehension / keyword / arguments);
# identifiers e1, e2, ... are replaced by opaque sub-expressions, every other node keeps its class and gets a symbolic position
SNIPPETS = {
    'BoolOp': 'e1 and e2 and e3', 'NamedExpr': '(x := e1)', 'BinOp': 'e1 + e2', 'UnaryOp': '-e1',
    'Lambda': 'lambda a, b=e1, *, d=e2: e3', 'IfExp': 'e1 if e2 else e3', 'Dict': '{e1: e2, **e3}', 'Set': '{e1, e2}',
    'ListComp': '[e1 for x in e2 if e3]', 'SetComp': '{e1 for x in e2}', 'DictComp': '{e1: e2 for x in e3}',
    'GeneratorExp': '(e1 for x in e2)', 'Await': 'await e1', 'Yield': '(yield e1)', 'YieldFrom': '(yield from e1)',
    'Compare': 'e1 < e2 <= e3', 'Call': 'e1(e2, *e3, k=e4, **e5)', 'Call-keyword-before-star': 'e1(k=e2, *e3)',
    'JoinedStr': 'f"{e1}{e2!r:{e3}}"', 'Constant': '1', 'Attribute': 'e1.attr', 'Subscript': 'e1[e2]',
    'Slice': 'e1[e2:e3:e4]', 'Starred': '[*e1, e2]', 'Name': 'plain', 'List': '[e1, e2]', 'Tuple': '(e1, e2)',
}

EXPR_END_REPLAY = '''import sys; sys.path.insert(0, %(repo)r)
from supp.linter import lint
from supp.project import Project
src = "def f(g, x):\\n    x = g(k=1, *x)\\n    return x\\n"
r = [t[:4] for t in lint(Project(['/nonexistent']), src)]
if r:
    print('REPRODUCED: %%r: the read of x in *x sees the binding its own statement makes: %%r' %% (src, r)); sys.exit(1)
print('not reproduced')
'''


def skeleton(src):
    tree = ast.parse(src, mode='eval').body if not src.startswith('await') else ast.parse('async def _f():\n    ' + src).body[0].body[0].value
    children = []
    facts = []
    allpos = []

    class R(ast.NodeTransformer):
        def visit_Name(self, n):
            if n.id.startswith('e') and n.id[1:].isdigit():
                nd = _Expr()
                s, m = Pos(n.id + '.start'), Pos(n.id + '.lastnode')
                s.put(nd)
                nd.m = m
                # the sub-expression's nodes lie at or after its start; m is its greatest node position; reads are node positions
                facts.extend([s.l >= 1, s.c >= 0, le(s.t, m.t)])
                children.append(nd)
                return nd
            return self.generic_visit(n)
    tree = R().visit(tree)
    for nd in ast.walk(tree):
        if not isinstance(nd, _Expr) and hasattr(nd, 'lineno'):
            p = Pos(type(nd).__name__)
            p.put(nd)
            facts.extend([p.l >= 1, p.c >= 0])
            allpos.append(p)
    return tree, children, facts, allpos


@harness(['C13', 'C03', 'C02'], 'supp.util.get_expr_end', twins=('spec-plus-zero',))
def get_expr_end_contract(run, twin=None):
    """for every expression class of the grammar, with opaque sub-expressions and UNCONSTRAINED node positions (so for every layout
    and every field order): get_expr_end(e) is one column after the greatest node position in e - hence strictly after every
    Name read in e (a binding placed there is not visible inside its own right-hand side) and not after the first position behind e.
    The recursive visit of a sub-expression is a modular call (hypothesis: it raises the running maximum to that sub-expression's
    greatest node position + 1 column)"""
    import supp.util as U
    run.concretise = lambda model, ob: {'input': 'x = g(k=1, *x)', 'script': EXPR_END_REPLAY % {'repo': core.REPO}}

    from pysym.proxies import m_max as lexmax
    U.max = lexmax        # the builtin `max` of the real module, by its model (lexicographic maximum of two position pairs)

    class HV(U.get_expr_end_visitor):
        def visit__Expr(self, node):
            self.last_loc = lexmax(self.last_loc, (SInt(node.m.l), SInt(node.m.c) + 1))

    for cls, src in SNIPPETS.items():
        holder = {}

        def body(src=src, cls=cls):
            run.case = cls
            tree, children, facts, allpos = skeleton(src)
            for fct in facts:
                assume(fct)
            holder.update(tree=tree, children=children, allpos=allpos)
            return HV().process(tree)

        def on_path(p, out, cls=cls):
            if out[0] != 'ok':
                prove('no-exception(%s)' % type(out[1]).__name__, False, path=p)
                return
            r = (lift(out[1][0]), lift(out[1][1]))
            cands = [pp.t for pp in holder['allpos']] + [c.m.t for c in holder['children']]
            plus = 0 if twin else 1
            after_all = z3.And(*[lt(c, r) for c in cands]) if not twin else z3.And(*[le(c, r) for c in cands] + [z3.Or(*[z3.And(r[0] == c[0], r[1] == c[1]) for c in cands])])
            prove('after-every-node', after_all, clause='strictly after every node position of the expression (every Name read)', path=p)
            prove('one-column-after-some-node', z3.Or(*[z3.And(r[0] == c[0], r[1] == c[1] + plus) for c in cands]),
                  clause='exactly one column after the greatest node position: not after the first position behind the expression', path=p)
        core.explore(body, on_path)
    run.case = None


@harness(['C13', 'C01', 'C02'], 'supp.scope.get_first_body_node_loc')
def first_body_node_loc(run):
    """the position from which a def / class body's bindings of parameters are visible: the first statement of the body (the first
    decorator line of a decorated def/class in first position); None for an empty body"""
    import supp.scope as S
    f = loader.load('supp.scope', 'get_first_body_node_loc')
    run.concretise = lambda model, ob: {'input': 'a parameter used in the decorator of an async def that is the first statement of the body', 'script': (
        'import sys; sys.path.insert(0, %r)\nfrom supp.linter import lint\nfrom supp.project import Project\n'
        'src = "def outer(p):\\n    @deco(p)\\n    async def inner():\\n        pass\\n    return inner\\n"\n'
        'r = [t[:4] for t in lint(Project(["/x"]), src) if t[1].endswith(": p")]\n'
        'if r:\n    print("REPRODUCED: %%r" %% (r,)); sys.exit(1)\nprint("not reproduced")\n') % core.REPO}

    def go(path):
        prove('empty-body-none', f([]) is None, path=path)
    core.explore(lambda: None, lambda p, out: go(p))
    holder = {}

    def body():
        p1, p2 = Pos('s1'), Pos('s2')
        assume(z3.And(p1.l >= 1, p1.c >= 0, p2.l >= 1, p2.c >= 0, lt(p1.t, p2.t)))
        a, b = p1.put(ast.Pass()), p2.put(ast.Pass())
        holder.update(p1=p1)
        return f([a, b])

    def on_path(p, out):
        ok = out[0] == 'ok' and out[1] is not None
        prove('first-statement-position', z3.And(lift(out[1][0]) == holder['p1'].l, lift(out[1][1]) == holder['p1'].c) if ok else False,
              clause='== position of the first statement of the body', path=p)
    core.explore(body, on_path)

    def body2():
        pd, pf = Pos('decorator'), Pos('def')
        assume(z3.And(pd.l >= 1, pd.c >= 0, pf.l >= 1, pf.c >= 0, pd.l < pf.l))
        kind = (ast.FunctionDef, ast.AsyncFunctionDef, ast.ClassDef)[core.choice(3)]
        holder['kind'] = kind.__name__
        if kind is ast.ClassDef:
            fn = pf.put(ast.ClassDef(name='g', bases=[], keywords=[], body=[ast.Pass()],
                                     decorator_list=[pd.put(ast.Name(id='d', ctx=ast.Load()))], type_params=[]))
            holder.update(pd=pd, pf=pf)
            return f([fn])
        fn = pf.put(kind(name='g', args=ast.arguments(posonlyargs=[], args=[], kwonlyargs=[], kw_defaults=[], defaults=[]),
                                    body=[ast.Pass()], decorator_list=[pd.put(ast.Name(id='d', ctx=ast.Load()))], type_params=[]))
        holder.update(pd=pd, pf=pf)
        return f([fn])

    def on2(p, out):
        ok = out[0] == 'ok' and out[1] is not None
        run.case = holder.get('kind')
        prove('decorated-first-statement-starts-at-its-decorator-line',
              z3.And(lift(out[1][0]) == holder['pd'].l, lt((lift(out[1][0]), lift(out[1][1])), holder['pf'].t)) if ok else False,
              clause='not after the decorator line (the decorator is the first token of the body)', path=p)
        r = (lift(out[1][0]), lift(out[1][1])) if ok else None
        prove('decorated-first-statement-starts-no-later-than-its-decorator-expression',
              z3.Or(lt(r, holder['pd'].t), z3.And(r[0] == holder['pd'].l, r[1] == holder['pd'].c)) if ok else False,
              clause='not after the first token of the decorator expression, wherever the layout puts it (`@(` newline `dec` newline `)`): a name read '
                     'there belongs to the body', path=p)
    core.explore(body2, on2)
    run.case = None


@harness(['C13', 'C01', 'C02'], 'supp.scope.get_first_body_node_loc[call sites: def body, for body, except body, class body]')
def first_statement_call_sites(run):
    """a name that becomes visible at the start of a body (a for target, an except name, the names of a class body) is visible from the FIRST
    line of that body: when the body opens with a decorated def / class that is the decorator line, where the name may already be read"""
    import supp.linter as L
    import supp.project as Pj

    def go(path):
        cases = {
            'except-name-read-by-the-decorator-of-the-first-statement':
                'def o(dec, E):\n  try:\n    pass\n  except E as e:\n    @dec(e)\n    def f(): pass\n    return f\n',
            'for-target-read-by-the-decorator-of-the-first-statement':
                'def o(dec, xs, use):\n  for i in xs:\n    @dec(i)\n    def f(): pass\n    use(f)\n',
            'for-target-read-by-a-multi-line-decorator':
                'def o(dec, xs, use):\n  for i in xs:\n    @dec(\n        i)\n    class K: pass\n    use(K)\n',
            'except-name-read-by-the-second-decorator':
                'def o(d1, d2, E):\n  try:\n    pass\n  except E as e:\n    @d1\n    @d2(e)\n    async def f(): pass\n    return f\n',
        }
        cases.update({
            'parameter-read-by-the-decorator-of-a-leading-class': 'def plugin(register):\n    @register\n    class Plugin: pass\n    return Plugin\n',
            'parameter-read-by-the-decorator-of-a-leading-def': 'def plugin(register):\n    @register\n    def inner(): pass\n    return inner\n',
            'parameter-read-by-the-decorator-of-a-leading-async-def': 'async def plugin(register):\n    @register.x\n    async def inner(): pass\n    return inner\n',
            'lambda-free-parameter-read-by-the-second-decorator-of-a-leading-class':
                'def plugin(a, b):\n    @a\n    @b(a)\n    class Plugin: pass\n    return Plugin\n',
            'parameter-read-by-a-parenthesised-decorator-on-its-own-line': 'def f(dec):\n    @(\n  dec\n    )\n    def g(): pass\n    return g\n',
            'parameter-read-by-a-decorator-after-a-backslash': 'def f(dec):\n    @\\\ndec\n    class G: pass\n    return G\n',
            'for-target-read-by-a-parenthesised-decorator-on-its-own-line': 'def o(xs, use):\n  for dec in xs:\n    @(\n dec)\n    def f(): pass\n    use(f)\n',
            'except-name-read-by-the-decorator-of-a-leading-class':
                'def o(dec, E):\n  try:\n    pass\n  except E as e:\n    @dec(e)\n    class K: pass\n    return K\n',
        })
        for label, src in cases.items():
            got = [d[:4] for d in L.lint(Pj.Project(['/nonexistent']), src)]
            prove(label, got == [], clause='no diagnostics for\n%s[%r]' % (src, got), path=path)
    core.explore(lambda: None, lambda p, out: go(p))
