"""Sidecar contracts for exception freedom (C08): every extract_visitor.visit_* over every input its ASDL signature allows
(one level of concrete node classes, deeper children opaque), lint's E01 clause and usage loop over every class of table value,
location's result formatting over every class declarations() can return, import failures."""
import ast
import re

import z3

from pysym import core, loader
from pysym.core import prove, EngineEscape
from pysym.harness import harness
from contracts.nast_flow import _Stmts, _Expr, make_visitor_class
from spec.flow import Child

SIG = re.compile(r'(\w+)([?*]?) (\w+)')
TARGET_FIELDS = {'target', 'targets', 'optional_vars'}


def asdl(cls):
    doc = cls.__doc__ or ''
    m = re.match(r'\w+\((.*)\)', doc.strip().split('\n')[0])
    if not m:
        return []
    return [(t, q, n) for t, q, n in SIG.findall(m.group(1))]


_pos = [0]


def P(node):
    _pos[0] += 2
    node.lineno, node.col_offset = 1 + _pos[0] // 40, _pos[0] % 40
    node.end_lineno, node.end_col_offset = node.lineno, node.col_offset + 1
    return node


def opaque_expr(label='e'):
    nd = _Expr()
    nd.child = Child('expr', label)
    return P(nd)


def opaque_stmts(label='s'):
    nd = _Stmts()
    nd.child = Child('stmts', label)
    P(nd)

    class At(object):
        l, c = z3.IntVal(nd.lineno), z3.IntVal(nd.col_offset)
    nd.child.start = nd.child.end = nd.child.summary_at = At
    return nd


def store_targets():
    """every node class the grammar allows in an assignment-target position, one level deep"""
    N = lambda i: P(ast.Name(id=i, ctx=ast.Store()))
    return [
        ('Name', lambda: N('t')),
        ('Tuple', lambda: P(ast.Tuple(elts=[N('t1'), N('t2')], ctx=ast.Store()))),
        ('List', lambda: P(ast.List(elts=[N('t1')], ctx=ast.Store()))),
        ('Tuple-with-Starred', lambda: P(ast.Tuple(elts=[N('t1'), P(ast.Starred(value=N('t2'), ctx=ast.Store()))], ctx=ast.Store()))),
        ('Attribute', lambda: P(ast.Attribute(value=opaque_expr('obj'), attr='a', ctx=ast.Store()))),
        ('Subscript', lambda: P(ast.Subscript(value=opaque_expr('obj'), slice=opaque_expr('idx'), ctx=ast.Store()))),
        ('Tuple-with-Attribute', lambda: P(ast.Tuple(elts=[N('t1'), P(ast.Attribute(value=opaque_expr('obj'), attr='a', ctx=ast.Store()))], ctx=ast.Store()))),
        ('Starred-Tuple', lambda: P(ast.Tuple(elts=[P(ast.Starred(value=P(ast.Tuple(elts=[N('t1'), N('t2')], ctx=ast.Store())), ctx=ast.Store())), N('t3')], ctx=ast.Store()))),
        ('nested-Tuple', lambda: P(ast.Tuple(elts=[P(ast.Tuple(elts=[N('t1'), N('t2')], ctx=ast.Store())), N('t3')], ctx=ast.Store()))),
    ]


def mk_arguments(full, annotated=True):
    A = lambda n: P(ast.arg(arg=n, annotation=opaque_expr('ann') if (full and annotated) else None))
    if not full:
        return ast.arguments(posonlyargs=[], args=[], vararg=None, kwonlyargs=[], kw_defaults=[], kwarg=None, defaults=[])
    return ast.arguments(posonlyargs=[A('p')], args=[A('a'), A('b')], vararg=A('va'), kwonlyargs=[A('k1'), A('k2')],
                         kw_defaults=[None, opaque_expr('kd')], kwarg=A('kw'), defaults=[opaque_expr('df')])


def field_variants(cls, typ, quant, name):
    """list of (label, thunk) values for one field"""
    if typ == 'expr':
        if getattr(ast, 'TypeAlias', None) is cls and name == 'name':
            return [('Name', lambda: P(ast.Name(id='Alias', ctx=ast.Store())))]         # grammar: `type NAME = ...`
        if name in TARGET_FIELDS:
            vs = store_targets()
            if cls is ast.AnnAssign:
                vs = [v for v in vs if v[0] in ('Name', 'Attribute', 'Subscript')]      # grammar: single_target
            if cls is ast.NamedExpr:
                vs = [v for v in vs if v[0] == 'Name']
            if quant == '*':
                return [(l, (lambda t=t: [t()])) for l, t in vs] + [('two-targets', lambda: [store_targets()[0][1](), store_targets()[1][1]()])]
            if quant == '?':
                return [('None', lambda: None)] + vs
            return vs
        walrus = lambda: P(ast.NamedExpr(target=P(ast.Name(id='w', ctx=ast.Store())), value=opaque_expr('wv')))
        if cls is ast.Compare and name == 'comparators':
            # grammar: one comparator per link; a later one may bind
            return [('three', lambda: [opaque_expr(name), opaque_expr(name), opaque_expr(name)]), ('one', lambda: [opaque_expr(name)]),
                    ('walrus-in-a-later-one', lambda: [opaque_expr(name), walrus(), opaque_expr(name)]), ('walrus-in-the-first', lambda: [walrus()])]
        if cls is ast.BoolOp and name == 'values':
            return [('two', lambda: [opaque_expr(name), opaque_expr(name)]), ('walrus-in-a-later-one', lambda: [opaque_expr(name), walrus(), walrus()])]
        if cls is ast.Assert and name == 'msg':
            return [('present', lambda: opaque_expr(name)), ('None', lambda: None), ('walrus', walrus)]
        if cls is ast.IfExp and name in ('body', 'orelse'):
            return [('opaque', lambda: opaque_expr(name)), ('walrus', walrus)]
        if quant == '*':
            return [('two', lambda: [opaque_expr(name), opaque_expr(name)]), ('empty', lambda: [])]
        if quant == '?':
            return [('present', lambda: opaque_expr(name)), ('None', lambda: None)]
        return [('opaque', lambda: opaque_expr(name))]
    if typ == 'stmt':
        vs = [('one', lambda: [opaque_stmts(name)])]
        if name in ('orelse', 'finalbody'):
            vs.append(('empty', lambda: []))
        return vs
    if typ == 'identifier':
        if quant == '*':
            return [('two', lambda: ['a', 'b'])]
        if quant == '?':
            return [('None', lambda: None), ('name', lambda: 'n')]
        return [('name', lambda: 'nm')]
    if typ == 'arguments':
        return [('all-kinds', lambda: mk_arguments(True, cls is not ast.Lambda)), ('none', lambda: mk_arguments(False))]
    if typ == 'withitem':
        its = []
        for l, t in [('no-target', lambda: None)] + store_targets():
            its.append((l, (lambda t=t: [ast.withitem(context_expr=opaque_expr('ctx'), optional_vars=t())])))
        its.append(('two-items', lambda: [ast.withitem(context_expr=opaque_expr('c1'), optional_vars=store_targets()[0][1]()),
                                          ast.withitem(context_expr=opaque_expr('c2'), optional_vars=None)]))
        return its
    if typ == 'excepthandler':
        H = lambda t, n: P(ast.ExceptHandler(type=t, name=n, body=[opaque_stmts('h')]))
        return [('typed-named', lambda: [H(opaque_expr('E'), 'err')]), ('bare', lambda: [H(None, None)]),
                ('typed-unnamed+bare', lambda: [H(opaque_expr('E'), None), H(None, None)]), ('none', lambda: [])]
    if typ == 'comprehension':
        out = []
        for l, t in store_targets():
            out.append((l, (lambda t=t: [ast.comprehension(target=t(), iter=opaque_expr('it'), ifs=[opaque_expr('c')], is_async=0)])))
        out.append(('two-generators', lambda: [ast.comprehension(target=store_targets()[0][1](), iter=opaque_expr('i1'), ifs=[], is_async=0),
                                               ast.comprehension(target=store_targets()[1][1](), iter=opaque_expr('i2'), ifs=[opaque_expr('c')], is_async=1)]))
        return out
    if typ == 'alias':
        return [('plain', lambda: [P(ast.alias(name='m', asname=None))]), ('dotted', lambda: [P(ast.alias(name='a.b.c', asname=None))]),
                ('as', lambda: [P(ast.alias(name='a.b', asname='x')), P(ast.alias(name='m2', asname=None))]), ('star', lambda: [P(ast.alias(name='*', asname=None))])]
    if typ == 'keyword':
        return [('kw', lambda: [P(ast.keyword(arg='metaclass', value=opaque_expr('M')))]), ('none', lambda: [])]
    if typ == 'int':
        return [('1', lambda: 1), ('0', lambda: 0)]
    if typ == 'string':
        return [('None', lambda: None)]
    if typ == 'type_param':
        return [('none', lambda: []), ('bounded', lambda: [P(ast.TypeVar(name='T', bound=opaque_expr('bound')))])]
    if typ == 'pattern':
        cap = lambda n: P(ast.MatchAs(pattern=None, name=n))
        vs = [('capture', lambda: cap('c1')), ('wildcard', lambda: P(ast.MatchAs(pattern=None, name=None))),
              ('value', lambda: P(ast.MatchValue(value=opaque_expr('v')))),
              ('as-pattern', lambda: P(ast.MatchAs(pattern=P(ast.MatchValue(value=opaque_expr('v'))), name='c2'))),
              ('sequence-with-star', lambda: P(ast.MatchSequence(patterns=[cap('c3'), P(ast.MatchStar(name='rest'))]))),
              ('star-wildcard', lambda: P(ast.MatchSequence(patterns=[P(ast.MatchStar(name=None))]))),
              ('mapping-rest', lambda: P(ast.MatchMapping(keys=[opaque_expr('k')], patterns=[cap('c4')], rest='kw'))),
              ('mapping-rest-only', lambda: P(ast.MatchMapping(keys=[], patterns=[], rest='kw2'))),
              ('mapping-empty', lambda: P(ast.MatchMapping(keys=[], patterns=[], rest=None))),
              ('class', lambda: P(ast.MatchClass(cls=opaque_expr('cls'), patterns=[cap('c5')], kwd_attrs=['a'], kwd_patterns=[cap('c6')]))),
              ('or', lambda: P(ast.MatchOr(patterns=[cap('c7'), P(ast.MatchAs(pattern=P(ast.MatchValue(value=opaque_expr('v'))), name='c7'))])))]
        if quant == '*' and cls is ast.MatchOr:
            # grammar: two or more alternatives binding the same names
            return [('two-captures', lambda: [cap('d1'), cap('d1')])] + [(l + '|capture', (lambda t=t: [t(), cap('c1')])) for l, t in vs[:4]]
        if quant == '*':
            return [(l, (lambda t=t: [t()])) for l, t in vs] + [('two', lambda: [cap('d1'), P(ast.MatchStar(name='d2'))]), ('empty', lambda: [])]
        if quant == '?':
            return [('None', lambda: None)] + vs
        return vs
    if typ == 'operator':
        return [('Add', ast.Add)]
    if typ == 'cmpop':
        return [('three-links', lambda: [ast.Lt(), ast.Lt(), ast.Is()]), ('one-link', lambda: [ast.Eq()])]
    if typ == 'boolop':
        return [('Or', ast.Or), ('And', ast.And)]
    if typ == 'expr_context':
        return [('Load', ast.Load), ('Store', ast.Store), ('Del', ast.Del)]
    return None


def skeletons(cls):
    """base instance with every field at its first variant, then every other variant of one field at a time"""
    fields = asdl(cls)
    vs = []
    for t, q, n in fields:
        fv = field_variants(cls, t, q, n)
        if fv is None:
            return []
        vs.append((n, fv))
    out = []
    base = {n: fv[0] for n, fv in vs}
    combos = [dict(base)]
    for n, fv in vs:
        for v in fv[1:]:
            c = dict(base)
            c[n] = v
            combos.append(c)
    for c in combos:
        label = ','.join('%s=%s' % (n, c[n][0]) for n, _ in vs)
        out.append((label, (lambda c=c: P(cls(**{n: c[n][1]() for n, _ in vs})))))
    return out


def scopes_for_visit():
    """(label, function that installs the visitor in that kind of scope)"""
    import supp.scope as S
    import supp.util as U

    def mk(kind):
        top = S.SourceScope(U.Source('pass'))
        top.parent = None
        top.find_id_loc = lambda id, start, shift=0, delimeters=True, end_line=None: start
        if kind == 'module':
            return top, top.flow
        node = ast.parse('class C: pass' if kind == 'class' else 'def f(): pass').body[0]
        sc = (S.ClassScope if kind == 'class' else S.FuncScope)(top, node, top)
        return top, sc.flow
    return [(k, (lambda k=k: mk(k))) for k in ('module', 'class', 'function')]


TOTAL_REPLAY = '''import sys; sys.path.insert(0, %(repo)r)
from supp.linter import lint
from supp.project import Project
p = Project(['/nonexistent'])
bad = []
for src in %(srcs)r:
    try:
        r = lint(p, src)
        if not isinstance(r, list): bad.append((src, r))
    except Exception as e:
        bad.append((src, '%%s: %%s' %% (type(e).__name__, e)))
if bad:
    print('REPRODUCED: lint raises on valid programs: %%r' %% (bad,)); sys.exit(1)
print('not reproduced')
'''
WITNESSES = ["def f(y):\n    *(a, b), c = y\n    return a, b, c\n", "class A:\n    def m(self, y):\n        for self.x in y:\n            pass\n", "x = [0]\nfor x[0] in [1]:\n    pass\n",
             "def f(o, y):\n    with y as o.a:\n        pass\n", "def f(o, y):\n    return [1 for o.a in y]\n",
             "def f(c):\n    if c:\n        locals = 1\n    else:\n        locals = 2\n    return locals\n"]


@harness(['C08', 'C01'], 'supp.nast.extract_visitor.visit_* [exception freedom over ASDL-typed inputs]')
def visitors_total(run):
    """for every node class the visitor has a method for, every field filled with every node class its ASDL type allows at that position
    (assignment targets: Name, Tuple, List, Starred, Attribute, Subscript, nested; optional fields absent and present; lists empty and
    not), deeper children opaque, in module / class / function scope: visit raises nothing, and every Name read inside a target
    expression is analysed (gets a region)"""
    import supp.nast as N
    run.concretise = lambda model, ob: {'input': 'programs with attribute / subscript targets in for / with / comprehension',
                                        'script': TOTAL_REPLAY % {'repo': core.REPO, 'srcs': WITNESSES[:5]}}
    VC = make_visitor_class()
    names = sorted(n[6:] for n in vars(N.extract_visitor) if n.startswith('visit_') and hasattr(ast, n[6:]))
    # statements without a dedicated method go through generic_visit: included for completeness of the dispatch
    extra = ['Delete', 'AugAssign', 'Raise', 'Assert', 'Expr', 'Pass', 'Break', 'Continue', 'Yield', 'YieldFrom', 'Await']
    holder = {}

    def go(path):
        for cname in names + extra:
            cls = getattr(ast, cname)
            sks = skeletons(cls)
            if not sks:
                prove('%s-skeleton-built' % cname, cname in ('Pass', 'Break', 'Continue'), kind='ground', path=path)
                sks = [('plain', lambda cls=cls: P(cls()))]
            for label, mk in sks:
                for sk, mkscope in scopes_for_visit():
                    run.case = '%s(%s) in %s' % (cname, label, sk)
                    node = mk()
                    top, flow = mkscope()
                    v = VC()
                    v.top, v.flow = top, flow
                    try:
                        # opaque statement children: representation (a) only here (the representation fork is irrelevant to exceptions)
                        core.CUR.prefix = [(0, True)] * 50
                        v.visit(node)
                        exc = None
                    except Exception as e:
                        exc = e
                    core.CUR.taken = []
                    prove('raises-nothing', exc is None, clause='visit_%s raises nothing [%s: %s]' % (cname, type(exc).__name__, exc), path=path)
                    if exc is None:
                        missing = [c.child.label for c in ast.walk(node) if isinstance(c, _Expr) and not c.child.visits]
                        prove('every-sub-expression-analysed', not missing,
                              clause='every expression inside the node is visited (no UNKNOWN NAME) [not visited: %s]' % missing, path=path)
        run.case = None
    core.explore(lambda: None, lambda p, out: go(p))


# ---------------------------------------------------------------------------
# location(): result formatting over every class declarations() can return; import failures

LOC_REPLAY = '''import sys; sys.path.insert(0, %(repo)r)
from supp.assistant import location, assist
from supp.project import Project
p = Project(['/nonexistent'])
bad = []
for what, fn, src, pos in (('builtin', location, "len\\n", (1, 3)), ('runtime module', location, "import sys\\nsys\\n", (2, 3)),
                           ('attribute of a runtime module', location, "import os\\nos.path\\n", (2, 7)),
                           ('unknown module', location, "import nosuchmod\\n", (1, 16)), ('unknown module', assist, "import nosuchmod.\\n", (1, 17)),
                           ('unknown module', assist, "from nosuchmod import x\\n", (1, 23)),
                           ('relative import outside a package', assist, "from . import a\\n", (1, 15))):
    try:
        fn(p, src, pos, '/nonexistent/m.py')
    except SyntaxError:
        pass
    except Exception as e:
        bad.append((what, fn.__name__, src, '%%s: %%s' %% (type(e).__name__, e)))
if bad:
    print('REPRODUCED: %%r' %% (bad,)); sys.exit(1)
print('not reproduced')
'''


def result_objects():
    """one instance of every class that can reach the formatting loop of location()"""
    import supp.name as Nm
    import supp.scope as S
    import supp.module as Md
    import supp.util as U
    import sys
    top = S.SourceScope(U.Source('x = 1', 'file.py'))
    out = []
    a = Nm.AssignedName('x', (1, 0), (1, 0), None)
    a.scope = top
    out.append(('AssignedName', a))
    g = Nm.ArgumentName([0], 'x', (1, 0), (1, 4), None)
    g.scope = top
    out.append(('ArgumentName', g))
    i = Nm.ImportedName('x', (1, 0), (1, 7), 'os', None)
    i.scope = top
    out.append(('ImportedName', i))
    fnode = ast.parse('def f(): pass').body[0]
    f = S.FuncScope(top, fnode, top)
    f.scope = top
    out.append(('FuncScope', f))
    c = S.ClassScope(top, ast.parse('class C: pass').body[0], top)
    c.scope = top
    out.append(('ClassScope', c))
    out.append(('RuntimeName(builtin)', Nm.RuntimeName('len', len, True)))
    out.append(('RuntimeName(runtime attribute)', Nm.RuntimeName('path', 1)))
    attr = ast.parse('self.a = 1').body[0].targets[0]
    out.append(('AssignedAttribute', Nm.AssignedAttribute(top, attr, None, (1, 5))))
    out.append(('ImportedModule', Md.ImportedModule(sys)))
    import supp.project as _Pj
    sm = loader.bare_instance(Md.SourceModule, project=_Pj.Project(['/nonexistent']))
    sm.name, sm.filename, sm.declared_at = 'm', '/x/m.py', (1, 0)
    out.append(('SourceModule', sm))
    out.append(('AdditionalNameWrapper(source module)', Nm.AdditionalNameWrapper(sm, {})))
    out.append(('AdditionalNameWrapper(runtime module)', Nm.AdditionalNameWrapper(Md.ImportedModule(sys), {})))
    return out


@harness(['C08'], 'supp.assistant.location[result formatting, import failures] / assist[import failures]')
def location_total(run):
    """whatever class declarations() returns (every Name / module / wrapper class of supp, alone or in a list of alternatives), the
    formatting raises nothing and every entry it yields is {'loc': position, 'file': name}; an unresolvable module name (ImportError from
    the project) never escapes assist / location: only SyntaxError may"""
    import supp.assistant as A
    run.concretise = lambda model, ob: {'input': 'cursor on a builtin, a runtime module, an unknown module name', 'script': LOC_REPLAY % {'repo': core.REPO}}

    def go(path):
        objs = result_objects()
        for label, o in objs + [('list-of-alternatives', [objs[0][1], objs[1][1]])]:
            run.case = label

            class Ctx(object):
                def __init__(self, project):
                    pass

                def declarations(self, node, result=None):
                    return [o]
            f = loader.load('supp.assistant', 'location', stubs=dict(
                Source=lambda s, fn, pos: s, extract_scope=lambda s, p: None, get_marked_import=lambda t: None,
                get_marked_name=lambda t: 'node', get_marked_atribute=lambda t: None, EvalCtx=Ctx, print_dump=lambda t: None))

            import supp.util as U
            src = loader.bare_instance(U.Source, tree=None, filename='f.py', source='', orig_source='')
            try:
                r = f(None, src, (1, 1), 'f.py')
                exc = None
            except Exception as e:
                r, exc = None, e
            prove('formatting-raises-nothing', exc is None, clause='location() formats a %s result without raising [%s: %s]' % (label, type(exc).__name__, exc), path=path)
            if exc is None:
                flat = [x for e in r for x in (e if isinstance(e, list) else [e])]
                ok = isinstance(r, list) and all(isinstance(x, dict) and set(x) == {'loc', 'file'} and isinstance(x['loc'], tuple) for x in flat)
                prove('well-formed-entries', ok, clause="every entry is {'loc': (line, col), 'file': ...} [%r]" % (r,), path=path)
        # import failures
        class Proj(object):
            def get_nmodule(self, name, filename):
                raise ImportError(name)

            def norm_package(self, name, filename):
                raise ImportError(name)

            def list_packages(self, root):
                return set()
        for fname, marked in (('location', ('nosuch', None)), ('location', ('nosuch', 'x')), ('location', ('nosuch.sub', '')),
                              ('assist', ('nosuch', None)), ('assist', ('nosuch', 'x'))):
            run.case = '%s%r' % (fname, marked)
            stubs = dict(Source=lambda s, fn, pos: s, extract_scope=lambda s, p: None, get_marked_import=lambda t, m=marked: m,
                         print_dump=lambda t: None)

            import supp.util as U
            src2 = loader.bare_instance(U.Source, tree=None, lines=['import nosuch'], filename='f.py', source='import nosuch', orig_source='import nosuch')
            f = loader.load('supp.assistant', fname, stubs=stubs)
            try:
                r = f(Proj(), src2, (1, 13), 'f.py')
                exc = None
            except SyntaxError:
                exc = None
            except Exception as e:
                exc = e
            prove('import-failure-does-not-escape', exc is None,
                  clause='an unresolvable module name is not an error of the request [%s: %s]' % (type(exc).__name__, exc), path=path)
        # relative import outside any package: list_packages -> norm_package
        run.case = 'assist(from-branch, norm_package fails)'

        import supp.util as U
        # (the real Source: the marked text `from .<mark> import` does not parse, which is what makes it an unfinished import)
        f = loader.load('supp.assistant', 'assist')
        try:
            f(Proj(), 'from . import', (1, 6), 'f.py')
            exc = None
        except SyntaxError:
            exc = None
        except Exception as e:
            exc = e
        prove('import-failure-does-not-escape', exc is None, clause='[%s: %s]' % (type(exc).__name__, exc), path=path)
        run.case = None
    core.explore(lambda: None, lambda p, out: go(p))


@harness(['C08', 'C07'], 'supp.project.Project.norm_package / get_module[exception class]')
def import_error_class(run):
    """whatever cannot be resolved is reported as ImportError (what the import system raises), never as a bare Exception"""
    import os
    import tempfile
    from supp.project import Project

    def go(path):
        d = tempfile.mkdtemp(prefix='supp-c08-')
        try:
            open(os.path.join(d, 'm.py'), 'w').close()
            p = Project([d])
            for label, fn in (('relative-import-outside-a-package', lambda: p.norm_package('.a', os.path.join(d, 'm.py'))),
                              ('relative-import-beyond-top-level', lambda: p.norm_package('...a', os.path.join(d, 'm.py'))),
                              ('relative-name-without-a-file', lambda: p.norm_package('.a', None)),
                              ('relative-name-with-an-empty-file-name', lambda: p.norm_package('..', '')),
                              ('unknown-module', lambda: p.get_module('nosuch_module_xyz')),
                              ('unknown-submodule', lambda: p.get_module('m.nosuch'))):
                try:
                    fn()
                    kind = 'returned'
                except ImportError:
                    kind = 'ImportError'
                except Exception as e:
                    kind = '%s: %s' % (type(e).__name__, e)
                prove('%s-raises-ImportError' % label, kind == 'ImportError', clause='unresolvable names raise ImportError [%s]' % kind, path=path)
            # a file name without a directory part (an unsaved buffer: '<string>', 'mod.py'), asked from a working directory that is a package
            # and no search root: in a child process, because the obligation is that it comes back at all
            import subprocess
            import sys as _sys
            open(os.path.join(d, '__init__.py'), 'w').close()
            script = ('import sys; sys.path[:] = [%r] + [p for p in sys.path if p not in ("", ".")]\n'
                      'from supp.project import Project\nfrom supp.assistant import location\nfrom supp.linter import lint\n'
                      'p = Project(["/nonexistent-root"])\n'
                      'for fn in ("mod.py", "<string>"):\n'
                      '    try:\n        print("norm_package ->", p.norm_package(".x", fn))\n    except ImportError as e:\n        print("ImportError")\n'
                      'print(len(location(p, "from . import x\\nx.y", (2, 1))), len(lint(p, "from . import x\\nprint(x.y)\\n")))\nprint("TERMINATED")\n') % core.REPO
            try:
                r = subprocess.run([_sys.executable, '-c', script], cwd=d, capture_output=True, text=True, timeout=30)
                outcome = 'terminated' if 'TERMINATED' in r.stdout else 'failed: %s' % (r.stderr.strip().splitlines() or ['?'])[-1]
            except subprocess.TimeoutExpired:
                outcome = 'no answer within 30 s'
            if outcome != 'terminated':
                core.RUN.concretise = lambda model, ob: {'input': 'working directory with __init__.py that is no search root; norm_package(".x", "mod.py")', 'script': (
                    'import os, sys, tempfile, subprocess\nd = tempfile.mkdtemp(); open(os.path.join(d, "__init__.py"), "w").close()\n'
                    'try:\n    subprocess.run([sys.executable, "-c", %r], cwd=d, timeout=20); print("not reproduced")\n'
                    'except subprocess.TimeoutExpired:\n    print("REPRODUCED: a relative name asked for an unsaved buffer does not come back (the climb never leaves the empty directory name)")\n') % script}
            prove('relative-name-of-a-file-without-a-directory-terminates', outcome == 'terminated',
                  clause='norm_package / location / lint answer (ImportError or a result) for a bare file name in a package working directory [%s]' % outcome, path=path)
            core.RUN.concretise = None
        finally:
            import shutil
            shutil.rmtree(d, ignore_errors=True)
    core.explore(lambda: None, lambda p, out: go(p))


@harness(['C08', 'C09'], 'supp.module.SourceModule._attrs / supp.evaluator.EvalCtx.declarations[import cycles, modules that do not parse]')
def cycle_guards(run):
    """SourceModule._attrs: reached again while the module's own analysis is running (a star-import cycle) it returns an empty table and the outer
    analysis completes; a module whose text does not parse has an empty table; the re-entrancy flag is reset on every exit.
    declarations(): a chain of imported names that comes back to a name it went through ends there (two modules importing a name from each
    other)"""
    import os
    import shutil
    import tempfile
    import supp.module as Md
    import supp.project as Pj
    import supp.evaluator as Ev
    import supp.name as Nm

    def go(path):
        d = tempfile.mkdtemp(prefix='supp-c08-')
        try:
            files = {'ma.py': 'from mb import *\nfrom_a = 1\n', 'mb.py': 'from ma import *\nfrom_b = 2\n', 'bad.py': 'def broken(:\n',
                     'self_star.py': 'from self_star import *\nv = 1\n', 'mc.py': 'from md import q\n', 'md.py': 'from mc import q\n'}
            for fn, body in files.items():
                open(os.path.join(d, fn), 'w').write(body)
            for first in ('ma', 'mb'):
                p = Pj.Project([d])
                try:
                    a = p.get_module(first)._attrs
                    out = sorted(a)
                except BaseException as e:
                    out = 'raised %s' % type(e).__name__
                prove('star-import-cycle-entered-through-%s-terminates' % first, isinstance(out, list) and ('from_a' in out or 'from_b' in out),
                      clause='a star-import cycle is analysed without recursion error and the entry module keeps its own names [%r]' % (out,), path=path)
                prove('re-entrancy-flag-reset(%s)' % first, p.get_module('ma')._analysing is False and p.get_module('mb')._analysing is False, path=path)
            p = Pj.Project([d])
            try:
                out = sorted(p.get_module('self_star')._attrs)
            except BaseException as e:
                out = 'raised %s' % type(e).__name__
            prove('module-star-importing-itself-terminates', out == ['v'], clause='[%r]' % (out,), path=path)
            try:
                out = dict(p.get_module('bad')._attrs)
            except BaseException as e:
                out = 'raised %s' % type(e).__name__
            prove('module-that-does-not-parse-has-no-names', out == {}, clause='a project module with a syntax error offers an empty table [%r]' % (out,), path=path)
            prove('flag-reset-after-the-syntax-error', p.get_module('bad')._analysing is False, path=path)
            # declarations through names two modules import from each other
            ctx = Ev.EvalCtx(p)
            q = p.get_module('mc')._attrs.get('q')
            try:
                r = ctx.declarations(q, [])
                out = [type(x).__name__ for x in r]
            except BaseException as e:
                out = 'raised %s' % type(e).__name__
            prove('imported-name-cycle-ends', isinstance(out, list) and 1 <= len(out) <= 3,
                  clause='declarations() of a name two modules import from each other terminates with the names it went through [%r]' % (out,), path=path)
        finally:
            shutil.rmtree(d, ignore_errors=True)
    core.explore(lambda: None, lambda p, out: go(p))


SUPER_REPLAY = '''import sys; sys.path.insert(0, %(repo)r)
from supp.assistant import assist
from supp.project import Project
src = "class B:\\n    def m(self): pass\\nclass A(B):\\n    def m(self):\\n        super().\\n"
try:
    assist(Project(['/nonexistent']), src, (5, 16), 'f.py')
except SyntaxError:
    pass
except Exception as e:
    print('REPRODUCED: completion after `super().` raises %%s: %%s' %% (type(e).__name__, e)); sys.exit(1)
print('not reproduced')
'''


@harness(['C08'], 'supp.name.RuntimeName.call / _attrs')
def runtime_name_total(run):
    """call(): instantiating a runtime class is an opaque call that may raise ANY Exception: the result is then None, nothing escapes,
    and the outcome is memoised; non-classes give None; _attrs never raises (vars() or dir())"""
    import supp.name as Nm
    run.concretise = lambda model, ob: {'input': 'completion after `super().` inside a method', 'script': SUPER_REPLAY % {'repo': core.REPO}}

    def go(path):
        def mk(exc):
            class K(object):
                def __init__(self):
                    if exc:
                        raise exc('constructor refuses to run without arguments')
            return K
        for label, val in [('plain-class', mk(None)), ('TypeError', mk(TypeError)), ('RuntimeError', mk(RuntimeError)),
                           ('ValueError', mk(ValueError)), ('OSError', mk(OSError)), ('KeyError', mk(KeyError)), ('super', super),
                           ('function', len), ('instance', 5), ('None', None)]:
            run.case = label
            n = Nm.RuntimeName('n', val, True)
            try:
                r1 = n.call(None)
                r2 = n.call(None)
                exc = None
            except Exception as e:
                r1 = r2 = None
                exc = e
            prove('call-raises-nothing', exc is None, clause='RuntimeName.call contains the constructor\'s exception [%s: %s]' % (type(exc).__name__, exc), path=path)
            if exc is None:
                want_inst = label == 'plain-class'
                prove('instance-or-none-memoised', (isinstance(r1, Nm.RuntimeName) if want_inst else r1 is None) and r2 is r1, path=path)
            try:
                a = n._attrs
                ok = isinstance(a, dict) and all(isinstance(v, Nm.RuntimeName) for v in a.values())
            except Exception as e:
                ok = False
            prove('attrs-is-a-table-of-runtime-names', ok, path=path)
        run.case = None
    core.explore(lambda: None, lambda p, out: go(p))


BASES_REPLAY = '''import sys; sys.path.insert(0, %(repo)r)
from supp.assistant import assist
from supp.project import Project
bad = []
for src, pos in (("import os\\nclass A(os): pass\\nA().x\\n", (3, 5)), ("class P: pass\\nclass A(P()): pass\\nA().x\\n", (3, 5)),
                 ("class X: pass\\nclass Y: pass\\nB = X\\nif 1:\\n    B = Y\\nclass A(B): pass\\nA().x\\n", (7, 5)), ("class A(len): pass\\nA.x\\n", (2, 3))):
    try:
        assist(Project(['/nonexistent']), src, pos, 'f.py')
    except SyntaxError:
        pass
    except Exception as e:
        bad.append((src, '%%s: %%s' %% (type(e).__name__, e)))
if bad:
    print('REPRODUCED: attribute completion on a class whose base is not a class: %%r' %% (bad,)); sys.exit(1)
print('not reproduced')
'''


@harness(['C08', 'C06'], 'supp.name.ClassObject.{bases,_attrs} / InstanceValue._attrs[any value as base]')
def bases_total(run):
    """a base expression may evaluate to ANY value class of supp (a class, a runtime class, a function, a module, an instance, a value
    merged from several branches, nothing): computing the class table and the instance table raises nothing"""
    import supp.name as Nm
    import supp.module as Md
    import supp.scope as S
    import supp.util as U
    import sys
    run.concretise = lambda model, ob: {'input': 'class A(os), class A(P()), a base bound in two branches', 'script': BASES_REPLAY % {'repo': core.REPO}}

    def go(path):
        top = S.SourceScope(U.Source('class K: pass\nclass A(base): pass\n', 'f.py'))
        top.parent = None
        knode, anode = top.source.tree.body
        kscope = S.ClassScope(top, knode, top)

        class Ctx(object):
            project = None

            def __init__(self, val):
                self.val = val

            def evaluate(self, node):
                return self.val
        kobj = Nm.ClassObject(Ctx(None), kscope)
        import supp.project as _Pj
        sm = loader.bare_instance(Md.SourceModule, project=_Pj.Project(['/nonexistent']))
        sm.name, sm.filename, sm.declared_at = 'm', '/x/m.py', (1, 0)
        sm.__dict__['_scope'] = top
        values = [('source class', kobj), ('runtime class', Nm.RuntimeName('dict', dict, True)), ('runtime function', Nm.RuntimeName('len', len, True)),
                  ('runtime instance', Nm.RuntimeName('x', 5)), ('source instance', Nm.InstanceValue(Ctx(None), kobj)),
                  ('runtime module', Md.ImportedModule(sys)), ('source module', sm), ('merged value', Nm.CompositeValue([kobj])),
                  ('function object', Nm.FuncObject(S.FuncScope(top, ast.parse('def f(): pass').body[0], top))),
                  ('attr object', Nm.AttrObject({})), ('unknown', None)]
        for label, val in values:
            run.case = 'base is a %s' % label
            ascope = S.ClassScope(top, anode, top)
            ctx = Ctx(val)
            a = Nm.ClassObject(ctx, ascope)
            for what, fn in (('class table', lambda: a._attrs), ('instance table', lambda: Nm.InstanceValue(ctx, a)._attrs)):
                try:
                    r = fn()
                    exc = None
                except Exception as e:
                    r, exc = None, e
                prove('%s-raises-nothing' % what.replace(' ', '-'), exc is None and isinstance(r, dict),
                      clause='the %s of a class whose base evaluates to a %s is computed without raising [%s: %s]' % (what, label, type(exc).__name__, exc), path=path)
        run.case = None
    core.explore(lambda: None, lambda p, out: go(p))


EVAL_REPLAY = '''import sys; sys.path.insert(0, %(repo)r)
from supp.assistant import assist
from supp.project import Project
bad = []
for src, pos in (("class A: pass\\nclass B: pass\\nx = A()\\nif 1:\\n    x = B()\\nx().attr\\n", (6, 8)), ("class A: pass\\nA()().attr\\n", (2, 10)),
                 ("import os\\nos().attr\\n", (2, 9)), ("x = 5\\nx().real\\n", (2, 8)), ("def f(): return 1\\nf.a.b\\n", (2, 5))):
    try:
        assist(Project(['/nonexistent']), src, pos, 'f.py')
    except SyntaxError:
        pass
    except Exception as e:
        bad.append((src, '%%s: %%s' %% (type(e).__name__, e)))
if bad:
    print('REPRODUCED: %%r' %% (bad,)); sys.exit(1)
print('not reproduced')
'''


def value_zoo():
    """one instance of every value class the evaluator can produce"""
    import supp.name as Nm
    import supp.module as Md
    import supp.scope as S
    import supp.util as U
    import sys
    top = S.SourceScope(U.Source('class K: pass\n', 'f.py'))
    top.parent = None
    kscope = S.ClassScope(top, top.source.tree.body[0], top)

    class Ctx(object):
        project = None

        def evaluate(self, node):
            return None
    kobj = Nm.ClassObject(Ctx(), kscope)
    import supp.project as _Pj
    sm = loader.bare_instance(Md.SourceModule, project=_Pj.Project(['/nonexistent']))
    sm.name, sm.filename, sm.declared_at = 'm', '/x/m.py', (1, 0)
    sm.__dict__['_scope'] = top
    attr = ast.parse('self.a = 1').body[0].targets[0]
    mv = Nm.MultiValue(Nm.AssignedAttribute(top, attr, None, (1, 5)))
    return [('ClassObject', kobj), ('RuntimeName(class)', Nm.RuntimeName('dict', dict, True)), ('RuntimeName(function)', Nm.RuntimeName('len', len, True)),
            ('RuntimeName(value)', Nm.RuntimeName('x', 5)), ('InstanceValue', Nm.InstanceValue(Ctx(), kobj)),
            ('ImportedModule', Md.ImportedModule(sys)), ('SourceModule', sm), ('CompositeValue', Nm.CompositeValue([kobj])),
            ('CompositeValue(empty)', Nm.CompositeValue([])), ('MultiValue', mv),
            ('FuncObject', Nm.FuncObject(S.FuncScope(top, ast.parse('def f(): pass').body[0], top))),
            ('AttrObject', Nm.AttrObject({})), ('AdditionalNameWrapper', Nm.AdditionalNameWrapper(sm, {})), ('None', None)]


@harness(['C08', 'C06'], 'supp.evaluator.EvalCtx._evaluate / declarations[dispatch]')
def evaluate_total(run):
    """every branch of the dispatch, with the sub-evaluations (modular calls of evaluate / get_attr / call / resolve) returning a value of ANY
    class the evaluator can produce, or None: raises nothing; a call of something that is not callable, an attribute of something unknown
    and an unknown node type all give None"""
    import supp.evaluator as E
    import supp.name as Nm
    run.concretise = lambda model, ob: {'input': 'calls of values that are not callable', 'script': EVAL_REPLAY % {'repo': core.REPO}}

    def go(path):
        zoo = value_zoo()
        nodes = [('Call', ast.parse('f(x)', mode='eval').body), ('Attribute', ast.parse('f.a', mode='eval').body),
                 ('Constant', ast.parse('1', mode='eval').body), ('BinOp(unknown)', ast.parse('a + b', mode='eval').body)]
        for nlabel, node in nodes:
            for vlabel, val in zoo:
                run.case = '%s with sub-value %s' % (nlabel, vlabel)
                ctx = E.EvalCtx(None)
                ctx.evaluate = lambda n, val=val: val if isinstance(n, ast.AST) else n
                for what, fn in (('_evaluate', lambda: ctx._evaluate(node)), ('declarations', lambda: ctx.declarations(node, []))):
                    try:
                        r = fn()
                        exc = None
                    except Exception as e:
                        r, exc = None, e
                    prove('%s-raises-nothing' % what, exc is None, clause='%s(%s) raises nothing when the sub-expression evaluates to a %s [%s: %s]'
                          % (what, nlabel, vlabel, type(exc).__name__, exc), path=path)
        # values as nodes: evaluating a value object itself
        for vlabel, val in zoo:
            if val is None:
                continue
            run.case = 'value %s as node' % vlabel
            ctx = E.EvalCtx(None)
            try:
                ctx._evaluate(val)
                ctx.declarations(val, [])
                exc = None
            except Exception as e:
                exc = e
            prove('value-node-raises-nothing', exc is None, clause='[%s: %s]' % (type(exc).__name__, exc), path=path)
        run.case = None
    core.explore(lambda: None, lambda p, out: go(p))
