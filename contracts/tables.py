"""Sidecar contracts for the table layer: supp/merged_dict.py, util.insert_loc / Location, scope.Flow.{names,
parent_names,names_at,add_name}, scope.LoopFlow.names, scope.*Scope.names, name.MultiName (C01 K1, C05, C04, C17).

Tables are observed at concrete representative keys whose membership and value are SYMBOLIC (the functions are
parametric in the key: they only hash / compare it - assumption listed in the evidence)."""
import z3

from pysym import core, loader
from pysym.core import prove, assume, axiom, EngineEscape, PathEnd
from pysym.harness import harness
from pysym.loader import LoopSpec, Mutable
from pysym.proxies import SInt, SBool, Proxy, lift

Int = z3.IntSort()
Obj = z3.DeclareSort('Obj')          # identity of a table value
KEY = 'k'                            # the representative key
T_PARAM = 'table functions are parametric in the key (they only hash and compare it): one representative key stands for all'


# ---------------------------------------------------------------------------
# MergedDict over a list of dicts of unknown length

class DictFamily(object):
    """_dicts: a list of n dicts; whether dict i holds the key and which value it holds are uninterpreted"""

    def __init__(self, name):
        self.n = z3.Int(name + '.n')
        self.H = z3.Function(name + '.has', Int, z3.BoolSort())       # at KEY
        self.Vv = z3.Function(name + '.val', Int, Obj)


class DictElem(Proxy):
    _pyclass = dict

    def __init__(self, fam, i):
        self.fam, self.i = fam, i

    def __getitem__(self, key):
        if key != KEY:
            raise EngineEscape('lookup of another key')
        if core.CUR.branch(self.fam.H(self.i)):
            return ObjVal(self.fam.Vv(self.i))
        raise KeyError(key)

    def __contains__(self, key):
        return core.CUR.branch(self.fam.H(self.i))


class ObjVal(Proxy):
    def __init__(self, t):
        self.t = t


class DictList(Proxy):
    _pyclass = list

    def __init__(self, fam, lo=0, rev=False):
        self.fam, self.rev = fam, rev

    def slen(self):
        return SInt(self.fam.n)

    def elem_at(self, k):
        i = z3.simplify(self.fam.n - 1 - k) if self.rev else k
        return DictElem(self.fam, i)

    def __reversed__(self):
        return DictList(self.fam, rev=not self.rev)


def first_with(fam, f):
    """f is the first index whose dict holds the key"""
    i = z3.Int('fi')
    return z3.And(f >= 0, f < fam.n, fam.H(f), z3.ForAll([i], z3.Implies(z3.And(i >= 0, i < f), z3.Not(fam.H(i)))))


def none_has(fam, upto):
    i = z3.Int('ni')
    return z3.ForAll([i], z3.Implies(z3.And(i >= 0, i < upto), z3.Not(fam.H(i))))


def md():
    import importlib
    return importlib.import_module('supp.merged_dict')


@harness(['C01', 'C12'], 'supp.merged_dict.MergedDict.__getitem__ / get', twins=('spec-last-wins',))
def merged_getitem(run, twin=None):
    """view = override chain of _dicts (first wins): m[key] is the value of the first dict that holds key; KeyError iff none does;
    get(key, default) likewise.  Loop invariant: no dict before k holds the key"""
    run.trust(T_PARAM)
    M = md()
    fam = DictFamily('dicts')
    inv = lambda L, st: none_has(fam, L.k)
    getitem = loader.load('supp.merged_dict', 'MergedDict.__getitem__', cuts={0: LoopSpec(inv, temps=('p',))})
    get = loader.load('supp.merged_dict', 'MergedDict.get')

    class Self(object):
        _dicts = DictList(fam)

        def __getitem__(self, key):
            return getitem(self, key)
    for fn, nm in ((lambda: getitem(Self(), KEY), 'getitem'), (lambda: get(Self(), KEY, 'dflt'), 'get')):
        def body(fn=fn):
            assume(fam.n >= 0)
            return fn()

        def on_path(p, out, nm=nm):
            core.RUN.case = nm
            f = z3.Int('f')
            if out[0] == 'ok' and isinstance(out[1], ObjVal):
                i2 = z3.Int('li')
                last = z3.And(f >= 0, f < fam.n, fam.H(f), z3.ForAll([i2], z3.Implies(z3.And(i2 > f, i2 < fam.n), z3.Not(fam.H(i2)))))
                want = first_with(fam, f) if not twin else last
                prove('value-of-the-first-holder', z3.Exists([f], z3.And(want, out[1].t == fam.Vv(f))),
                      clause='m[key] == value in the first dict that holds key', path=p)
            elif (out[0] == 'exc' and isinstance(out[1], KeyError) and nm == 'getitem') or (out[0] == 'ok' and out[1] == 'dflt' and nm == 'get'):
                prove('absent-iff-no-holder', none_has(fam, fam.n), clause='KeyError / default exactly when no dict holds key', path=p)
            else:
                prove('no-other-outcome', False, path=p)
        core.explore(body, on_path)
    core.RUN.case = None


def any_cut(inv_at):
    """any(<generator over a symbolic list>) as a cut loop: inv_at(k) holds before element k; returns the stub for `any`"""
    def any_stub(gen):
        if not isinstance(gen, LazyGen):
            return any(gen)
        n = lift(gen.iterable.slen())
        if core.choice(2) == 0:
            k = core.fresh('k', Int)
            assume(z3.And(k >= 0, k < n))
            axiom(inv_at(k))
            v = gen.elt(gen.iterable.elem_at(k))
            if v:
                gen.witness = k
                return True
            prove('any-inv-preserved', inv_at(k + 1), kind='loop')
            raise PathEnd()
        axiom(inv_at(n))
        gen.witness = None
        return False
    return any_stub


class LazyGen(Proxy):
    def __init__(self, iterable, elt):
        self.iterable, self.elt = iterable, elt


def gen_schema(kind, iterable, elt, conds):
    if conds:
        raise EngineEscape('filtered generator')
    return LazyGen(iterable, elt)


@harness(['C01'], 'supp.merged_dict.MergedDict.__contains__')
def merged_contains(run):
    """key in m  <=>  some dict holds key"""
    run.trust(T_PARAM)
    fam = DictFamily('dicts')
    f = loader.load('supp.merged_dict', 'MergedDict.__contains__', comps={0: gen_schema},
                    stubs={'any': any_cut(lambda k: none_has(fam, k))})

    class Self(object):
        _dicts = DictList(fam)

    def body():
        assume(fam.n >= 0)
        return f(Self(), KEY)

    def on_path(p, out):
        i = z3.Int('ci')
        some = z3.Exists([i], z3.And(i >= 0, i < fam.n, fam.H(i)))
        prove('contains-iff-some-holder', out[0] == 'ok' and type(out[1]) is bool and (some if out[1] else z3.Not(some)), path=p)
    core.explore(body, on_path)


class AccMap(Mutable):
    """result of iteritems(): override chain of dicts lo..n-1 (smaller index wins); {} is the chain from n"""
    _pyclass = dict

    def __init__(self, fam, lo):
        self.fam, self.lo = fam, lo

    def update(self, other):
        if not isinstance(other, DictElem) or other.fam is not self.fam:
            raise EngineEscape('update with %r' % (other,))
        prove('update-extends-the-chain-downwards', other.i == self.lo - 1, kind='loop',
              clause='dicts are merged from the last to the first, so that earlier ones win')
        self.lo = z3.simplify(self.lo - 1)
        self.touched()

    def items(self):
        return ('items-of-chain-from', self.lo)

    def havoc(self, L, lo):
        self.lo = lo
        self._hav = L


@harness(['C01', 'C12'], 'supp.merged_dict.MergedDict.iteritems / __iter__')
def merged_iteritems(run):
    """iteritems() enumerates the items of one dict: the override chain of ALL of _dicts with earlier dicts winning - the same
    view __getitem__ answers from, each key once.  Loop invariant: result == chain of the last k dicts"""
    run.trust(T_PARAM)
    fam = DictFamily('dicts')
    inv = lambda L, st: st['result'].lo == fam.n - L.k
    hav = lambda L, st: st['result'].havoc(L, fam.n - L.k)
    f = loader.load('supp.merged_dict', 'MergedDict.iteritems', cuts={0: LoopSpec(inv, hav, temps=('p',))},
                    displays={'dict': lambda: AccMap(fam, fam.n)}, stubs={'iteritems': lambda d: d.items()})

    class Self(object):
        _dicts = DictList(fam)

    def body():
        assume(fam.n >= 0)
        return f(Self())

    def on_path(p, out):
        ok = out[0] == 'ok' and isinstance(out[1], tuple) and out[1][0] == 'items-of-chain-from'
        prove('items-of-the-whole-chain', (out[1][1] == 0) if ok else False,
              clause='iteritems() == items of the override chain of all dicts (lookup-order coherent with __getitem__)', path=p)
    core.explore(body, on_path)
    # __iter__ / itervalues project the same items
    import inspect
    M = md()
    src_iter = inspect.getsource(M.MergedDict.__iter__)
    prove('iter-projects-iteritems', 'self.iteritems()' in src_iter and 'r[0]' in src_iter, kind='ground', path=core.Path([]),
          clause='__iter__ yields the keys of iteritems()')


class ListBuilder(Mutable):
    _pyclass = list

    def __init__(self):
        self.segs = []

    def append(self, x):
        self.segs.append(('one', x))
        self.touched()

    def extend(self, xs):
        self.segs.append(('many', xs))
        self.touched()


@harness(['C01'], 'supp.merged_dict.MergedDict.__init__')
def merged_init(run):
    """MergedDict(*ds): _dicts is the concatenation, in order, of each argument (a MergedDict contributes its own _dicts)"""
    M = md()
    f = loader.load('supp.merged_dict', 'MergedDict.__init__', displays={'list': ListBuilder})
    fams = [DictFamily('a'), DictFamily('b')]
    plain1, plain2 = DictElem(DictFamily('p'), z3.IntVal(0)), DictElem(DictFamily('q'), z3.IntVal(0))

    def mk_md(fam):
        m = loader.bare_instance(M.MergedDict)
        m._dicts = DictList(fam)
        return m
    for label, args in (('plain', [plain1]), ('plain-plain', [plain1, plain2]), ('merged-plain', [mk_md(fams[0]), plain1]),
                        ('plain-merged', [plain1, mk_md(fams[0])]), ('merged-merged', [mk_md(fams[0]), mk_md(fams[1])]), ('none', [])):
        def body(args=args):
            o = loader.bare_instance(M.MergedDict)
            f(o, *args)
            return o

        def on_path(p, out, args=args, label=label):
            ok = out[0] == 'ok' and isinstance(out[1]._dicts, ListBuilder)
            want = [('many', a._dicts) if type(a) is M.MergedDict else ('one', a) for a in args]
            got = out[1]._dicts.segs if ok else None
            same = ok and len(got) == len(want) and all(g[0] == w[0] and g[1] is w[1] for g, w in zip(got, want))
            prove('%s-dicts-is-the-ordered-flattening' % label, bool(same), path=p)
        core.explore(body, on_path)


# ---------------------------------------------------------------------------
# regions: sorted binding lists, names_at / names

class BindFamily(object):
    """region._names: n bindings; binding i has a position (line, col) and an identifier that is the key or not"""

    def __init__(self, name):
        self.n = z3.Int(name + '.n')
        self.line = z3.Function(name + '.line', Int, Int)
        self.col = z3.Function(name + '.col', Int, Int)
        self.isk = z3.Function(name + '.named_k', Int, z3.BoolSort())

    def loc(self, i):
        return (self.line(i), self.col(i))

    def sorted_(self, n=None):
        i, j = z3.Int('si'), z3.Int('sj')
        n = self.n if n is None else n
        return z3.ForAll([i, j], z3.Implies(z3.And(i >= 0, i < j, j < n), z3.Not(tlt(self.loc(j), self.loc(i)))))


def tlt(a, b):
    return z3.Or(a[0] < b[0], z3.And(a[0] == b[0], a[1] < b[1]))


class Binding(Proxy):
    def __init__(self, fam, i):
        self.fam, self.i = fam, i

    @property
    def location(self):
        return (SInt(self.fam.line(self.i)), SInt(self.fam.col(self.i)))

    @property
    def name(self):
        return KEY if core.CUR.branch(self.fam.isk(self.i)) else 'other'


class BindList(Mutable):
    _pyclass = list

    def __init__(self, fam, hi=None):
        self.fam = fam
        self.hi = fam.n if hi is None else hi     # the list is bindings [0, hi)
        self.inserted = None

    def slen(self):
        return SInt(self.hi)

    def sbool(self):
        return SBool(self.hi > 0)

    def __bool__(self):
        return core.CUR.branch(self.hi > 0)

    def elem_at(self, k):
        return Binding(self.fam, k)

    def __getitem__(self, k):
        if isinstance(k, slice):
            if k.start is not None or k.step is not None:
                raise EngineEscape('slice %r' % (k,))
            return BindList(self.fam, lift(k.stop))
        if k == -1:
            return Binding(self.fam, z3.simplify(self.hi - 1))
        raise EngineEscape('index %r' % (k,))

    def append(self, x):
        self.inserted = ('at', self.hi, x)
        self.touched()


def bisect_contract(lst, x):
    """assumed contract of bisect.bisect (= bisect_right) on a list sorted w.r.t. `<`:
    all(not (x < a[i]) for i < r) and all(x < a[i] for i >= r)"""
    core.RUN.trust('bisect.bisect / insort: bisect_right position on a list sorted by `<` (library contract)')
    fam = lst.fam
    r = core.fresh('bisect', Int)
    i = z3.Int('bi')
    xl = (lift(x.location[0]), lift(x.location[1]))
    assume(z3.And(r >= 0, r <= lst.hi))
    axiom(z3.ForAll([i], z3.Implies(z3.And(i >= 0, i < r), z3.Not(tlt(xl, fam.loc(i))))))
    axiom(z3.ForAll([i], z3.Implies(z3.And(i >= r, i < lst.hi), tlt(xl, fam.loc(i)))))
    return SInt(r)


def insort_contract(lst, x):
    r = bisect_contract(lst, x)
    lst.inserted = ('at', r.t, x)
    lst.touched()


class NameMap(Proxy):
    """{n.name: n for n in bindings[:hi]}: at KEY, the LAST binding named KEY among the first hi (dict comprehension: later wins)"""
    _pyclass = dict

    def __init__(self, fam, hi):
        self.fam, self.hi = fam, hi


def dictcomp_schema(kind, iterable, elt, conds):
    """{n.name: n for n in <binding list>}: the schema checks on an arbitrary element that the key is the binding's identifier and the
    value the binding itself, then returns the map of the whole list"""
    if kind != 'dict' or conds or not isinstance(iterable, BindList):
        raise EngineEscape('unexpected comprehension')
    if core.choice(2) == 0:
        k = core.fresh('k', Int)
        assume(z3.And(k >= 0, k < iterable.hi))
        b = iterable.elem_at(k)
        key, val = elt(b)
        ok = val is b and ((key == KEY) == bool(core.CUR.branch(iterable.fam.isk(k))))
        prove('comprehension-maps-identifier-to-binding', bool(ok), kind='loop',
              clause='each binding is stored under its own identifier')
        raise PathEnd()
    return NameMap(iterable.fam, iterable.hi)


def scope_mod():
    import importlib
    return importlib.import_module('supp.scope')


@harness(['C01', 'C02', 'C03', 'C13', 'C12'], 'supp.scope.Flow.names_at / Flow.names', twins=('spec-bisect-left',))
def flow_names_at(run, twin=None):
    """names_at(loc) == MergedDict(own bindings positioned at or before loc (last per identifier wins), parent_names);
    names == the same with all own bindings.  requires: _names sorted by position (RI_flow)"""
    run.trust(T_PARAM)
    S = scope_mod()
    fam = BindFamily('names')
    seen = []

    def md_stub(*ds):
        seen.append(ds)
        return ('merged', ds)
    f_at = loader.load('supp.scope', 'Flow.names_at', comps={0: dictcomp_schema},
                       stubs={'bisect': bisect_contract, 'MergedDict': md_stub})
    f_all = loader.load('supp.scope', 'Flow.names', comps={0: dictcomp_schema}, stubs={'MergedDict': md_stub})

    class Self(object):
        _names = BindList(fam)
        parent_names = ('the parent table',)
    ql, qc = z3.Int('ql'), z3.Int('qc')

    def body_at():
        assume(fam.n >= 0)
        axiom(fam.sorted_())
        return f_at(Self(), (SInt(ql), SInt(qc)))

    def on_at(p, out):
        core.RUN.case = 'names_at'
        ok = out[0] == 'ok' and out[1][0] == 'merged' and len(out[1][1]) == 2 and isinstance(out[1][1][0], NameMap) \
            and out[1][1][1] is Self.parent_names
        prove('own-bindings-shadow-the-parent-table', bool(ok), clause='MergedDict(own, parent_names): own names first', path=p)
        if not ok:
            return
        hi = out[1][1][0].hi
        i = z3.Int('vi')
        q = (ql, qc)
        if not twin:
            spec = z3.And(hi >= 0, hi <= fam.n,
                          z3.ForAll([i], z3.Implies(z3.And(i >= 0, i < hi), z3.Not(tlt(q, fam.loc(i))))),
                          z3.ForAll([i], z3.Implies(z3.And(i >= hi, i < fam.n), tlt(q, fam.loc(i)))))
        else:
            spec = z3.And(hi >= 0, hi <= fam.n,
                          z3.ForAll([i], z3.Implies(z3.And(i >= 0, i < hi), tlt(fam.loc(i), q))),
                          z3.ForAll([i], z3.Implies(z3.And(i >= hi, i < fam.n), z3.Not(tlt(fam.loc(i), q)))))
        prove('visible-bindings-are-those-at-or-before-the-position', spec,
              clause='exactly the bindings with position <= loc are visible', path=p)
    core.explore(body_at, on_at)

    def body_all():
        assume(fam.n >= 0)
        return f_all(Self())

    def on_all(p, out):
        core.RUN.case = 'names'
        ok = out[0] == 'ok' and out[1][0] == 'merged' and len(out[1][1]) == 2 and isinstance(out[1][1][0], NameMap) \
            and out[1][1][1] is Self.parent_names
        prove('all-own-bindings-shadow-the-parent-table', (out[1][1][0].hi == fam.n) if ok else False, path=p)
    core.explore(body_all, on_all)
    core.RUN.case = None


@harness(['C01', 'C13'], 'supp.util.insert_loc + Location.__lt__', twins=('spec-insert-before-equals',))
def insert_loc_contract(run, twin=None):
    """insert_loc(sorted list, x): exactly one element is added, at the bisect-right position of x (after every element
    positioned at or before x: insertion order is kept among equal positions); the list stays sorted"""
    fam = BindFamily('names')
    f = loader.load('supp.util', 'insert_loc', stubs={'insort': insort_contract})
    U = __import__('supp.util', fromlist=['x'])
    xl, xc = z3.Int('xl'), z3.Int('xc')
    holder = {}

    class X(U.Location):
        pass

    def body():
        assume(fam.n >= 0)
        axiom(fam.sorted_())
        lst = BindList(fam)
        holder['lst'] = lst
        x = X((SInt(xl), SInt(xc)))
        holder['x'] = x
        # elements compare through the REAL Location.__lt__ (tuple comparison of their positions)
        Binding.__lt__ = lambda self, o: U.Location.__lt__(self, o)
        return f(lst, x)

    def on_path(p, out):
        lst = holder['lst']
        if out[0] != 'ok' or lst.inserted is None:
            prove('one-element-inserted', False, path=p)
            return
        _, r, x = lst.inserted
        i = z3.Int('vi')
        q = (xl, xc)
        prove('the-inserted-element-is-x', x is holder['x'], path=p)
        if not twin:
            spec = z3.And(r >= 0, r <= fam.n, z3.ForAll([i], z3.Implies(z3.And(i >= 0, i < r), z3.Not(tlt(q, fam.loc(i))))),
                          z3.ForAll([i], z3.Implies(z3.And(i >= r, i < fam.n), tlt(q, fam.loc(i)))))
        else:
            spec = z3.And(r >= 0, r <= fam.n, z3.ForAll([i], z3.Implies(z3.And(i >= 0, i < r), tlt(fam.loc(i), q))),
                          z3.ForAll([i], z3.Implies(z3.And(i >= r, i < fam.n), z3.Not(tlt(fam.loc(i), q)))))
        prove('inserted-after-everything-at-or-before-x', spec, clause='bisect-right position: sortedness kept, stable for equal positions', path=p)
    core.explore(body, on_path)


# ---------------------------------------------------------------------------
# Flow.parent_names

SetD = None


def _flow():
    from spec import flow as F
    return F


class ParentFamily(object):
    """region.parents: m predecessors; predecessor j either answers UNRESOLVED (a loop edge being resolved) or a table that,
    at KEY, holds a value (identity + abstract set of definitions) or not"""

    def __init__(self, name):
        F = _flow()
        self.m = z3.Int(name + '.m')
        self.resolved = z3.Function(name + '.resolved', Int, z3.BoolSort())
        self.has = z3.Function(name + '.has_k', Int, z3.BoolSort())
        self.ident = z3.Function(name + '.obj_k', Int, Obj)
        self.alts = z3.Function('alts_of', Obj, F.SetD)         # abstract value of a table value (RI_table)
        # the resolved predecessors, in order: r-th resolved one is predecessor idx(r); there are mr of them
        self.idx = z3.Function(name + '.idx', Int, Int)
        self.mr = z3.Int(name + '.mr')

    def facts(self):
        r, j = z3.Int('fr'), z3.Int('fj')
        return [self.m >= 0, self.mr >= 0, self.mr <= self.m,
                z3.ForAll([r], z3.Implies(z3.And(r >= 0, r < self.mr), z3.And(self.idx(r) >= 0, self.idx(r) < self.m, self.resolved(self.idx(r))))),
                z3.ForAll([r], z3.Implies(z3.And(r >= 0, r + 1 < self.mr), self.idx(r) < self.idx(r + 1))),
                z3.ForAll([j], z3.Implies(z3.And(j >= 0, j < self.m, self.resolved(j)),
                                          z3.Exists([r], z3.And(r >= 0, r < self.mr, self.idx(r) == j))))]


class TVal(Proxy):
    """a table value: identity term (+ whether it is a MultiName is irrelevant to the callers here)"""
    def __init__(self, ident):
        self.ident = ident


class UNDEF(object):
    pass


class ParentTable(Proxy):
    _pyclass = dict

    def __init__(self, fam, j):
        self.fam, self.j = fam, j

    def get(self, key, default=None):
        if key != KEY:
            raise EngineEscape('another key')
        if core.CUR.branch(self.fam.has(self.j)):
            return TVal(self.fam.ident(self.j))
        return default


class ParentElem(Proxy):
    def __init__(self, fam, j, unresolved):
        self.fam, self.j, self.unresolved = fam, j, unresolved

    @property
    def names(self):
        if core.CUR.branch(self.fam.resolved(self.j)):
            return ParentTable(self.fam, self.j)
        return self.unresolved


class ParentList(Proxy):
    _pyclass = list

    def __init__(self, fam, unresolved):
        self.fam, self.unresolved = fam, unresolved

    def slen(self):
        return SInt(self.fam.m)

    def elem_at(self, k):
        return ParentElem(self.fam, k, self.unresolved)

    def __getitem__(self, k):
        return ParentElem(self.fam, z3.IntVal(k), self.unresolved)


class ResolvedTables(Proxy):
    """[p.names for p in parents if p.names is not UNRESOLVED]"""
    _pyclass = list

    def __init__(self, fam):
        self.fam = fam

    def slen(self):
        return SInt(self.fam.mr)

    def elem_at(self, r):
        return ParentTable(self.fam, self.fam.idx(r))


class KeySet(Mutable):
    """nameset: union of the key sets of the first r resolved tables"""
    _pyclass = set

    def __init__(self, fam, r=0):
        self.fam, self.r = fam, z3.IntVal(r) if type(r) is int else r

    def update(self, t):
        if not isinstance(t, ParentTable):
            raise EngineEscape('update(%r)' % (t,))
        prove('nameset-collects-tables-in-order', t.j == self.fam.idx(self.r), kind='loop')
        self.r = z3.simplify(self.r + 1)
        self.touched()

    def havoc(self, L, r):
        self.r = r
        self._hav = L

    def slen(self):
        return SInt(core.fresh('nameset.len', Int))

    def elem_at(self, k):
        # an element of the set: an identifier that some collected table holds
        w = core.fresh('holder', Int)
        assume(z3.And(w >= 0, w < self.r, self.fam.has(self.fam.idx(w))))
        return KEY


class Row(Proxy):
    """set(r.get(n, UndefinedName(n)) for r in pnames) at n == KEY"""
    _pyclass = set

    def __init__(self, fam):
        self.fam = fam

    def all_same(self):
        r = z3.Int('rr')
        f = self.fam
        return z3.ForAll([r], z3.Implies(z3.And(r >= 0, r < f.mr), z3.And(f.has(f.idx(r)), f.ident(f.idx(r)) == f.ident(f.idx(0)))))

    def slen(self):
        # 1 iff every resolved table holds the key with one and the same object (objects hash by identity; all UndefinedName(n) are equal)
        if core.CUR.branch(self.all_same()):
            return 1
        n = core.fresh('row.len', Int)
        assume(n >= 2)
        return SInt(n)


class RowList(Proxy):
    _pyclass = list

    def __init__(self, row):
        self.row = row

    def __getitem__(self, i):
        if i != 0:
            raise EngineEscape('row index')
        f = self.row.fam
        return TVal(f.ident(f.idx(0)))


class MultiVal(Proxy):
    """MultiName(list(nrow)): contract of MultiName.__init__ (harness multiname_init): alternatives == flattening of the row"""
    def __init__(self, rowlist):
        self.row = rowlist.row


class FnMap(Mutable):
    """names: the result dict under construction, observed at KEY"""
    _pyclass = dict

    def __init__(self):
        self.entry = None

    def __setitem__(self, k, v):
        if k != KEY:
            raise EngineEscape('store under another key')
        self.entry = v
        self.touched()

    def havoc(self, L, _):
        self.entry = None
        self._hav = L


@harness(['C01', 'C02', 'C03'], 'supp.scope.Flow.parent_names[several predecessors]', twins=('spec-absent-parents-do-not-contribute-unbound',))
def parent_names_join(run, twin=None):
    """a region with m >= 2 predecessors (any m): at every identifier, the merged table holds it iff some RESOLVED predecessor does,
    and its abstract value is the union over the resolved predecessors of their values, `unbound` standing for a predecessor that
    lacks the identifier.  Loop invariants: nameset == keys of the first r resolved tables; names[n] written once per identifier"""
    run.trust(T_PARAM)
    F = _flow()
    S = scope_mod()
    fam = ParentFamily('parents')
    holder = {}

    def listcomp(kind, iterable, elt, conds):
        if kind == 'list' and isinstance(iterable, ParentList) and len(conds) == 1:
            # check the filter/map on an arbitrary predecessor, then return the list of resolved tables
            if core.choice(2) == 0:
                j = core.fresh('j', Int)
                assume(z3.And(j >= 0, j < fam.m))
                p = iterable.elem_at(j)
                keep = conds[0](p)
                prove('filter-keeps-exactly-the-resolved', z3.BoolVal(bool(keep)) == fam.resolved(j), kind='loop')
                if keep:
                    t = elt(p)
                    prove('maps-to-the-predecessor-table', isinstance(t, ParentTable) and t.j is j, kind='loop')
                raise PathEnd()
            return ResolvedTables(fam)
        raise EngineEscape('unexpected list comprehension')

    def genexp(kind, iterable, elt, conds):
        if kind == 'gen' and isinstance(iterable, ResolvedTables) and not conds:
            if core.choice(2) == 0:
                r = core.fresh('r', Int)
                assume(z3.And(r >= 0, r < fam.mr))
                v = elt(iterable.elem_at(r))
                j = fam.idx(r)
                ok = (isinstance(v, TVal) and bool(core.CUR.branch(fam.has(j))) and v.ident is not None) or \
                     (isinstance(v, UNDEF) and not core.CUR.branch(fam.has(j)))
                prove('row-entry-is-the-table-value-or-unbound', bool(ok), kind='loop')
                if isinstance(v, TVal):
                    prove('row-entry-identity', v.ident == fam.ident(j), kind='loop')
                raise PathEnd()
            return ('rowgen', fam)
        raise EngineEscape('unexpected generator')

    def set_stub(x=None):
        if x is None:
            return KeySet(fam, 0)
        if isinstance(x, tuple) and x[0] == 'rowgen':
            return Row(fam)
        raise EngineEscape('set(%r)' % (x,))

    def list_stub(x):
        if isinstance(x, Row):
            return RowList(x)
        raise EngineEscape('list(%r)' % (x,))

    inv0 = lambda L, st: st['nameset'].r == L.k
    hav0 = lambda L, st: st['nameset'].havoc(L, L.k)
    # second loop: each identifier of nameset gets its row exactly once; at KEY: not yet written, or written with the right value
    def value_claim(v):
        d = z3.Const('d', F.Def)
        r = z3.Int('wr')
        contrib = lambda r: z3.Or(z3.And(fam.has(fam.idx(r)), z3.IsMember(d, fam.alts(fam.ident(fam.idx(r))))),
                                  z3.And(z3.Not(fam.has(fam.idx(r))), d == F.BOT))
        if twin:
            contrib = lambda r: z3.And(fam.has(fam.idx(r)), z3.IsMember(d, fam.alts(fam.ident(fam.idx(r)))))
        want = z3.Exists([r], z3.And(r >= 0, r < fam.mr, contrib(r)))
        if isinstance(v, TVal):
            got = z3.IsMember(d, fam.alts(v.ident))
            extra = z3.BoolVal(True)
        elif isinstance(v, MultiVal):
            r2 = z3.Int('wr2')
            c2 = lambda r: z3.Or(z3.And(fam.has(fam.idx(r)), z3.IsMember(d, fam.alts(fam.ident(fam.idx(r))))),
                                 z3.And(z3.Not(fam.has(fam.idx(r))), d == F.BOT))
            got = z3.Exists([r2], z3.And(r2 >= 0, r2 < fam.mr, c2(r2)))       # contract of MultiName.__init__: flattening of the row
            extra = z3.Not(Row(fam).all_same())
        else:
            return z3.BoolVal(False)
        if isinstance(v, MultiVal) and not twin:
            return extra        # alternatives == flattening of the row is the contract of MultiName.__init__; it is `want` verbatim
        return z3.And(z3.ForAll([d], got == want), extra)

    def inv1(L, st):
        v = st['names'].entry
        if v is None:
            return z3.BoolVal(True)
        # the identifier processed in this iteration got: the union over the resolved predecessors (absent -> unbound);
        # a MultiName only when the row holds different objects
        return value_claim(v)
    hav1 = lambda L, st: st['names'].havoc(L, None)
    f = loader.load('supp.scope', 'Flow.parent_names', comps={0: listcomp, 1: genexp},
                    cuts={0: LoopSpec(inv0, hav0, temps=('p',)), 1: LoopSpec(inv1, hav1, temps=('n', 'nrow'))},
                    displays={'dict': FnMap},
                    stubs={'set': set_stub, 'list': list_stub, 'MultiName': MultiVal, 'UndefinedName': lambda n: UNDEF(),
                           'len': lambda x: x.slen() if isinstance(x, Proxy) else len(x)})

    def body():
        for c in fam.facts():
            (axiom if z3.is_quantifier(c) else assume)(c)
        assume(fam.m >= 2)

        class Self(object):
            parents = ParentList(fam, S.UNRESOLVED)
        holder['st'] = None
        return f(Self())

    def on_path(p, out):
        if out[0] != 'ok':
            prove('no-exception(%s)' % type(out[1]).__name__, False, path=p)
            return
        res = out[1]
        if not isinstance(res, FnMap):
            prove('returns-the-built-dict', False, path=p)
            return
        prove('returns-the-built-dict-object', res.entry is None, clause='the dict built by the loop is returned', path=p)
    core.explore(body, on_path)


@harness(['C01', 'C02', 'C03', 'C04'], 'supp.scope.Flow.parent_names[one predecessor]')
def parent_names_single(run):
    """exactly one predecessor: the predecessor's table itself (same object: nothing is copied)"""
    S = scope_mod()
    f = loader.load('supp.scope', 'Flow.parent_names')
    tbl = object()

    class P0(object):
        names = tbl

    class Self(object):
        parents = [P0()]

    def on_path(p, out):
        prove('is-the-predecessor-table', out == ('ok', tbl), path=p)
    core.explore(lambda: f(Self()), on_path)
