"""BOUNDED stand-in for C11 on whole programs: on a corpus that contains every binding construct (in conventional and in awkward layouts), every
position supp reports for a binding - scope.all_names, lint W01 / W02, location() from every read - lies inside the text and the text there
is exactly the bound identifier (`except` for the name of an except clause); the same binding has the same position whichever entry point
reports it.  Not counted as proved: the deductive obligations cover find_id_loc and its call sites; that every other binding carries the position
of its own name token (np(name) sites) is what this samples."""
import ast

from pysym import core
from pysym.core import prove
from pysym.harness import harness

PROGRAMS = {
    'bindings': '''import os, sys as system
import os.path as osp, xml.dom.minidom
from os import sep, path as p2
from os.path import (join,
                     dirname as dn,
                     basename)
def func(arg, /, pos, *rest, kw=1, **extra):
    local = arg
    first, (second, *third) = pos
    chained = other = local
    annotated: int = 1
    for idx, (key, val) in rest:
        pass
    for [single] in rest: pass
    with open(kw) as (fh, fh2), open(kw) as handle:
        pass
    try:
        pass
    except KeyError as err:
        pass
    except (ValueError, TypeError) as err2:
        pass
    comp = [item for item in rest for sub, sub2 in item]
    if (walrus := local):
        pass
    lam = lambda q, *qs, r=1: (q, qs, r)
    def nested(a, b=2): return a
    class Inner(object): pass
    async def co(x): pass
    return locals()
class Klass(func):
    attr = 1
    def method(self, value): return value
''',
    'awkward-layout': '''if True:
    from os.path import (abspath,
        realpath as rp,
            normpath)
    import os as opsys ; import sys as opsys2
    def   spaced  (arg1,
                   arg2): return arg1
    class\tTabbed (object) : pass
    @staticmethod
    def decorated(): pass
    async   def   co2 (): pass
    def \\
        contdef(): pass
    class \\
            ContClass: pass
    x = 1; y = 2; z = x; import glob as gl, \\
        fnmatch as fm
try:
    import json as js
except ImportError as import_error: js = None
def shadow(shadow2, shadowed=lambda shadow3: shadow3): return shadow2
from os import path as path2, path as pathx
importlib = __import__('importlib')
def f(defx, classy=1): pass
def stars(a=max(0, *[1]), b=dict(x=1, **{}), * spaced, ** kwspaced): return a, b
def stars2(args=1, kw=2, *
           args2, **
           kw2): return args, kw
def stars3(first=lambda *va, **kwa: (va, kwa), *va, **kwa): return first
lam_stars = lambda x, * rest, ** more: x
def m2(v):
    match v:
        case [first, * spaced_rest]: return first, spaced_rest
        case (head,
              *
              tail_next_line): return head
        case [*	after_tab] if after_tab: return 1
''',
    'words-that-occur-twice': '''from datetime import datetime
from os.path import path
import bb, aa as bb
from os import sep, sep as os
import os.path as path2, path2
from x import (a1 as b1,
               b1 as a1)
import pkg.pkg as pkg
from pkg.sub import sub as sub, pkg as sub
def f():
    from time import time; import q as time, time
    return time
''',
    'form-feeds-and-other-separators': 'import os as first_import\n\x0c\ndef after_form_feed(arg_ff): pass\n\x0c\n\x0c\nclass AfterTwo(object): pass\n'
                                       's_ = "a\x0bb\x1cc\x85d\u2028e"\ndef after_string(arg_s): return s_\nimport sys as last_import\nafter_all = 1\n',
    # ASCII-only lines next to lines that are not (whose columns are converted from bytes to characters): the lines of C11's domain stay as they are
    'ascii-lines-next-to-wide-ones': 'label = 1; total = 2; result_value = 3\ns_wide = "\u00e9\u00e9\u00e9 \u20ac \U0001f600"\nimport os.path; import json as js\n'
                                     '# \u00fcn\u00efc\u00f6d\u00e9 comment, long enough to reach past the columns of the line above and of the line below\n'
                                     'def after_wide(arg_w, other_w): return arg_w\nclass AfterWide(object): attr_w = 1; more_w = 2\nt_wide = "\u65e5\u672c"\nlast_one = 1; very_last = 2\n',
    # the name of a class also stands in its own decorators
    'names-in-their-own-decorators': '''def register(*a, **k):
    return lambda c: c
class Plain(object): pass
class Widget(object): pass
@register(Widget)
class Widget(Widget):
    pass
@register('x', Plain, 'Simple', Simple=1)
@register(
    Plain)
class Simple(Plain): pass
@register(handler=None)
def handler(handler=1): return handler
''',
    'same-line-reads': '''ys = [1, 2]
z = [y for y in ys]
w = [(a, b) for a in ys for b in ys]
def g(k): return [k for k in [k]]
t = (u := 5) + u
k2 = 3
while k2: k2 = k2 - 1
v3 = 0
for i3 in ys: v3 = v3 + i3
if v3: c4 = 1
else: c4 = 2
print(c4); c4 = 3; print(c4)
def h(n5):
    while n5 > 0: n5 -= 1; m5 = n5
    return m5 if n5 else (m5 := 0)
''',
    'pep695-and-match': '''def generic[T](arg: T) -> T: return arg
class Box[T]: pass
def m(v):
    match v:
        case [head, *tail]: return head, tail
        case {'k': value, **others}: return value, others
        case {"#": 1, '# tail': 2, **hashed}: return hashed
        case {'k': 1,  # the tail of it
              **tail}: return tail
        case {**
               whole  # whole mapping
             }: return whole
        case {'inner': {**inner}, 'inner2': 2, **outer,
             }: return inner, outer
        case str() as text: return text
''',
}


def binding_occurrences(tree, text):
    """{identifier: set of (line, column)}: where each binding construct of the text writes the name it binds - from the parser's node positions
    and the token stream only (never from supp): Name targets, parameters, aliases (the `as` name, else the first component), the NAME token
    behind def / class, the except keyword of a named handler, match captures (the last NAME token of the pattern; behind `**` for a mapping
    rest), type parameters and aliases"""
    import io
    import tokenize
    toks = [t for t in tokenize.generate_tokens(io.StringIO(text).readline) if t.type in (tokenize.NAME, tokenize.OP)]
    occ = {}

    def add(name, pos):
        occ.setdefault(name, set()).add(tuple(pos))

    def tokens_in(node):
        lo, hi = (node.lineno, node.col_offset), (node.end_lineno, node.end_col_offset)
        return [t for t in toks if lo <= t.start < hi]
    for n in ast.walk(tree):
        if isinstance(n, ast.Name) and isinstance(n.ctx, ast.Store):
            add(n.id, (n.lineno, n.col_offset))
        elif isinstance(n, ast.arg):
            add(n.arg, (n.lineno, n.col_offset))
        elif isinstance(n, ast.alias) and n.name != '*':
            ident = n.asname or n.name.partition('.')[0]
            add(ident, (n.end_lineno, n.end_col_offset - len(ident)) if n.asname else (n.lineno, n.col_offset))
        elif isinstance(n, (ast.FunctionDef, ast.AsyncFunctionDef, ast.ClassDef)):
            ts = tokens_in(n)
            for k, t in enumerate(ts):
                if t.string in ('def', 'class') and t.type == tokenize.NAME:
                    add(n.name, ts[k + 1].start)
                    break
        elif isinstance(n, ast.ExceptHandler) and n.name:
            add(n.name, (n.lineno, n.col_offset))
        elif isinstance(n, (ast.MatchAs, ast.MatchStar)) and n.name:
            cand = [t for t in tokens_in(n) if t.type == tokenize.NAME and t.string == n.name]
            add(n.name, cand[-1].start)
        elif isinstance(n, ast.MatchMapping) and n.rest:
            ts = tokens_in(n)
            stars = [k for k, t in enumerate(ts) if t.string == '**']
            add(n.rest, ts[stars[-1] + 1].start)
        elif type(n).__name__ in ('TypeVar', 'ParamSpec', 'TypeVarTuple'):
            cand = [t for t in tokens_in(n) if t.type == tokenize.NAME and t.string == n.name]
            add(n.name, cand[0].start)
    return occ


def text_at(lines, pos, n):
    ln, col = pos
    if not (1 <= ln <= len(lines)):
        return None
    return lines[ln - 1][col:col + n]


REPLAY = '''import sys; sys.path.insert(0, %(repo)r)
from supp.project import Project
from supp.util import Source
from supp.nast import extract_scope
from supp.linter import lint
from supp.assistant import location
text = %(text)r
lines = text.split(chr(10))
p = Project(['/nonexistent'])
src = Source(text, '<replay>')
scope = extract_scope(src, p)
for flow, name in scope.all_names:
    if name.name == %(ident)r:
        ln, col = name.declared_at
        print('all_names:', name.name, 'declared at', name.declared_at, '-> text there:', repr(lines[ln - 1][col:col + len(name.name)]) if 0 < ln <= len(lines) else 'outside the text')
print('lint:', [d[:4] for d in lint(p, text) if d[1].endswith(': ' + %(ident)r)])
%(extra)s
print(%(verdict)r)
'''


@harness(['C11', 'C13'], 'supp.scope.SourceScope.all_names / supp.linter.lint / supp.assistant.location [positions of every binding on a corpus]',
         bounded='7 programs holding every binding construct (imports of every form over one and several lines, every parameter kind, tuple / starred / '
                 'chained / annotated targets, for / with / except / comprehension / walrus / lambda / def / class / async def, PEP 695 headers, match '
                 'captures) in conventional and awkward layouts (continuation lines inside an indented block, tabs and runs of blanks before a name, '
                 '`;`-joined statements, one-line compound statements, imports whose bound word occurs earlier in the statement, form feeds and other characters str.splitlines() breaks at); every binding of all_names, every W01 / W02, location() from every read (cursor after the first and after the last character), including reads with several alternative bindings on the line of the cursor')
def binding_positions(run):
    """BOUNDED stand-in: the text at every reported position is the bound identifier; all_names, lint and location agree.  Not counted as proved."""
    import logging
    import supp.project as Pj
    import supp.linter as L
    import supp.assistant as A
    from supp.util import Source
    from supp.nast import extract_scope

    def go(path):
        logging.disable(logging.CRITICAL)
        for pname, text in PROGRAMS.items():
            try:
                tree = ast.parse(text)
            except SyntaxError as e:
                prove('%s:corpus-parses' % pname, False, kind='lemma', clause='checker: the corpus program does not parse: %s' % e, path=path)
                continue
            lines = text.split('\n')
            project = Pj.Project(['/nonexistent'])
            src = Source(text, '<c11>')
            scope = extract_scope(src, project)
            handler_names = set()
            alias_at = {}
            for n in ast.walk(tree):
                if isinstance(n, ast.ExceptHandler) and n.name:
                    handler_names.add(n.name)
                elif isinstance(n, ast.alias) and n.name != '*':
                    # the occurrence that binds: the `as` name, else the first component of the dotted name
                    ident = n.asname or n.name.partition('.')[0]
                    alias_at.setdefault(ident, []).append((n.end_lineno, n.end_col_offset - len(ident)) if n.asname else (n.lineno, n.col_offset))
            imported_at = {}
            # where identifiers (and keywords) stand as TOKENS: a comment or a string may hold the same word
            import io
            import tokenize
            name_tokens = {tok.start for tok in tokenize.generate_tokens(io.StringIO(text).readline) if tok.type == tokenize.NAME}
            occurrences = binding_occurrences(tree, text)
            declared = {}
            bad = []
            count = 0
            for flow, name in scope.all_names:
                if getattr(name, 'is_star', None):
                    continue
                ident = name.name
                pos = getattr(name, 'declared_at', None)
                if pos is None:
                    continue
                count += 1
                declared.setdefault(ident, set()).add(tuple(pos))
                want = 'except' if ident in handler_names else ident
                got = text_at(lines, pos, len(want))
                if got != want:
                    bad.append((ident, tuple(pos), 'all_names', got))
                elif tuple(pos) not in name_tokens:
                    bad.append((ident, tuple(pos), 'all_names (the word there is part of a comment or a string, not a token)', got))
                elif tuple(pos) not in occurrences.get(ident, ()):
                    bad.append((ident, tuple(pos), 'all_names (an occurrence of the word that binds nothing; the constructs binding it write it at %r)'
                                % sorted(occurrences.get(ident, ())), got))
                if type(name).__name__ == 'ImportedName':
                    imported_at.setdefault(ident, []).append(tuple(pos))
            for ident in set(alias_at) | set(imported_at):
                # each import binding at its own occurrence of the word (the same word may occur earlier in the statement)
                if sorted(alias_at.get(ident, [])) != sorted(imported_at.get(ident, [])):
                    bad.append((ident, sorted(imported_at.get(ident, [])), 'all_names (the aliases binding it are at %r)' % sorted(alias_at.get(ident, [])), ident))
            for d in L.lint(project, text):
                if d[0] in ('W01', 'W02'):
                    ident = d[1].split(': ')[1]
                    count += 1
                    if (d[2], d[3]) not in declared.get(ident, ()):
                        bad.append((ident, (d[2], d[3]), 'lint %s (all_names has it at %r)' % (d[0], sorted(declared.get(ident, ()))), text_at(lines, (d[2], d[3]), len(ident))))
            # go-to-definition from every read of a source-bound name, cursor at the end of the identifier
            for n in ast.walk(tree):
                if isinstance(n, ast.Name) and isinstance(n.ctx, ast.Load) and n.id in declared:
                  for cur in sorted(set([(n.lineno, n.col_offset + len(n.id)), (n.lineno, n.col_offset + 1)])):
                    try:
                        locs = A.location(project, text, cur)
                    except Exception as e:
                        bad.append((n.id, cur, 'location raised %s' % type(e).__name__, None))
                        continue
                    flat = [x for l in locs for x in (l if isinstance(l, list) else [l])]
                    for l in flat:
                        if l.get('file') not in ('<string>', None):
                            continue
                        count += 1
                        pos = tuple(l['loc'])
                        ident = n.id
                        if pos not in declared.get(ident, ()):
                            bad.append((ident, pos, 'location from the read at %r (all_names has it at %r)' % (cur, sorted(declared.get(ident, ()))),
                                        text_at(lines, pos, len(ident))))
            prove('%s:corpus-has-bindings' % pname, count > 10, kind='lemma', path=path)
            seen = set()
            for ident, pos, who, got in bad:
                if (ident, who.split(' ')[0]) in seen:
                    continue
                seen.add((ident, who.split(' ')[0]))
                extra = ''
                if who.startswith('location'):
                    extra = 'for ln, l in enumerate(lines, 1):\n    pass\n'
                core.RUN.concretise = lambda model, ob, ident=ident, pos=pos, who=who, got=got, extra=extra: {'input': {'program': pname, 'identifier': ident}, 'script': REPLAY % {
                    'repo': core.REPO, 'text': text, 'ident': ident, 'extra': extra,
                    'verdict': 'REPRODUCED: %s reports %r at %r where the text is %r' % (who, ident, pos, got)}}
                prove('%s:%s:%s' % (pname, ident, who.split(' ')[0]), False,
                      clause='the position %s reports for %r is %r, where the text is %r' % (who, ident, pos, got), path=path)
                core.RUN.concretise = None
            prove('%s:every-reported-position-holds-its-identifier' % pname, not bad,
                  clause='%d reported positions, %d not on the identifier or not agreed between entry points' % (count, len(bad)), path=path)
    core.explore(lambda: None, lambda p, out: go(p))


SUB_REPLAY = '''import sys, os, tempfile, shutil; sys.path.insert(0, %(repo)r)
from supp.assistant import location
from supp.project import Project
root = tempfile.mkdtemp(prefix='supp-c11-')
try:
    os.mkdir(os.path.join(root, 'pkgs'))
    for rel, text in (('pkgs/__init__.py', ''), ('pkgs/subm.py', 'def boo():\\n    pass\\n'), ('pkgs/edited.py', '')):
        open(os.path.join(root, rel), 'w').write(text)
    src = %(src)r
    locs = location(Project([root]), src, %(pos)r, os.path.join(root, 'pkgs', 'edited.py'))
    print('location:', locs)
    lines = src.split(chr(10))
    bad = [l for l in locs if l['file'].endswith('edited.py') and not (1 <= l['loc'][0] <= len(lines))]
    print('REPRODUCED: a reported position is not a line of the named file: %%r' %% bad if bad else 'not reproduced')
finally:
    shutil.rmtree(root, ignore_errors=True)
'''


@harness(['C11'], 'supp.assistant.location [a submodule reached through a dotted import]',
         bounded='one package with one submodule; 4 programs (import pkgs.subm read as pkgs.subm, through an alias of the package, imported twice, '
                 'inside a function) x the cursor inside `subm`')
def submodule_through_dotted_import(run):
    """BOUNDED: go-to-definition on the submodule component of `pkgs.subm` after `import pkgs.subm`: every position reported for the edited
    text is a line of that text and holds the identifier.  Not counted as proved."""
    import logging
    import os
    import shutil
    import tempfile
    import supp.project as Pj
    import supp.assistant as A

    def go(path):
        logging.disable(logging.CRITICAL)
        root = tempfile.mkdtemp(prefix='supp-c11-')
        try:
            os.mkdir(os.path.join(root, 'pkgs'))
            for rel, text in (('pkgs/__init__.py', ''), ('pkgs/subm.py', 'def boo():\n    pass\n'), ('pkgs/edited.py', '')):
                with open(os.path.join(root, rel), 'w') as f:
                    f.write(text)
            cases = {
                'read-after-the-import': ('import pkgs.subm\npkgs.subm.boo\n', (2, 8)),
                'imported-twice': ('import pkgs.subm\nimport pkgs.subm\npkgs.subm.boo\n', (3, 8)),
                'inside-a-function': ('def f():\n    import pkgs.subm\n    return pkgs.subm.boo\n', (3, 19)),
                'next-to-a-plain-import': ('import pkgs\nimport pkgs.subm\npkgs.subm.boo\n', (3, 8)),
            }
            # a definition in ANOTHER file, on the line of the cursor and right of it: positions of other files are reported as they are (the
            # cursor mark shifts columns of the edited text only)
            with open(os.path.join(root, 'pkgs', 'shapes.py'), 'w') as f:
                f.write('pad = 0\n\nclass Shape:\n    def area(self): pass\n    label = 1; other_label = 2\n')
            for label, src, pos, want in (('method-right-of-the-cursor', 'from pkgs.shapes import Shape\n\n\nShape.area\n', (4, 8), ('shapes.py', (4, 8))),
                                          ('class-attribute-right-of-the-cursor', 'from pkgs.shapes import Shape\n\n\n\nShape.other_label\n', (5, 9), ('shapes.py', (5, 15))),
                                          ('class-left-of-the-cursor', 'import pkgs.shapes\n\npkgs.shapes.Shape\n', (3, 16), ('shapes.py', (3, 6)))):
                try:
                    locs = A.location(Pj.Project([root]), src, pos, os.path.join(root, 'pkgs', 'edited.py'))
                    got = [(os.path.basename(l['file']), tuple(l['loc'])) for l in locs if isinstance(l, dict)]
                except Exception as e:
                    got = ['<raised %s>' % type(e).__name__]
                prove('definition-in-another-file:%s' % label, want in got and all(g[1][1] >= 0 for g in got if isinstance(g, tuple)),
                      clause='go-to-definition reports the position the other file has it at: %r [%r]' % (want, got), path=path)
            for label, (src, pos) in cases.items():
                lines = src.split('\n')
                try:
                    locs = A.location(Pj.Project([root]), src, pos, os.path.join(root, 'pkgs', 'edited.py'))
                except Exception as e:
                    locs = [{'file': 'edited.py', 'loc': ('raised', type(e).__name__)}]
                flat = [x for l in locs for x in (l if isinstance(l, list) else [l])]
                mine = [l for l in flat if l['file'].endswith('edited.py')]
                def conc(model, ob, src=src, pos=pos):
                    return {'input': {'source': src, 'cursor': pos}, 'script': SUB_REPLAY % {'repo': core.REPO, 'src': src, 'pos': pos}}
                # the synthesised binding of the submodule (name.py: ImportedName(name, (0, 0), (0, 0), ...)) is reported at line 0
                zero = [l for l in mine if tuple(l['loc']) == (0, 0)]
                core.RUN.concretise = conc if zero else None
                prove('dotted-import-submodule:%s:the-implicit-binding-is-not-reported-at-line-0' % label, not zero,
                      clause='no position (0, 0) - which is no line of the file - is reported for the edited text [%r]' % (locs,), path=path)
                rest = [l for l in mine if tuple(l['loc']) != (0, 0)]
                ok = all(isinstance(l['loc'][0], int) and 1 <= l['loc'][0] <= len(lines) and lines[l['loc'][0] - 1][l['loc'][1]:l['loc'][1] + 4] in ('subm', 'pkgs')
                         for l in rest) and any(l['file'].endswith('subm.py') for l in flat)
                core.RUN.concretise = conc if not ok else None
                prove('dotted-import-submodule:%s:other-positions-hold-the-identifier' % label, ok,
                      clause='every other position reported for the edited text is one of its lines and holds the identifier; the submodule file is reported [%r]' % (locs,), path=path)
                core.RUN.concretise = None
        finally:
            shutil.rmtree(root, ignore_errors=True)
    core.explore(lambda: None, lambda p, out: go(p))
