"""Sidecar contracts for the cursor-mark finders of supp/util.py (C12, C08): get_marked_atribute, get_marked_name,
get_marked_import: the node that carries the mark is found wherever the grammar allows it to stand, and comes back unmarked."""
import ast

import z3

from pysym import core
from pysym.core import prove
from pysym.harness import harness
from contracts.positions import SNIPPETS

# expression contexts: every expression class (SNIPPETS) plus chains in which the marked node is the receiver of a further operation
EXPR_CONTEXTS = dict(SNIPPETS)
EXPR_CONTEXTS.update({'receiver-of-attribute': 'e1.x.y', 'receiver-of-call': 'e1().x', 'receiver-of-call-with-args': 'e1(e2).x(e3)',
                      'receiver-of-subscript': 'e1[e2].x', 'inside-list-then-subscript': '[e1][0].x', 'argument-of-call-then-attribute': 'f(e1).x',
                      'starred-argument': 'f(*e1, **e2)', 'conditional': 'e1 if e2 else e3', 'lambda-default': 'lambda a=e1: e2'})
STMT_CONTEXTS = {
    'Expr': 'e1', 'Assign': 'x = e1', 'Assign-target-subscript': 'x[e1] = e2', 'AugAssign': 'x += e1', 'AnnAssign': 'x: e1 = e2',
    'Return': 'def f():\n    return e1', 'Delete': 'del x[e1]', 'If': 'if e1:\n    e2\nelif e3:\n    pass\nelse:\n    e4', 'While': 'while e1:\n    e2\nelse:\n    e3',
    'For': 'for x in e1:\n    e2\nelse:\n    e3', 'With': 'with e1 as x, e2:\n    e3', 'Raise': 'raise e1 from e2', 'Assert': 'assert e1, e2',
    'Try': 'try:\n    e1\nexcept e2 as err:\n    e3\nelse:\n    e4\nfinally:\n    e5', 'FunctionDef': '@e1\ndef f(a: e2 = e3, *, k=e4) -> e5:\n    e6',
    'ClassDef': '@e1\nclass C(e2, metaclass=e3):\n    e4', 'AsyncFor': 'async def f():\n    async for x in e1:\n        e2',
    'AsyncWith': 'async def f():\n    async with e1:\n        e2', 'Global-sibling': 'def f():\n    global g\n    e1',
}


def contexts():
    out = []
    for label, src in list(EXPR_CONTEXTS.items()) + list(STMT_CONTEXTS.items()):
        n = 1
        while ('e%d' % n) in src:
            n += 1
        for i in range(1, n):
            out.append(('%s/e%d' % (label, i), src, i))
    return out


def instantiate(src, i, replacement):
    import re
    def sub(m):
        return replacement if int(m.group(1)) == i else 'other%s' % m.group(1)
    return re.sub(r'\be(\d+)\b', sub, src)


MARK_REPLAY = '''import sys; sys.path.insert(0, %(repo)r)
from supp.assistant import assist
from supp.project import Project
src = "class Bar:\\n    def make(self):\\n        return ''\\nbar = Bar()\\nbar.make().strip\\n"
r = assist(Project(['/nonexistent']), src, (5, 8), 'f.py')
if 'make' not in r[1]:
    print('REPRODUCED: completion at `bar.make|().strip` proposes %%r (the attributes of bar are expected)' %% (r,)); sys.exit(1)
print('not reproduced')
'''


@harness(['C12', 'C08'], 'supp.util.get_marked_atribute / get_marked_name / get_any_marked_name')
def marked_nodes_found(run):
    """the attribute (resp. name) that carries the cursor mark is found in EVERY position of every expression and statement class where the
    grammar allows an expression (including as the receiver of a call / subscript / further attribute access), and is returned as a
    copy with the mark removed; when there is no mark the result is None"""
    import supp.util as U
    MARK = U.SOURCE_MARK
    run.concretise = lambda model, ob: {'input': 'bar.make|().strip', 'script': MARK_REPLAY % {'repo': core.REPO}}

    def go(path):
        for label, src, i in contexts():
            run.case = label
            # attribute carrying the mark
            code = instantiate(src, i, 'obj.at%str' % MARK)
            try:
                tree = ast.parse(code)
            except SyntaxError:
                continue
            r = U.get_marked_atribute(tree)
            ok = isinstance(r, ast.Attribute) and r.attr == 'attr' and isinstance(r.value, ast.Name) and r.value.id == 'obj'
            prove('marked-attribute-found-unmarked', ok, clause='get_marked_atribute finds obj.at|tr in %r [%r]' % (code, getattr(r, 'attr', r)), path=path)
            prove('no-marked-name-there', U.get_marked_name(tree) is None, path=path)
            # name carrying the mark
            code = instantiate(src, i, 'na%sme' % MARK)
            tree = ast.parse(code)
            r = U.get_marked_name(tree)
            ok = isinstance(r, ast.Name) and r.id == 'name' and isinstance(r.ctx, ast.Load)
            prove('marked-name-found-unmarked', ok, clause='get_marked_name finds na|me in %r [%r]' % (code, getattr(r, 'id', r)), path=path)
            r2 = U.get_any_marked_name(tree)
            prove('any-marked-name-found', isinstance(r2, ast.Name) and r2.id == 'name', path=path)
            prove('no-marked-attribute-there', U.get_marked_atribute(tree) is None, path=path)
            # nothing marked
            tree = ast.parse(instantiate(src, 0, 'x'))
            prove('nothing-marked-nothing-found', U.get_marked_name(tree) is None and U.get_marked_atribute(tree) is None
                  and U.get_marked_import(tree) is None, path=path)
        run.case = None
    core.explore(lambda: None, lambda p, out: go(p))


@harness(['C12', 'C07'], 'supp.util.get_marked_import')
def marked_import_found(run):
    """the marked module name or imported name of an import statement is found at every position of `import a, b.c as d` /
    `from [.]*m import x as y, z`, at any nesting (function, class, if, try), and reported as (module specifier, imported name or None)"""
    import supp.util as U
    MARK = U.SOURCE_MARK

    def go(path):
        cases = [('import os.pa%sth' % MARK, ('os.path', None)), ('import a, b.c%s as d' % MARK, ('b.c', None)),
                 ('import %sa.b' % MARK, ('a', None)),
                 ('from os.pa%sth import join' % MARK, ('os.path', None)), ('from ..pk%sg import x' % MARK, ('..pkg', None)),
                 ('from os import pa%sth, sep' % MARK, ('os', 'path')), ('from os import sep, pa%sth as p' % MARK, ('os', 'path')),
                 ('from . import mo%sd' % MARK, ('.', 'mod')), ('from .. import %s' % MARK, ('..', '')),
                 ('from ...pkg import (a,\n   b%sb)' % MARK, ('...pkg', 'bb'))]
        wraps = ['%s', 'def f():\n    %s', 'class C:\n    %s', 'if x:\n    pass\nelse:\n    %s', 'try:\n    %s\nexcept E:\n    pass',
                 'with a:\n    for b in c:\n        %s']
        for code, want in cases:
            for w in wraps:
                src = w % code.replace('\n', '\n' + ' ' * (len(w) - len(w.lstrip()) if False else 0))
                try:
                    tree = ast.parse(src)
                except SyntaxError:
                    continue
                run.case = '%s in %s' % (code.split()[0] + '…' + code[-12:].replace('\n', ' '), w.split('\n')[0][:12])
                r = U.get_marked_import(tree)
                prove('marked-import-found', r == want, clause='get_marked_import(%r) == %r [%r]' % (src, want, r), path=path)
        run.case = None
    core.explore(lambda: None, lambda p, out: go(p))
