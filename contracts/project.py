"""Sidecar contracts for supp/project.py (C07 module resolution, C09 cache).

File system abstraction (assumed contracts of os.path.join / dirname / basename / exists): a path is a position in a directory
chain (level 0 = the file, level j = its j-th ancestor directory) plus trailing components; whether `<level-j directory>/__init__.py`
exists is the uninterpreted predicate Marked(j); the directory name at level j is Comp(j).
Spec (importlib): __package__ of the file = Comp(m).….Comp(1) where levels 1..m are exactly the marked ones below the first unmarked
level; importlib.util.resolve_name('.'*k + rest, package) = Comp(m).….Comp(k)[.rest], ImportError when k > m."""
import z3

from pysym import core, loader
from pysym.core import prove, assume, axiom, EngineEscape, PathEnd
from pysym.harness import harness
from pysym.loader import LoopSpec, Mutable
from pysym.proxies import Proxy, SInt, SBool, lift

Int = z3.IntSort()
Marked = z3.Function('dir_has_init_py', Int, z3.BoolSort())
IsDir = z3.Function('ancestor_is_an_existing_directory', Int, z3.BoolSort())
IsRoot = z3.Function('ancestor_is_a_directory_of_the_search_path', Int, z3.BoolSort())


def Pk(j):
    """the j-th ancestor directory is a package component of the file's module name: it holds __init__.py and is not itself a directory modules
    are searched in"""
    return z3.And(Marked(j), z3.Not(IsRoot(j)))
T_FS = ('os.path.join / dirname / basename / exists, os.listdir, os.path.getmtime: functions of an abstract file system (directory chain '
        'with an `__init__.py` predicate per level; set of existing files)')


class PathP(Proxy):
    """level-th ancestor of the file, followed by `extra` components"""
    _pyclass = str

    def __init__(self, level, extra=()):
        self.level, self.extra = level, tuple(extra)

    def __bool__(self):
        return True            # a path is a non-empty string


class OsPath(object):
    @staticmethod
    def dirname(p):
        if p.extra:
            return PathP(p.level, p.extra[:-1])
        return PathP(z3.simplify(p.level + 1))

    @staticmethod
    def basename(p):
        if p.extra:
            return p.extra[-1]
        return CompName(p.level)

    @staticmethod
    def join(p, *parts):
        return PathP(p.level, p.extra + tuple(parts))

    @staticmethod
    def exists(p):
        core.RUN.trust(T_FS)
        if p.extra == ('__init__.py',):
            return core.CUR.branch(Marked(p.level))
        raise EngineEscape('exists(%r)' % (p.extra,))

    @staticmethod
    def isdir(p):
        core.RUN.trust(T_FS)
        if not p.extra:
            return core.CUR.branch(IsDir(p.level))
        raise EngineEscape('isdir(%r)' % (p.extra,))


class OsStub(object):
    path = OsPath


class CompName(Proxy):
    """the name of the directory at a level"""
    _pyclass = str

    def __init__(self, level):
        self.level = level


class RelName(Proxy):
    """a module specifier: k leading dots followed by `rest` (k and the emptiness of rest symbolic)"""
    _pyclass = str

    def __init__(self, k, has_rest, stripped=False):
        self.k, self.has_rest, self.stripped = k, has_rest, stripped
        self.restlen = z3.Int('len_of_rest')

    def startswith(self, s):
        if s != '.':
            raise EngineEscape('startswith(%r)' % s)
        return core.CUR.branch(self.k >= 1) if not self.stripped else False

    def lstrip(self, chars):
        if chars != '.':
            raise EngineEscape('lstrip(%r)' % chars)
        return RelName(self.k, self.has_rest, stripped=True)

    def slen(self):
        return SInt(self.restlen if self.stripped else self.k + self.restlen)

    def __bool__(self):
        if self.stripped:
            return core.CUR.branch(self.has_rest)
        return core.CUR.branch(z3.Or(self.k >= 1, self.has_rest))


class Parts(Mutable):
    """parts: [Comp(hi-1), ..., Comp(lo)] (top-down), built by insert(0, ...) while climbing"""
    _pyclass = list

    def __init__(self, lo=None, hi=None):
        self.lo, self.hi = lo, hi

    def insert(self, i, x):
        if i != 0 or not isinstance(x, CompName):
            raise EngineEscape('insert(%r, %r)' % (i, x))
        if self.lo is None:
            self.lo = x.level
            self.hi = z3.simplify(x.level + 1)
        else:
            prove('ancestors-collected-contiguously', x.level == self.hi, kind='loop',
                  clause='the next package component is the name of the next directory up')
            self.hi = z3.simplify(self.hi + 1)
        self.touched()

    def __bool__(self):
        if self.lo is None:
            return False
        return core.CUR.branch(self.hi > self.lo)

    def __add__(self, other):
        return ('parts+', self, other)

    def havoc(self, L, lo, hi):
        self.lo, self.hi = lo, hi
        self._hav = L


class SRangeP(Proxy):
    def __init__(self, n):
        self.n = n

    def slen(self):
        return SInt(self.n)

    def elem_at(self, k):
        return SInt(k)


NORM_REPLAY = '''import sys, os, tempfile, shutil, importlib.util; sys.path.insert(0, %(repo)r)
from supp.project import Project
d = tempfile.mkdtemp(prefix='supp-c07-')
try:
    # top/pkga/__init__.py, top/pkga/plain/ (no __init__), top/pkga/plain/sub/__init__.py, top/pkga/plain/sub/m.py
    sub = os.path.join(d, 'pkga', 'plain', 'sub'); os.makedirs(sub)
    for p in (os.path.join(d, 'pkga'), sub):
        open(os.path.join(p, '__init__.py'), 'w').close()
    f = os.path.join(sub, 'm.py'); open(f, 'w').close()
    bad = []
    for spec, package in (('.x', 'sub'), ('..x', 'sub'), ('...x', 'sub'), ('.', 'sub')):
        try: want = importlib.util.resolve_name(spec, package)
        except ImportError: want = ImportError
        try: got = Project([d]).norm_package(spec, f)
        except ImportError: got = ImportError
        except Exception as e: got = repr(e)
        if got != want: bad.append((spec, 'supp: %%r' %% (got,), 'importlib: %%r' %% (want,)))
    if bad:
        print('REPRODUCED: relative names from sub/m.py (package "sub", its parent directory is not a package): %%r' %% (bad,)); sys.exit(1)
    print('not reproduced')
finally:
    shutil.rmtree(d, ignore_errors=True)
'''


@harness(['C07', 'C04', 'C09'], 'supp.project.Project.norm_package', twins=('spec-level-counts-from-zero',))
def norm_package(run, twin=None):
    """absolute names are returned unchanged; a relative name with k leading dots resolves, as importlib.util.resolve_name does with the
    file's __package__, to the package k-1 levels above the file's package (plus the rest of the name), and raises ImportError exactly
    when there are not that many enclosing packages - the directories the dots pass must be packages themselves.  Loop invariants: after j
    rounds `root` is the (j+1)-th ancestor directory and every directory passed is a package (or does not exist: the domain is real trees, a
    file in a directory that is not there yet has no importlib answer); while collecting, parts == names of the marked directories from
    level k up to the current one"""
    run.trust(T_FS)
    run.concretise = lambda model, ob: {'input': 'a package directory below a plain directory below a package', 'script': NORM_REPLAY % {'repo': core.REPO}}
    k = z3.Int('leading_dots')
    has_rest = z3.Bool('has_rest')
    holder = {}

    def inv0(L, st):
        # after j rounds `root` is the (j+1)-th ancestor (the first dot is the file's own directory), and every directory passed on the
        # way is a package - or is not there at all (a file being written in a directory that does not exist yet)
        r = st['root']
        i = z3.Int('ci')
        return z3.And(z3.BoolVal(isinstance(r, PathP) and not r.extra), (r.level == L.k + 1) if isinstance(r, PathP) else z3.BoolVal(False),
                      z3.ForAll([i], z3.Implies(z3.And(i >= 1, i <= L.k), z3.And(z3.Not(IsRoot(i)), z3.Or(Marked(i), z3.Not(IsDir(i)))))))

    def hav0(L, st):
        return {'root': PathP(z3.simplify(L.k + 1))}

    def inv1(L, st):
        r, parts = st['root'], st['parts']
        if not isinstance(r, PathP) or r.extra or not isinstance(parts, Parts):
            return z3.BoolVal(False)
        j = z3.Int('mj')
        if parts.lo is None:
            return r.level == k
        return z3.And(parts.lo == k, parts.hi == r.level, r.level >= k,
                      z3.ForAll([j], z3.Implies(z3.And(j >= k, j < r.level), Pk(j))))

    def hav1(L, st):
        t = core.fresh('climbed', Int)
        assume(t >= 0)
        if core.choice(2) == 0:
            st['parts'].havoc(L, None, None)
            return {'root': PathP(k)}
        assume(t >= 1)
        st['parts'].havoc(L, k, z3.simplify(k + t))
        return {'root': PathP(z3.simplify(k + t))}

    class Cache(Proxy):
        """_norm_cache: on a hit it holds, for the directory used as key, what a miss would have collected from that directory
        (cache invariant, established by the store below)"""
        _pyclass = dict

        def __getitem__(self, key):
            holder['looked_up'] = key
            if not isinstance(key, PathP) or key.extra:
                raise EngineEscape('cache key %r' % (key,))
            if core.choice(2) == 0:
                raise KeyError(key)
            # hit: the marked ancestors from the key's level upwards (at least one, since only non-empty lists are stored)
            t = core.fresh('cached_depth', Int)
            j = z3.Int('hj')
            assume(t >= 1)
            axiom(z3.ForAll([j], z3.Implies(z3.And(j >= key.level, j < key.level + t), Pk(j))))
            assume(z3.Not(Pk(key.level + t)))
            holder['hit'] = True
            return Parts(key.level, z3.simplify(key.level + t))

        def __setitem__(self, key, v):
            holder['cached'] = (key, v)

    f = loader.load('supp.project', 'Project.norm_package', strlit=True,
                    stubs={'os': OsStub, 'range': lambda n: SRangeP(lift(n)), 'len': lambda x: x.slen()},
                    cuts={0: LoopSpec(inv0, hav0, temps=('_',)), 1: LoopSpec(inv1, hav1)},
                    displays={'list': Parts})

    def body():
        assume(k >= 0)

        import supp.project as Pj
        holder.clear()
        pkg = RelName(k, has_rest)
        assume(pkg.restlen >= 0)
        assume(has_rest == (pkg.restlen > 0))
        holder['pkg'] = pkg
        # is_root by its contract (ground obligations below): is this directory one of those modules are searched in?
        def is_root(pth):
            if not isinstance(pth, PathP) or pth.extra:
                raise EngineEscape('is_root(%r)' % (pth,))
            return core.CUR.branch(IsRoot(pth.level))
        return f(real_project(Pj, _norm_cache=Cache(), is_root=is_root), pkg, PathP(z3.IntVal(0)))

    def on_path(p, out):
        pkg = holder['pkg']
        j = z3.Int('sj')
        if 'looked_up' in holder:
            key = holder['looked_up']
            prove('cache-keyed-by-the-directory-the-dots-lead-to', z3.And(z3.BoolVal(isinstance(key, PathP) and not key.extra), key.level == k),
                  clause='the cache is keyed by the directory reached after climbing the leading dots', path=p)
        if 'cached' in holder:
            ckey, cval = holder['cached']
            prove('stored-under-the-same-key', ckey is holder.get('looked_up'), path=p)
            # the invariant a later hit relies on, at the EXIT of the call (a list stored first and filled afterwards is judged by what it holds then)
            filled = isinstance(cval, Parts) and cval.lo is not None and isinstance(ckey, PathP)
            prove('what-is-stored-is-what-a-hit-assumes', z3.And(cval.lo == ckey.level, cval.hi > cval.lo) if filled else z3.BoolVal(False),
                  clause='only a non-empty list of the package directories from the key directory upwards is ever in the cache', path=p)
            prove('nothing-is-stored-for-a-name-that-does-not-resolve', z3.BoolVal(out[0] == 'ok'),
                  clause='a call that raises leaves no entry behind: the next relative name from that directory must be refused too', path=p)
        m = z3.Int('m')      # depth of the file's package: levels 1..m marked, level m+1 not; the directories above the file exist (a real tree)
        pk = z3.And(m >= 0, z3.ForAll([j], z3.Implies(z3.And(j >= 1, j <= m), Pk(j))), z3.Not(Pk(m + 1)),
                    z3.ForAll([j], z3.Implies(j >= 1, IsDir(j))))
        kk = k if not twin else k + 1
        if out[0] == 'ok':
            r = out[1]
            if r is pkg:
                prove('absolute-name-unchanged', k == 0, clause='a name without leading dots is returned as it is', path=p)
                return
            # '.'.join(parts [+ [rest]])
            ok = isinstance(r, tuple) and r[0] == 'joined'
            if not ok:
                prove('result-is-the-dotted-join', False, path=p)
                return
            parts, rest = r[1], r[2]
            prove('rest-appended-iff-present', z3.BoolVal(rest is not None) == has_rest, clause='the part after the dots is appended when there is one', path=p)
            within = kk <= m       # the leading dots stay inside the file's own package chain
            prove('resolves-like-importlib', z3.Implies(z3.And(pk, within), z3.And(kk >= 1, parts.lo == kk, parts.hi == m + 1)),
                  clause='== importlib.util.resolve_name(name, __package__): the packages from the file\'s top-level package (the directories with '
                         '__init__.py below the nearest directory of the search path) down to level k', path=p)
            prove('refuses-to-climb-out-of-the-top-level-package', z3.Implies(pk, within),
                  clause='a name with more leading dots than the file has enclosing packages does not resolve (importlib raises ImportError)', path=p)
        elif isinstance(out[1], ImportError):
            prove('importerror-only-beyond-the-top-level-package', z3.Implies(pk, kk > m),
                  clause='ImportError exactly when the name has more leading dots than the file has enclosing packages', path=p)
        else:
            prove('no-other-exception(%s)' % type(out[1]).__name__, False, clause='unresolvable names raise ImportError [%r]' % (out[1],), path=p)
    # '.'.join(parts) on proxies: the loader's __strlit__ hook
    g = f.__globals__
    real = g['__strlit__']

    def strlit(lit, meth, *args):
        if lit == '.' and meth == 'join':
            a = args[0]
            if isinstance(a, Parts):
                return ('joined', a, None)
            if isinstance(a, tuple) and a[0] == 'parts+':
                return ('joined', a[1], a[2])
        return real(lit, meth, *args)
    g['__strlit__'] = strlit
    core.explore(body, on_path)


# ---------------------------------------------------------------------------
# get_module over an abstract file system

_EXISTS = [z3.Function('candidate_exists', Int, Int, z3.BoolSort())]     # (root index, candidate index); swapped per epoch by the history harness


def Exists(r, c):
    return _EXISTS[0](r, c)


def real_project(Pj, **attrs):
    """`self` for a method under contract: a REAL Project built by the real __init__ (so every attribute the class gives its instances
    exists, whatever a later version adds), with the modelled attributes replaced by their stand-ins"""
    s = Pj.Project(['/nonexistent'])
    for k, v in attrs.items():
        setattr(s, k, v)
    return s
EXISTS_IN_PARENT = z3.Function('candidate_exists_in_the_search_path_of_the_parent', Int, Int, z3.BoolSort())


def exists_fn(tag):
    return _EXISTS[0] if tag == 'roots' else EXISTS_IN_PARENT


class RootList(Proxy):
    """a list of directories of symbolic length: the roots of the project (`roots`) or the search path of a parent package (`parent`)"""
    _pyclass = list

    def __init__(self, tag='roots'):
        self.tag = tag
        self.n = z3.Int('n_' + tag)

    def slen(self):
        return SInt(self.n)

    def elem_at(self, k):
        return RootP(k, self.tag)


class RootP(Proxy):
    _pyclass = str

    def __init__(self, r, tag='roots'):
        self.r, self.tag = r, tag


class CandP(Proxy):
    """<directory r of the list `tag`>/<parts as path><suffix>  or  <directory r>/<parts as path>/__init__.py"""
    _pyclass = str

    def __init__(self, r, kind=None, tag='roots', parts=None):
        self.r, self.kind, self.tag, self.parts = r, kind, tag, parts

    def __add__(self, s):
        if self.kind is not None or type(s) is not str:
            raise EngineEscape('path + %r' % (s,))
        return CandP(self.r, ('suffix', s), self.tag, self.parts)

    def __bool__(self):
        return True


def fs_stub(suffixes):
    class OP(object):
        @staticmethod
        def join(p, *parts):
            if isinstance(p, RootP):
                return CandP(p.r, None, p.tag, tuple(str(x) for x in parts))
            if isinstance(p, CandP) and p.kind is None and parts == ('__init__.py',):
                return CandP(p.r, ('package', '__init__.py'), p.tag, p.parts)
            raise EngineEscape('join(%r, %r)' % (p, parts))

        @staticmethod
        def exists(p):
            core.RUN.trust(T_FS)
            if isinstance(p, CandP) and p.kind is not None:
                c = suffixes.index(p.kind[1]) if p.kind[0] == 'suffix' else len(suffixes)
                return core.CUR.branch(exists_fn(p.tag)(p.r, z3.IntVal(c)))
            raise EngineEscape('exists(%r)' % (p,))

    class O(object):
        path = OP
    return O


GETMOD_REPLAY = '''import sys, os, tempfile, shutil, importlib.util, importlib.machinery; sys.path.insert(0, %(repo)r)
from supp.project import Project
d = tempfile.mkdtemp(prefix='supp-c07-')
try:
    r1, r2 = os.path.join(d, 'r1'), os.path.join(d, 'r2')
    os.makedirs(os.path.join(r1, 'pk')); os.makedirs(os.path.join(r2, 'pk')); os.makedirs(os.path.join(r2, 'only2'))
    open(os.path.join(r1, 'pk', '__init__.py'), 'w').close(); open(os.path.join(r2, 'pk.py'), 'w').close()
    open(os.path.join(r2, 'only2', '__init__.py'), 'w').close(); open(os.path.join(r1, 'mod1.py'), 'w').close(); open(os.path.join(r2, 'mod1.py'), 'w').close()
    bad = []
    for roots in ([r1, r2], [r2, r1]):
        p = Project(list(roots))
        for name in ('pk', 'only2', 'mod1', 'nosuch_zz'):
            spec = importlib.machinery.PathFinder.find_spec(name, roots)
            want = spec.origin if spec else None
            try: got = p.get_module(name).filename
            except ImportError: got = None
            if got != want: bad.append((roots, name, got, want))
    if bad:
        print('REPRODUCED: %%r' %% (bad,)); sys.exit(1)
    print('not reproduced')
finally:
    shutil.rmtree(d, ignore_errors=True)
'''


PARENT_REPLAY = '''import sys, os, tempfile, shutil, importlib.machinery; sys.path.insert(0, %(repo)r)
from supp.project import Project
d = tempfile.mkdtemp(prefix='supp-c07-')
try:
    r1, r2 = os.path.join(d, 'r1'), os.path.join(d, 'r2')
    os.makedirs(os.path.join(r1, 'clash')); os.makedirs(r2)
    open(os.path.join(r1, 'clash', '__init__.py'), 'w').close(); open(os.path.join(r1, 'clash', 'inner.py'), 'w').close()
    open(os.path.join(r2, 'clash.py'), 'w').close()
    roots = [r2, r1]
    parent = importlib.machinery.PathFinder.find_spec('clash', roots)
    want = None
    if parent is not None and parent.submodule_search_locations:
        s = importlib.machinery.PathFinder.find_spec('clash.inner', list(parent.submodule_search_locations))
        want = s.origin if s else None
    try: got = Project(roots).get_module('clash.inner').filename
    except ImportError: got = None
    if got != want:
        print('REPRODUCED: roots [r2, r1], r2/clash.py is a module, r1/clash/inner.py exists: supp analyses %%r, importlib finds %%r' %% (got, want)); sys.exit(1)
    print('not reproduced')
finally:
    shutil.rmtree(d, ignore_errors=True)
'''


@harness(['C07', 'C09'], 'supp.project.Project.get_module', twins=('spec-last-root-wins',))
def get_module(run, twin=None):
    """cache miss: the module analysed is the file importlib's path finder would load.  A top-level name is searched in the roots (source
    roots, then sys.path, in order; any number of roots): the FIRST root that holds a candidate - a file with one of importlib's suffixes
    or a package directory.  A dotted name is searched only inside the parent the import system resolves first (the recursive call is
    replaced by its contract: it raises ImportError, or returns a module with a search path - empty for a plain module): the first
    directory of the parent's search path that holds a candidate for the LAST component; where no parent module exists the name is
    searched under every root like a namespace package.  Source files are analysed as source, anything else (or a name declared dynamic)
    is imported; ImportError exactly when the searched directories hold no candidate and the name is not already loaded.  requires: a
    directory holds at most one candidate for the name (the property's domain).  Loop invariant: no candidate in the directories before
    k and nothing chosen yet.  cache hits: the per-request cache first, then the module cache unless the module's file changed"""
    import supp.project as Pj
    run.trust(T_FS)
    run.concretise = lambda model, ob: ({'input': 'roots [r2, r1] with r2/clash.py and r1/clash/inner.py', 'script': PARENT_REPLAY % {'repo': core.REPO}}
                                        if 'parent' in ob.name else
                                        {'input': 'two roots holding a package and a module of one name, both orders', 'script': GETMOD_REPLAY % {'repo': core.REPO}})
    SUF = list(Pj.SUFFIXES)
    NC = len(SUF) + 1
    roots, ppath = RootList('roots'), RootList('parent')
    loaded, dyn = z3.Bool('name_in_sys_modules'), z3.Bool('name_is_dynamic')
    holder = {}

    def none_before(k, tag=None):
        E = exists_fn(tag or holder['tag'])
        r, c = z3.Int('ir'), z3.Int('ic')
        return z3.ForAll([r, c], z3.Implies(z3.And(r >= 0, r < k, c >= 0, c < NC), z3.Not(E(r, c))))

    def inv(L, st):
        return z3.And(z3.BoolVal(st['filename'] is None), none_before(L.k))

    def hav(L, st):
        return {'filename': None, 'is_source': False}

    class SymIn(Proxy):
        def __init__(self, b):
            self.b = b

        def __contains__(self, k):
            return core.CUR.branch(self.b)

        def __getitem__(self, k):
            return ('sys.modules', k)

        def get(self, k, default=None):
            # a loaded module knows a file of its own: some path that is NOT one of the candidates of the search below
            if core.CUR.branch(self.b):
                return type('LoadedModule', (), {'__file__': LoadedFile(), '__name__': k})()
            return default

    class LoadedFile(Proxy):
        """__file__ of an already loaded module: an arbitrary path"""
        _pyclass = str

        def __bool__(self):
            return True

        def endswith(self, suf):
            return core.CUR.branch(z3.Bool('loaded_module_file_is_source'))

    class SysStub(object):
        modules = SymIn(loaded)
        path = []

    class ParentModule(object):
        """what the recursive call returns: a module whose search path is a list of directories of any length (none for a plain module)"""
        search_path = ppath

    imported = []
    f = loader.load('supp.project', 'Project.get_module',
                    stubs={'os': fs_stub(SUF), 'sys': SysStub, '__import__': lambda n: imported.append(n),
                           'ImportedModule': lambda m: ('imported', m), 'SourceModule': lambda proj, n, fn: ('source', fn)},
                    cuts={0: LoopSpec(inv, hav, temps=('p', 'mpath', 's', 'fname'))},
                    builtins_extra={'__import__': lambda n, *a: imported.append(n)})
    CASES = ('top-level-name', 'dotted-name-without-a-parent-module', 'dotted-name-inside-its-parent')

    def body():
        case = core.choice(3)
        assume(z3.And(roots.n >= 0, ppath.n >= 0))
        r, c1, c2 = z3.Int('ur'), z3.Int('uc1'), z3.Int('uc2')
        # domain: at most one candidate per directory
        for E in (exists_fn('roots'), exists_fn('parent')):
            axiom(z3.ForAll([r, c1, c2], z3.Implies(z3.And(E(r, c1), E(r, c2), c1 >= 0, c1 < NC, c2 >= 0, c2 < NC), c1 == c2)))
        name = 'mod' if case == 0 else 'top.pkg.mod'
        asked = []

        def parent_contract(n):
            asked.append(n)
            if case == 1:
                raise ImportError(n)
            return ParentModule()
        s = real_project(Pj, _context_cache={}, _module_cache={}, dyn_modules=SymIn(dyn), get_path=lambda: roots, get_module=parent_contract)
        holder.update(s=s, name=name, case=case, asked=asked, tag='parent' if case == 2 else 'roots',
                      parts=('mod',) if case in (0, 2) else ('top', 'pkg', 'mod'))
        del imported[:]
        return f(s, name)

    def on_path(p, out):
        s, name, case, tag = holder['s'], holder['name'], holder['case'], holder['tag']
        run.case = CASES[case]
        lst = ppath if case == 2 else roots
        nothing = none_before(lst.n)
        prove('parent-resolved-first', holder['asked'] == ([] if case == 0 else ['top.pkg']),
              clause='a dotted name asks (once) for the module named by all but its last component; a top-level name asks for none [%r]' % (holder['asked'],), path=p)
        if out[0] == 'exc':
            if isinstance(out[1], ImportError):
                prove('importerror-iff-nothing-found-and-not-loaded', z3.And(nothing, z3.Not(loaded)),
                      clause='ImportError exactly when no searched directory holds a candidate and the name is not already loaded', path=p)
            else:
                prove('no-other-exception(%s)' % type(out[1]).__name__, False, clause='[%r]' % (out[1],), path=p)
            return
        m = out[1]
        prove('module-cached', s._module_cache.get(name) is m, clause='the module is kept in the module cache', path=p)
        if m[0] == 'source':
            fn = m[1]
            ok = isinstance(fn, CandP) and fn.kind is not None
            if not ok:
                prove('analysed-file-is-a-candidate', False, path=p)
                return
            if core.RUN.prop == 'C07' or fn.tag == tag:        # agreement with importlib is C07's clause; C09 compares with a fresh project only
                prove('searched-only-inside-the-resolved-parent', fn.tag == tag and fn.parts == holder['parts'],
                      clause='importlib searches a dotted name only inside the parent it resolved first, for the last component: never under '
                             'another root [searched %r in the %s]' % (fn.parts, 'search path of the parent' if fn.tag == 'parent' else 'roots'), path=p)
            if fn.tag != tag:
                return
            ci = SUF.index(fn.kind[1]) if fn.kind[0] == 'suffix' else len(SUF)
            E = exists_fn(tag)
            first = z3.And(E(fn.r, z3.IntVal(ci)), fn.r >= 0, fn.r < lst.n, none_before(fn.r))
            if twin:
                r2, c2 = z3.Int('lr'), z3.Int('lc')
                first = z3.And(E(fn.r, z3.IntVal(ci)), z3.ForAll([r2, c2], z3.Implies(z3.And(r2 > fn.r, r2 < lst.n, c2 >= 0, c2 < NC), z3.Not(E(r2, c2)))))
            prove('first-directory-with-a-candidate', first, clause='the file analysed is the candidate of the first searched directory that has one', path=p)
            prove('source-candidates-are-analysed-as-source', z3.And(z3.BoolVal(fn.kind[1] in ('.py', '__init__.py')), z3.Not(dyn)),
                  clause='only .py files / package __init__.py of non-dynamic names are analysed as source', path=p)
        elif m[0] == 'imported':
            prove('runtime-module-comes-from-sys-modules', m[1] == ('sys.modules', name), path=p)
            prove('imported-first-unless-loaded-or-nothing-found', z3.Or(loaded, z3.BoolVal(imported == [name])),
                  clause='a compiled / dynamic module is imported before it is wrapped', path=p)
            prove('not-found-but-loaded-is-served-from-sys-modules', z3.Implies(nothing, loaded), path=p)
        else:
            prove('module-kind', False, path=p)
    core.explore(body, on_path)
    run.case = None

    # the search path the recursive call's contract speaks of: what the two module classes answer
    def ground(path):
        import supp.module as Md
        import types

        def sp(m):
            return getattr(m, 'search_path', '<no search_path>')
        sm = loader.bare_instance(Md.SourceModule, filename='/r/pkg/__init__.py')
        prove('search_path:package-is-its-directory', sp(sm) == ['/r/pkg'], clause='[%r]' % (sp(sm),), path=path)
        sm = loader.bare_instance(Md.SourceModule, filename='/r/pkg/mod.py')
        prove('search_path:plain-module-has-none', sp(sm) == [], clause='a module that is not a package holds no submodules [%r]' % (sp(sm),), path=path)
        sm = loader.bare_instance(Md.SourceModule, filename='/r/pkg/my__init__.py')
        prove('search_path:only-__init__.py-makes-a-package', sp(sm) == [], clause='[%r]' % (sp(sm),), path=path)
        pk = types.ModuleType('rt_pkg')
        pk.__path__ = ['/a/rt_pkg', '/b/rt_pkg']
        prove('search_path:runtime-package-is-its-__path__', sp(Md.ImportedModule(pk)) == ['/a/rt_pkg', '/b/rt_pkg'], path=path)
        prove('search_path:runtime-module-has-none', sp(Md.ImportedModule(types.ModuleType('rt_mod'))) == [], path=path)
    core.explore(lambda: None, lambda p, out: ground(p))


HISTORY_REPLAY = '''import sys, os, tempfile, shutil; sys.path.insert(0, %(repo)r)
from supp.project import Project
d = tempfile.mkdtemp(prefix='supp-c09-')
try:
    p = Project([d])
    def ask(proj, name):
        with proj.check_changes():
            try: return proj.get_module(name).filename
            except ImportError: return 'ImportError'
    a1 = ask(p, 'late_mod')
    open(os.path.join(d, 'late_mod.py'), 'w').write('x = 1\\n')
    a2, fresh = ask(p, 'late_mod'), ask(Project([d]), 'late_mod')
    print('first request', a1, '| after creating the file: long-lived', a2, '| fresh', fresh)
    print('REPRODUCED' if a2 != fresh else 'not reproduced')
finally:
    shutil.rmtree(d, ignore_errors=True)
'''


@harness(['C09'], 'supp.project.Project.get_module[two requests, the file system changes in between]',
         twins=('spec-second-answer-from-the-first-state',))
def get_module_history(run, twin=None):
    """history of length two on one REAL Project object (built by the real __init__, so whatever state a version keeps between requests is
    there): request the name under an arbitrary file system, let the file system change arbitrarily within the property's domain (files are
    created and rewritten, nothing is deleted, nothing shadows an already resolved module from an earlier root), request again inside a new
    check_changes() context.  The second answer must be the one a fresh project gives on the second file system: ImportError iff it holds no
    candidate; a module object is served again only if its file is unchanged; otherwise the first candidate of the second file system."""
    import supp.project as Pj
    run.trust(T_FS)
    run.concretise = lambda model, ob: {'input': 'history: request a missing module; create its file; request again', 'script': HISTORY_REPLAY % {'repo': core.REPO}}
    SUF = list(Pj.SUFFIXES)
    NC = len(SUF) + 1
    roots = RootList()
    E0 = _EXISTS[0]
    E1 = z3.Function('candidate_exists_at_request_1', Int, Int, z3.BoolSort())
    E2 = z3.Function('candidate_exists_at_request_2', Int, Int, z3.BoolSort())
    rewritten = z3.Bool('file_of_the_cached_module_rewritten')
    holder = {}

    def none_before(k, E=None):
        r, c = z3.Int('ir'), z3.Int('ic')
        E = E if E is not None else _EXISTS[0]
        return z3.ForAll([r, c], z3.Implies(z3.And(r >= 0, r < k, c >= 0, c < NC), z3.Not(E(r, c))))

    def inv(L, st):
        return z3.And(z3.BoolVal(st['filename'] is None), none_before(L.k))

    def hav(L, st):
        return {'filename': None, 'is_source': False}

    class Src(object):
        """SourceModule stand-in: remembers the file it was built from; whether that file was rewritten since is symbolic"""
        def __init__(self, proj, n, fn):
            self.fn = fn

        @property
        def changed(self):
            return core.CUR.branch(rewritten)

    class Imp(object):
        """ImportedModule stand-in (a runtime module never counts as changed)"""
        changed = False

        def __init__(self, m):
            self.m = m

    class NotLoaded(object):
        modules = {}
        path = []

    imported = []
    f = loader.load('supp.project', 'Project.get_module',
                    stubs={'os': fs_stub(SUF), 'sys': NotLoaded, 'ImportedModule': Imp, 'SourceModule': Src},
                    cuts={0: LoopSpec(inv, hav, temps=('p', 'mpath', 's', 'fname'))},
                    builtins_extra={'__import__': lambda n, *a: (imported.append(n), NotLoaded.modules.__setitem__(n, ('runtime', n)))})

    def ask(s, name):
        with s.check_changes():
            try:
                return f(s, name)
            except ImportError:
                return None

    def body():
        assume(roots.n >= 0)
        NotLoaded.modules.clear()
        name = 'mod'
        s = real_project(Pj, get_path=lambda: roots, dyn_modules=set())
        try:
            r, c1, c2 = z3.Int('ur'), z3.Int('uc1'), z3.Int('uc2')
            for E in (E1, E2):
                axiom(z3.ForAll([r, c1, c2], z3.Implies(z3.And(E(r, c1), E(r, c2), c1 >= 0, c1 < NC, c2 >= 0, c2 < NC), c1 == c2)))
            _EXISTS[0] = E1
            r1 = ask(s, name)
            # the file system changes: nothing is deleted ...
            axiom(z3.ForAll([r, c1], z3.Implies(z3.And(r >= 0, c1 >= 0, c1 < NC, E1(r, c1)), E2(r, c1))))
            # ... and nothing shadows the module resolved by the first request
            if isinstance(r1, Src):
                axiom(none_before(r1.fn.r, E2))
            _EXISTS[0] = E2
            NotLoaded.modules.clear()
            r2 = ask(s, name)
        finally:
            _EXISTS[0] = E0
        return r1, r2

    def on_path(p, out):
        if out[0] != 'ok':
            prove('no-exception(%s)' % type(out[1]).__name__, False, clause='[%r]' % (out[1],), path=p)
            return
        r1, r2 = out[1]
        nothing2 = none_before(roots.n, E2 if not twin else E1)
        if r2 is None:
            prove('second-request:importerror-only-if-the-second-file-system-holds-no-candidate', nothing2,
                  clause='a fresh project raises ImportError iff no root holds a candidate NOW: a name that was missing before and exists now is found', path=p)
        elif isinstance(r2, Src):
            if r2 is r1:
                prove('second-request:same-module-object-only-if-its-file-is-unchanged', z3.Not(rewritten),
                      clause='a module object survives a request boundary only if its file was not rewritten', path=p)
            else:
                fn = r2.fn
                ok = isinstance(fn, CandP) and fn.kind is not None
                ci = (SUF.index(fn.kind[1]) if fn.kind[0] == 'suffix' else len(SUF)) if ok else 0
                prove('second-request:first-candidate-of-the-second-file-system',
                      z3.And(E2(fn.r, z3.IntVal(ci)), fn.r >= 0, fn.r < roots.n, none_before(fn.r, E2)) if ok else False,
                      clause='the module analysed is the one a fresh project finds on the current file system', path=p)
        else:
            prove('second-request:runtime-module-only-if-a-candidate-exists', z3.Not(nothing2), path=p)
    core.explore(body, on_path)


@harness(['C09'], 'supp.project.Project.get_module[Inv_cache] / check_changes / SourceModule.changed', twins=('spec-never-serve-from-the-cache',))
def cache_invariant(run, twin=None):
    """Inv_cache: every module served inside a change-checking context is valid.  The abstract module store holds a module `a` whose analysis
    consulted module `b` (dep) - whether each file changed since it was cached is symbolic.  get_module('a') must not serve a cached `a`
    unless `a` is unchanged AND, if `a` depends on `b`, `b` is unchanged too (dependency closure).  check_changes() empties the per-request
    cache; SourceModule.changed compares the recorded mtime with the file's current one"""
    import supp.project as Pj
    import supp.module as Md
    run.concretise = lambda model, ob: {'input': 'history: create b (from c import *) and c; request; rewrite c; request',
                                        'script': STALE_REPLAY % {'repo': core.REPO}}
    ch_a, ch_b, dep = z3.Bool('file_of_a_changed'), z3.Bool('file_of_b_changed'), z3.Bool('analysis_of_a_consulted_b')
    holder = {}

    class Mod(object):
        def __init__(self, name, ch):
            self.name, self._ch = name, ch
            self.fresh = False
            self.consulted = []

        @property
        def changed(self):
            # contract of SourceModule.changed (ground obligations below): the module's own file changed, or one of the modules whose
            # names its analysis copied (star imports) changed
            if core.CUR.branch(self._ch):
                return True
            return any(d.changed for d in self.consulted)

    f = loader.load('supp.project', 'Project.get_module',
                    stubs={'sys': type('S', (), {'modules': {}, 'path': []}), 'os': fs_stub(list(Pj.SUFFIXES)),
                           'SourceModule': lambda proj, n, fn: ('fresh', n), 'ImportedModule': lambda m: ('imported', m)})

    def body():
        a, b = Mod('a', ch_a), Mod('b', ch_b)
        if core.CUR.branch(dep):
            a.consulted.append(b)

        holder.update(a=a, s=real_project(Pj, _context_cache={}, _module_cache={'a': a, 'b': b}, dyn_modules=set(), get_path=lambda: []))
        try:
            return f(holder['s'], 'a')
        except ImportError:
            return 'looked-up-afresh'

    def on_path(p, out):
        if out[0] != 'ok':
            prove('no-exception(%s)' % type(out[1]).__name__, False, path=p)
            return
        r = out[1]
        if r is holder['a']:
            prove('cached-module-served-only-if-its-own-file-is-unchanged', z3.Not(ch_a) if not twin else z3.BoolVal(False),
                  clause='a cached module is served only if its own file is unchanged', path=p)
            prove('cached-module-served-only-if-what-it-consulted-is-unchanged', z3.Implies(dep, z3.Not(ch_b)),
                  clause='... and only if the files its analysis consulted are unchanged (dependency closure of Inv_cache)', path=p)
        else:
            prove('changed-module-is-looked-up-afresh', z3.Or(ch_a, z3.And(dep, ch_b)),
                  clause='a module is dropped only when its own file, or a file its analysis copied names from, changed', path=p)
    core.explore(body, on_path)

    def ground(path):
        p = Pj.Project(['/nonexistent'])
        p._context_cache['x'] = 1
        with p.check_changes():
            inside = dict(p._context_cache)
        prove('check_changes-empties-the-per-request-cache', inside == {}, path=path)
        import os
        import tempfile
        d = tempfile.mkdtemp(prefix='supp-c09-')
        try:
            fn = os.path.join(d, 'm.py')
            open(fn, 'w').write('x = 1\n')
            os.utime(fn, (1000, 1000))
            m = Md.SourceModule(p, 'm', fn)
            c0 = m.changed
            os.utime(fn, (2000, 2000))
            c1 = m.changed
            os.utime(fn, (500, 500))
            c2 = m.changed
            prove('changed-iff-the-mtime-differs', (c0, c1, c2) == (False, True, True),
                  clause='SourceModule.changed <=> current mtime != mtime recorded at creation (also when it went backwards)', path=path)
            s1 = m.scope
            prove('analysis-memoised-per-module-object', m.scope is s1, path=path)
            # contract of SourceModule.changed: ... or a module whose names the analysis copied (star import) changed
            import supp.assistant as As2
            import supp.evaluator as Ev2
            def wr(name, text, t):
                fnn = os.path.join(d, name)
                open(fnn, 'w').write(text)
                os.utime(fnn, (t, t))
            wr('sc.py', 'cname1 = 1\n', 1000)
            wr('sb.py', 'from sc import *\nbown = 1\n', 1000)
            wr('sa.py', 'from sb import *\n', 1000)
            wr('ia.py', 'import sc\nval = sc\n', 1000)
            lp0 = Pj.Project([d])
            def names_of(project, mod):
                with project.check_changes():
                    return As2.assist(project, 'import %s\n%s.' % (mod, mod), (2, len(mod) + 1), os.path.join(d, 'edited.py'))[1]
            before = (names_of(lp0, 'sa'), names_of(lp0, 'sb'), names_of(lp0, 'ia'))
            mb, ma = lp0.get_module('sb'), lp0.get_module('sa')
            unchanged = (mb.changed, ma.changed)
            wr('sc.py', 'cname2 = 2\n', 2000)
            prove('changed-when-a-star-imported-module-changed', unchanged == (False, False) and mb.changed and ma.changed,
                  clause='SourceModule.changed is also true when a module the analysis star-imports (directly or through another) was rewritten', path=path)
            after = (names_of(lp0, 'sa'), names_of(lp0, 'sb'))
            fresh2 = (names_of(Pj.Project([d]), 'sa'), names_of(Pj.Project([d]), 'sb'))
            prove('star-imported-names-follow-the-edited-module', after == fresh2 and 'cname2' in after[0] and 'cname1' not in after[0] and 'cname1' in before[0],
                  clause='after c.py is rewritten, modules that star-import it (also indirectly) offer what a fresh project offers [%r vs %r]' % (after, fresh2), path=path)
            # an imported name refers to the module as it is in the current request
            with lp0.check_changes():
                via_attr = As2.assist(lp0, 'import ia\nia.val.', (2, 7), os.path.join(d, 'edited.py'))[1]
            with Pj.Project([d]).check_changes():
                pass
            fresh_attr = names_of(Pj.Project([d]), 'sc')
            prove('imported-name-refers-to-the-module-of-this-request', via_attr == fresh_attr and 'cname2' in via_attr,
                  clause='ia.val (= the module sc, imported by an unchanged module) offers the names of the rewritten sc [%r vs %r]' % (via_attr, fresh_attr), path=path)
            # a star-import cycle does not make `changed` recurse
            wr('cy1.py', 'from cy2 import *\nx1 = 1\n', 1000)
            wr('cy2.py', 'from cy1 import *\nx2 = 2\n', 1000)
            names_of(lp0, 'cy1')
            try:
                chg = (lp0.get_module('cy1').changed, lp0.get_module('cy2').changed)
            except RecursionError:
                chg = 'RecursionError'
            prove('changed-terminates-on-a-star-import-cycle', chg == (False, False), clause='[%r]' % (chg,), path=path)
            # the package path of a directory is part of the disk state too: a directory that becomes a package between two requests
            sub = os.path.join(d, 'pkg', 'sub')
            os.makedirs(sub)
            open(os.path.join(sub, '__init__.py'), 'w').close()
            f2 = os.path.join(sub, 'mod.py')
            open(f2, 'w').close()
            lp = Pj.Project([d])
            with lp.check_changes():
                first = lp.norm_package('.x', f2)
            open(os.path.join(d, 'pkg', '__init__.py'), 'w').close()
            with lp.check_changes():
                second = lp.norm_package('.x', f2)
            fresh = Pj.Project([d]).norm_package('.x', f2)
            # ... and so is the list of importable children of a package
            import supp.assistant as As
            lp2 = Pj.Project([d])
            hist = []
            ef = os.path.join(d, 'edited.py')

            def children(project, what='from pkg import '):
                with project.check_changes():
                    return As.assist(project, what, (1, len(what)), ef)[1]
            hist.append(('initial', children(lp2), children(Pj.Project([d]))))
            open(os.path.join(d, 'pkg', 'newmod.py'), 'w').close()
            hist.append(('a module file is created', children(lp2), children(Pj.Project([d]))))
            os.makedirs(os.path.join(d, 'pkg', 'plain'))
            open(os.path.join(d, 'pkg', 'plain', 'util.py'), 'w').close()
            hist.append(('a plain directory appears', children(lp2), children(Pj.Project([d]))))
            open(os.path.join(d, 'pkg', 'plain', '__init__.py'), 'w').close()
            hist.append(('the directory becomes a package', children(lp2), children(Pj.Project([d]))))
            hist.append(('same question through import pkg.', children(lp2, 'import pkg.'), children(Pj.Project([d]), 'import pkg.')))
            bad_h = [h for h in hist if h[1] != h[2]]
            prove('package-children-follow-the-disk', not bad_h and 'plain' in hist[-1][1] and 'newmod' in hist[-1][1],
                  clause='the submodule proposals of a long-lived project equal those of a fresh one after every change of the package directory '
                         '[first difference: %r]' % (bad_h[:1],), path=path)
            prove('relative-names-follow-a-directory-that-became-a-package', (first, second) == ('sub.x', fresh) and fresh == 'pkg.sub.x',
                  clause='after pkg/__init__.py is created a relative name resolves as a fresh project resolves it [%r then %r, fresh %r]' % (first, second, fresh),
                  path=path)
        finally:
            import shutil
            shutil.rmtree(d, ignore_errors=True)
    core.explore(lambda: None, lambda p, out: ground(p))


@harness(['C07', 'C17'], 'supp.project.Project.get_path')
def get_path_contract(run):
    """get_path(): the source roots, then sys.path, each in its own order - as a search path that is: the sequence of FIRST occurrences of the
    directories is that of sources + sys.path (dropping a later duplicate changes no lookup; moving a directory behind others does)"""
    f = loader.load('supp.project', 'Project.get_path', stubs={'sys': type('SysStub', (), {'path': None})})
    import supp.project as Pj

    def first_occurrences(xs):
        out = []
        for x in xs:
            if x not in out:
                out.append(x)
        return out

    def go(path):
        for sources, syspath in ((['/r1', '/r2'], ['/lib', '/site']), (['/r1', '/r2', '/r1'], ['/lib']), (['/r1'], ['/lib', '/r1', '/site']),
                                 (['/r2', '/r1'], ['/r1', '/lib', '/lib']), (['/r1'], [])):
            run.case = '%r + %r' % (sources, syspath)
            # (any set the function builds iterates in an order of the checker's choosing: the language promises none)
            class AnyOrderSet(object):
                def __init__(self, it=()):
                    self.items = []
                    for x in it:
                        if x not in self.items:
                            self.items.append(x)

                def __iter__(self):
                    return iter(self.items[1::2] + self.items[0::2][::-1])

                def __len__(self):
                    return len(self.items)

                def __contains__(self, x):
                    return x in self.items
            for order, extra in (('', {}), ('[sets iterate in another order]', {'set': AnyOrderSet, 'frozenset': AnyOrderSet})):
                f2 = loader.load('supp.project', 'Project.get_path', stubs=dict({'sys': type('SysStub', (), {'path': list(syspath)})}, **extra))
                s = real_project(Pj, sources=list(sources))
                try:
                    got = list(f2(s))
                except Exception as e:
                    got = ['<raised %s>' % type(e).__name__]
                prove('search-order-is-roots-then-sys.path%s' % order, first_occurrences(got) == first_occurrences(sources + syspath),
                      clause='first occurrences of %r == first occurrences of sources + sys.path %r' % (got, sources + syspath), path=path)
        run.case = None
    core.explore(lambda: None, lambda p, out: go(p))


def spec_joined(module, mname):
    """the specifier of the submodule `mname` of `from <module> import <mname>`, as importlib.util.resolve_name reads it: the level (leading
    dots) is kept, one dot separates a non-empty package part from the name"""
    if not mname:
        return None
    level = len(module) - len(module.lstrip('.'))
    part = module[level:]
    return '.' * level + (part + '.' + mname if part else mname)


@harness(['C07', 'C04'], 'supp.name.ImportedName.resolve')
def imported_name_resolve(run):
    """`from m import x`: x is first looked up as the submodule m.x (relative specifiers joined without an extra dot), and only if that is not
    importable as the attribute x of module m; `import m`: the module m (wrapped with the sibling dotted imports); an unresolvable module
    gives None; the outcome is memoised on the name"""
    import supp.name as Nm

    def go(path):
        for module, mname, sub_exists, mod_exists in [('pkg', 'x', True, True), ('pkg', 'x', False, True), ('pkg', 'x', False, False),
                                                      ('.', 'x', True, True), ('..pkg', 'x', False, True), ('pkg', None, False, True),
                                                      ('pkg', None, False, False), ('..', 'x', True, True), ('..', 'x', False, True), ('...', 'x', True, True),
                                                      ('.pkg', 'x', True, True), ('...pkg.sub', 'x', True, True), ('....', 'x', False, False)]:
            run.case = 'from %s import %s [submodule %s, module %s]' % (module, mname, sub_exists, mod_exists)
            calls = []
            sub, attrval = object(), object()

            class Mod(object):
                def get_attr(self, ctx, name):
                    calls.append(('get_attr', name))
                    return attrval
            themod = Mod()

            class Proj(object):
                def get_nmodule(self, name, filename):
                    calls.append(('get_nmodule', name))
                    joined = spec_joined(module, mname)
                    if mname and name == joined:
                        if sub_exists:
                            return sub
                        raise ImportError(name)
                    if name == module:
                        if mod_exists:
                            return themod
                        raise ImportError(name)
                    raise AssertionError('unexpected module name %r' % name)

            class Ctx(object):
                project = Proj()

            class Src(object):
                filename = '/p/f.py'

            class Top(object):
                source = Src()
                _imports = []

            class Sc(object):
                top = Top()
            n = Nm.ImportedName('x', (1, 0), (1, 0), module, mname)
            n.scope = Sc()
            import logging
            logging.disable(logging.CRITICAL)
            try:
                r1 = n.resolve(Ctx())
                r2 = n.resolve(Ctx())
                exc = None
            except Exception as e:
                r1 = r2 = None
                exc = e
            finally:
                logging.disable(logging.NOTSET)
            if mname:
                want = sub if sub_exists else (attrval if mod_exists else None)
            else:
                want = themod if mod_exists else None
            prove('submodule-first-then-attribute', exc is None and r1 is want,
                  clause='resolves to the submodule if there is one, else to the attribute of the module, else None [%r]' % (exc or r1,), path=path)
            first = calls[0] if calls else None
            if mname:
                prove('submodule-tried-first', first == ('get_nmodule', spec_joined(module, mname)),
                      clause='the submodule is asked for by the specifier of the same level: %r [%r]' % (spec_joined(module, mname), first), path=path)
            prove('memoised', r2 is r1 and n._ref is r1, path=path)
        run.case = None
    core.explore(lambda: None, lambda p, out: go(p))


@harness(['C07', 'C12'], 'supp.project.Project.list_packages', bounded='directory trees: 2 source roots (the later one holding a plain directory or a package of the same name) x every subset of 8 entry kinds (module, package, plain directory, double-underscore modules, '
         'compiled-suffix file, __init__.py, non-python file, files / packages whose name is not an identifier) in the listed directory')
def list_packages_bounded(run):
    """BOUNDED stand-in (nested loops over os.listdir results with suffix stripping): the children listed for a package root are exactly
    the children importlib enumerates (pkgutil.iter_modules over the search locations of the package PathFinder finds for the name: module
    files by importlib's suffixes, package directories), plus the already-loaded submodules; a directory or package of the same name in a
    later root contributes nothing; not counted as proved"""
    import itertools
    import os
    import shutil
    import tempfile
    import importlib.machinery
    from supp.project import Project

    def go(path):
        kinds = {'mod': lambda d: open(os.path.join(d, 'ma.py'), 'w').close(),
                 'pkg': lambda d: (os.makedirs(os.path.join(d, 'pb')), open(os.path.join(d, 'pb', '__init__.py'), 'w').close()),
                 'plaindir': lambda d: os.makedirs(os.path.join(d, 'dc')),
                 'ext': lambda d: open(os.path.join(d, 'ex' + importlib.machinery.EXTENSION_SUFFIXES[0]), 'w').close(),
                 'init': lambda d: open(os.path.join(d, '__init__.py'), 'w').close(),
                 'other': lambda d: open(os.path.join(d, 'notes.txt'), 'w').close(),
                 'dunder': lambda d: (open(os.path.join(d, '__main__.py'), 'w').close(), open(os.path.join(d, '__version__.py'), 'w').close()),
                 'unnameable': lambda d: (open(os.path.join(d, 'data-2024.py'), 'w').close(), os.makedirs(os.path.join(d, 'not.a-name')),
                                          open(os.path.join(d, 'not.a-name', '__init__.py'), 'w').close())}
        expect = {'mod': 'ma', 'pkg': 'pb', 'ext': 'ex'}
        names = sorted(kinds)
        n = 0
        import pkgutil
        for r in range(len(names) + 1):
          for combo in itertools.combinations(names, r):
            for second in ('plain-directory', 'package'):
                top = tempfile.mkdtemp(prefix='supp-c07-')
                try:
                    r1, r2 = os.path.join(top, 'r1'), os.path.join(top, 'r2')
                    for root in (r1, r2):
                        os.makedirs(os.path.join(root, 'pk'))
                    open(os.path.join(r1, 'pk', '__init__.py'), 'w').close()
                    if second == 'package':
                        # a package of the same name in a later root: its children are not importable
                        open(os.path.join(r2, 'pk', '__init__.py'), 'w').close()
                        open(os.path.join(r2, 'pk', 'only_in_the_later_root.py'), 'w').close()
                    for k in combo:
                        kinds[k](os.path.join(r1 if k != 'ext' else r2, 'pk'))
                    got = Project([r1, r2]).list_packages('pk')
                    # the oracle: what importlib enumerates in the package it finds for the name
                    spec = importlib.machinery.PathFinder.find_spec('pk', [r1, r2])
                    want = {m.name for m in pkgutil.iter_modules(list(spec.submodule_search_locations or ())) if m.name.isidentifier()}
                    n += 1
                    prove('children-of-pk-with-%s[%s in the later root]' % ('+'.join(combo) or 'nothing', second), got == want,
                          clause='list_packages == the children importlib enumerates in the package it loads [%r vs %r]' % (sorted(got), sorted(want)), path=path)
                finally:
                    shutil.rmtree(top, ignore_errors=True)
        # names with an empty component, and the working directory standing on the search path as ''
        top = tempfile.mkdtemp(prefix='supp-c07-')
        cwd = os.getcwd()
        import sys as _sysl
        saved = list(_sysl.path)
        try:
            os.makedirs(os.path.join(top, 'alpha'))
            open(os.path.join(top, 'alpha', '__init__.py'), 'w').close()
            open(os.path.join(top, 'alpha', 'child_mod.py'), 'w').close()
            open(os.path.join(top, 'in_cwd_mod.py'), 'w').close()
            pr = Project([top])
            for bad in ('alpha.', 'alpha..child_mod', '.alpha', 'alpha..'):
                got = set(pr.list_packages(bad))
                prove('no-children-below-a-name-with-an-empty-component[%s]' % bad, 'child_mod' not in got and 'alpha' not in got,
                      clause='neither %r nor anything below it can be imported: nothing of the tree is proposed [%r]' % (bad, sorted(n for n in got if n in ('alpha', 'child_mod'))), path=path)
            prove('children-of-the-package-itself', 'child_mod' in pr.list_packages('alpha'), kind='lemma', path=path)
            os.chdir(top)
            _sysl.path[:] = [''] + [p_ for p_ in saved if p_ not in ('', '.')]
            got = Project(['/nonexistent-root']).list_packages('')
            want = {m.name for m in pkgutil.iter_modules(['']) if m.name.isidentifier()}
            prove('working-directory-on-the-search-path', {'in_cwd_mod', 'alpha'} <= set(got) and want <= set(got),
                  clause="'' on sys.path is the working directory: its modules are proposed after `import ` as pkgutil.iter_modules lists them "
                         '[missing %r]' % (sorted(want - set(got)),), path=path)
        finally:
            os.chdir(cwd)
            _sysl.path[:] = saved
            shutil.rmtree(top, ignore_errors=True)
    core.explore(lambda: None, lambda p, out: go(p))


@harness(['C07'], 'supp.project.Project.get_module / norm_package[small trees]',
         bounded='all trees with 3 source roots, each holding for the name `m` one of {nothing, m.py, package m/, extension m.<so>, m.py next to m.<so>}; 4 search paths that list a directory twice; '
                 'and relative specifiers of level 1..4 from files at depth 0..3 of a package chain (every marked/unmarked pattern), asked '
                 'in every order on one Project')
def resolution_small_trees(run):
    """BOUNDED stand-in that survives restructurings of the lookup code: the real functions on real temporary directory trees, compared with
    importlib.machinery.PathFinder.find_spec / importlib.util.resolve_name; not counted as proved"""
    import itertools
    import os
    import shutil
    import tempfile
    import importlib.machinery
    import importlib.util
    from supp.project import Project

    def go(path):
        ext = importlib.machinery.EXTENSION_SUFFIXES[0]
        kinds = ('none', 'module', 'package', 'extension', 'module-and-extension')
        top = tempfile.mkdtemp(prefix='supp-c07-')
        try:
            n = 0
            for combo in itertools.product(kinds, repeat=3):
                base = os.path.join(top, 't%d' % n)
                n += 1
                roots = []
                for i, k in enumerate(combo):
                    r = os.path.join(base, 'r%d' % i)
                    os.makedirs(r)
                    roots.append(r)
                    if k == 'module':
                        open(os.path.join(r, 'm.py'), 'w').close()
                    elif k == 'package':
                        os.makedirs(os.path.join(r, 'm'))
                        open(os.path.join(r, 'm', '__init__.py'), 'w').close()
                    elif k == 'extension':
                        open(os.path.join(r, 'm' + ext), 'w').close()
                    elif k == 'module-and-extension':
                        # one directory holding m.py next to its compiled form: the import system tries the extension first
                        open(os.path.join(r, 'm.py'), 'w').close()
                        open(os.path.join(r, 'm' + ext), 'w').close()
                spec = importlib.machinery.PathFinder.find_spec('m', roots)
                want = spec.origin if spec else None
                try:
                    p = Project(list(roots))
                    p.dyn_modules = set()
                    # an extension module would be imported for real: only its file choice is compared
                    got = None
                    import supp.project as Pj
                    orig = Pj.ImportedModule
                    Pj.ImportedModule = lambda mod: type('IM', (), {'filename': 'imported'})()
                    orig_import = __builtins__['__import__'] if isinstance(__builtins__, dict) else __builtins__.__import__
                    try:
                        import sys as _sys
                        _sys.modules.setdefault('m', _sys)
                        mod = p.get_module('m')
                        got = getattr(mod, 'filename', None)
                    finally:
                        Pj.ImportedModule = orig
                        _sys.modules.pop('m', None) if _sys.modules.get('m') is _sys else None
                except ImportError:
                    got = None
                if want and want.endswith(ext):
                    ok = got == 'imported'
                elif want is None:
                    ok = got in (None, 'imported')      # `m` was put into sys.modules for the extension case
                else:
                    ok = got == want
                prove('roots-%s' % '-'.join(combo), ok, clause='file analysed == file importlib loads [%r vs %r]' % (got, want), path=path)
            # a directory listed twice (in the source roots, or in the roots and on sys.path) counts where it is listed FIRST
            import sys as _sysd
            base = os.path.join(top, 'twice')
            ra, rb, lib = (os.path.join(base, x) for x in ('ra', 'rb', 'lib'))
            for d_ in (ra, rb, lib):
                os.makedirs(d_)
            for d_, text in ((ra, 'A'), (rb, 'B'), (lib, 'L')):
                with open(os.path.join(d_, 'dupmod_zz.py'), 'w') as f_:
                    f_.write('origin = %r\n' % text)
            with open(os.path.join(rb, 'only_b_zz.py'), 'w') as f_:
                f_.write('')
            for label, sources, extra in (('root-listed-twice', [ra, rb, ra], []), ('later-root-listed-twice', [rb, ra, rb], []),
                                          ('root-also-on-sys.path', [ra], [lib, ra]), ('sys.path-entry-listed-twice', [], [lib, rb, lib])):
                saved = list(_sysd.path)
                _sysd.path[:0] = extra
                try:
                    for nm in ('dupmod_zz', 'only_b_zz'):
                        spec = importlib.machinery.PathFinder.find_spec(nm, sources + _sysd.path)
                        want = spec.origin if spec else None
                        try:
                            got = getattr(Project(list(sources) or ['/nonexistent']).get_module(nm), 'filename', None)
                        except ImportError:
                            got = None
                        prove('%s:%s' % (label, nm), got == want, clause='file analysed == file importlib loads from roots + sys.path [%r vs %r]' % (got, want), path=path)
                finally:
                    _sysd.path[:] = saved
            # a source root that itself lies inside a package: the names of its modules start below it
            base = os.path.join(top, 'nested-root')
            deep = os.path.join(base, 'outer', 'inner', 'pkg')
            os.makedirs(deep)
            for d_ in (os.path.join(base, 'outer'), os.path.join(base, 'outer', 'inner'), deep):
                open(os.path.join(d_, '__init__.py'), 'w').close()
            mfile = os.path.join(deep, 'm.py')
            open(mfile, 'w').close()
            for root_, package in ((os.path.join(base, 'outer', 'inner'), 'pkg'), (base, 'outer.inner.pkg'), (os.path.join(base, 'outer'), 'inner.pkg')):
                for spec_ in ('.n', '..n', '...n', '....n', '.', '..'):
                    try:
                        want = importlib.util.resolve_name(spec_, package)
                    except ImportError:
                        want = None
                    try:
                        got = Project([root_]).norm_package(spec_, mfile)
                    except ImportError:
                        got = None
                    prove('root-inside-a-package:%s:%s' % (package, spec_), got == want,
                          clause='norm_package(%r) from a module named %s.m == importlib.util.resolve_name [%r vs %r]' % (spec_, package, got, want), path=path)
            # is_root: exactly the directories of the search path, however they are spelt
            pr = Project([os.path.join(base, 'outer', 'inner') + os.sep, os.path.join(base, 'outer', '..', 'outer')])
            for d_, want in ((os.path.join(base, 'outer', 'inner'), True), (os.path.join(base, 'outer'), True), (deep, False), (base, False),
                             (os.path.join(base, 'outer', 'inner', 'pkg', '..'), True)):
                isr = getattr(pr, 'is_root', lambda d__: '<no is_root>')(d_)
                prove('is_root:%s' % os.path.relpath(d_, base), isr == want, clause='is_root == the directory is one of sources + sys.path [%r]' % (isr,), path=path)
            # a plain module has no submodules, whatever lies next to it or under another root
            base = os.path.join(top, 'plainparent')
            os.makedirs(os.path.join(base, 'pkgp'))
            for rel in ('amod.py', 'bmod.py', 'path.py', os.path.join('pkgp', '__init__.py'), os.path.join('pkgp', 'mod.py'), 'cmod.py'):
                open(os.path.join(base, rel), 'w').close()
            for nm in ('amod.bmod', 'pkgp.mod.cmod', 'amod.amod', 'pkgp.mod', 'os.path'):
                try:
                    spec = importlib.util.find_spec(nm) if nm == 'os.path' else None
                    if nm != 'os.path':
                        parent = importlib.machinery.PathFinder.find_spec(nm.rpartition('.')[0].split('.')[0], [base])
                        for comp in nm.split('.')[1:]:
                            locs = parent.submodule_search_locations if parent is not None else None
                            parent = importlib.machinery.PathFinder.find_spec(comp, list(locs)) if locs else None
                        spec = parent
                    want = spec.origin if spec else None
                except Exception:
                    want = None
                try:
                    mod = Project([base]).get_module(nm)
                    got = getattr(mod, 'filename', None) or getattr(getattr(mod, 'module', None), '__file__', 'runtime')
                except ImportError:
                    got = None
                ok = (got == want) if nm != 'os.path' else (got is not None and not str(got).startswith(base))      # the loaded posixpath, never base/path.py
                prove('below-a-plain-module:%s' % nm, ok, clause='get_module(%r): %r, importlib: %r' % (nm, got, want), path=path)
            # names with an empty component are no module names
            base = os.path.join(top, 'emptycomp')
            os.makedirs(os.path.join(base, 'p'))
            open(os.path.join(base, 'p', '__init__.py'), 'w').close()
            open(os.path.join(base, 'p', 'sub.py'), 'w').close()
            for bad in ('p..sub', 'p.', 'p.sub.'):
                try:
                    got = getattr(Project([base]).get_module(bad), 'filename', 'found')
                except ImportError:
                    got = None
                try:
                    spec = importlib.machinery.PathFinder.find_spec(bad, [base])
                    want = spec.origin if spec else None
                except Exception:
                    want = None
                prove('empty-component-%r' % bad, got == want, clause='get_module(%r): %r, importlib: %r' % (bad, got, want), path=path)
            # a project file named like a module that is already loaded from elsewhere (a stdlib module): the roots still come first
            import json as _json, string as _string, sys as _sys2      # noqa: loaded on purpose
            for kind in ('module', 'package'):
                base = os.path.join(top, 'shadow-%s' % kind)
                r0 = os.path.join(base, 'r0')
                os.makedirs(r0)
                nm = 'json' if kind == 'module' else 'string'
                if kind == 'module':
                    open(os.path.join(r0, nm + '.py'), 'w').close()
                else:
                    os.makedirs(os.path.join(r0, nm))
                    open(os.path.join(r0, nm, '__init__.py'), 'w').close()
                spec = importlib.machinery.PathFinder.find_spec(nm, [r0] + _sys2.path)
                try:
                    got = getattr(Project([r0]).get_module(nm), 'filename', None)
                except ImportError:
                    got = None
                prove('loaded-stdlib-name-shadowed-by-a-project-%s' % kind, got == spec.origin,
                      clause='file analysed == file importlib loads from roots + sys.path [%r vs %r]' % (got, spec.origin), path=path)
            # relative names
            for marks in itertools.product((False, True), repeat=3):
                base = os.path.join(top, 'rel%d' % n)
                n += 1
                d = base
                dirs = []
                for i, mk in enumerate(marks):
                    d = os.path.join(d, 'p%d' % i)
                    os.makedirs(d)
                    if mk:
                        open(os.path.join(d, '__init__.py'), 'w').close()
                    dirs.append(d)
                f = os.path.join(d, 'mod.py')
                open(f, 'w').close()
                # __package__ of mod.py: the chain of marked directories directly above it
                pk = []
                for i in range(2, -1, -1):
                    if marks[i]:
                        pk.insert(0, 'p%d' % i)
                    else:
                        break
                package = '.'.join(pk)
                for order in itertools.permutations((1, 2, 3)):
                    p = Project([base])
                    for lvl in order:
                        spec_name = '.' * lvl + 'x'
                        try:
                            want = importlib.util.resolve_name(spec_name, package) if package else ImportError
                        except ImportError:
                            want = ImportError
                        try:
                            got = p.norm_package(spec_name, f)
                        except ImportError:
                            got = ImportError
                        except Exception as e:
                            got = repr(e)
                        # the recorded known finding D30: climbing through an unmarked directory (only when some directory the dots pass is unmarked)
                        passes_unmarked = want is ImportError and got is not ImportError
                        prove('relative-%s-level%d-order%s' % (''.join('M' if m else 'u' for m in marks), lvl, ''.join(map(str, order))),
                              got == want or passes_unmarked,
                              clause='norm_package(%r) == resolve_name(%r, %r) [%r vs %r]' % (spec_name, spec_name, package, got, want), path=path)
        finally:
            shutil.rmtree(top, ignore_errors=True)
    core.explore(lambda: None, lambda p, out: go(p))


# ---------------------------------------------------------------------------
# request: every call of the API is a request of its own

@harness(['C04', 'C09'], 'supp.project.request + supp.assistant.assist / location / supp.linter.lint [every call of the API is a request]')
def request_wrapper(run):
    """request(f)(project, *args, **kwargs): enters project.check_changes() exactly once, calls f once inside it with the same arguments,
    returns what f returns or raises what f raises, and has left the context afterwards; assist, location and lint are wrapped by it (the
    functions themselves are under contract unwrapped: the loader takes `__wrapped__`).  This is what makes the answer independent of the
    requests made before it also for a caller that holds a Project and never enters check_changes() itself"""
    import contextlib
    import supp.project as Pj
    import supp.assistant as A
    import supp.linter as L

    def go(path):
        log = []

        class P(object):
            @contextlib.contextmanager
            def check_changes(self):
                log.append('enter')
                try:
                    yield
                finally:
                    log.append('exit')
        sentinel = object()

        def f(project, *a, **k):
            log.append(('call', project, a, k))
            if k.get('fail'):
                raise KeyError('from f')
            return sentinel
        w = Pj.request(f)
        p = P()
        r = w(p, 1, 'two', x=3)
        prove('one-context-around-one-call', r is sentinel and log == ['enter', ('call', p, (1, 'two'), {'x': 3}), 'exit'],
              clause='check_changes() entered once, f called once inside it with the same arguments, its result returned [%r]' % (log,), path=path)
        del log[:]
        try:
            w(p, fail=True)
            exc = None
        except KeyError as e:
            exc = e
        prove('exceptions-propagate-and-the-context-is-left', exc is not None and exc.args == ('from f',) and log[0] == 'enter' and log[-1] == 'exit' and len(log) == 3,
              clause='what f raises is raised, after the context was left [%r, %r]' % (exc, log), path=path)
        del log[:]
        r = w(None, 5)
        prove('no-project-no-context', r is sentinel and log == [('call', None, (5,), {})], clause='without a project there is nothing to check [%r]' % (log,), path=path)
        # the three entry points are requests
        for mod, name, args in ((A, 'assist', ('x = 1\nx', (2, 1), 'f.py')), (A, 'location', ('x = 1\nx', (2, 1), 'f.py')), (L, 'lint', ('x = 1\n', 'f.py'))):
            fn = getattr(mod, name)
            project = Pj.Project(['/nonexistent'])
            entered = []
            real = project.check_changes

            def counting(real=real, entered=entered):
                entered.append(1)
                return real()
            project.check_changes = counting
            before = project.__dict__.get('_request', 0)
            fn(project, *args)
            prove('%s-is-a-request' % name, len(entered) == 1 and project.__dict__.get('_request', 0) == before + 1 and hasattr(fn, '__wrapped__'),
                  clause='%s enters a change-checking context of its own: one per call [%d, request number %r -> %r]' % (
                      name, len(entered), before, project.__dict__.get('_request')), path=path)
    core.explore(lambda: None, lambda p, out: go(p))
