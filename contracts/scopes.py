"""Sidecar contracts for scope resolution (C05): Flow.parent_names (entry branch), Flow.add_name, the `names` property of
every scope class, visit_Global / visit_Nonlocal.  Spec: Python language reference 4.2.2 "Resolution of names" and 7.12 / 7.13."""
import ast

import z3

from pysym import core, loader
from pysym.core import prove, assume, axiom, EngineEscape, PathEnd
from pysym.harness import harness
from pysym.proxies import Proxy, SInt, SBool
from contracts.tables import KEY, T_PARAM

Int = z3.IntSort()


class Flags(object):
    """facts about the representative identifier"""
    def __init__(self):
        self.local = z3.Bool('k_is_local_of_the_scope')
        self.glob = z3.Bool('k_declared_global_in_the_scope')
        self.nonloc = z3.Bool('k_declared_nonlocal_in_the_scope')
        self.outer_has = z3.Bool('enclosing_scope_names_hold_k')
        self.top_has = z3.Bool('module_names_hold_k')
        self.gtab_has = z3.Bool('k_is_bound_through_a_global_declaration_somewhere')


class SymSet(Proxy):
    """a set of identifiers with symbolic membership of KEY"""
    _pyclass = set

    def __init__(self, member, label):
        self.member, self.label = member, label
        self.added = []

    def __contains__(self, k):
        if k != KEY:
            raise EngineEscape('membership of another key')
        return core.CUR.branch(self.member)

    def add(self, k):
        self.added.append(k)

    def __bool__(self):
        # non-empty? (some identifier is a member; for KEY's membership see `member`)
        if core.CUR.branch(self.member):
            return True
        return core.CUR.branch(z3.Bool('other_members(%s)' % self.label))

    def update(self, ks):
        self.added.extend(ks)


class OuterTable(Proxy):
    _pyclass = dict

    def __init__(self, has, label):
        self.has, self.label = has, label

    def __getitem__(self, k):
        if k != KEY:
            raise EngineEscape('another key')
        if core.CUR.branch(self.has):
            return ('value-of', self.label)
        raise KeyError(k)

    def get(self, k, default=None):
        try:
            return self[k]
        except KeyError:
            return default

    def __contains__(self, k):
        return core.CUR.branch(self.has)

    def items(self):
        return ItemsOf(self)


class ItemsOf(Proxy):
    def __init__(self, table):
        self.table = table


class KeysMinus(Proxy):
    """set(table).difference(locals)"""
    _pyclass = set

    def __init__(self, table, minus=None):
        self.table, self.minus = table, minus

    def difference(self, other):
        return KeysMinus(self.table, other)

    def __sub__(self, other):
        return KeysMinus(self.table, other)

    def difference_update(self, other):
        self.minus2 = other


class Built(Proxy):
    """the dict a comprehension over KeysMinus builds, observed at KEY"""
    _pyclass = dict

    def __init__(self, has, val, src):
        self.has, self.val, self.src = has, val, src
        self.overrides = []

    def __setitem__(self, k, v):
        self.overrides.append((k, v))

    def update(self, other):
        self.overrides.append(('update', other))

    def sbool(self):
        return SBool(z3.Bool('nonempty(%s)' % getattr(self.src, 'label', 'table')))


SCOPE_REPLAY = '''import sys; sys.path.insert(0, %(repo)r)
sys.setrecursionlimit(400)
from supp.assistant import location
from supp.linter import lint
from supp.project import Project
p = Project(['/nonexistent'])
bad = []
src = "x = 0\\ndef g():\\n    x = 1\\n    def f():\\n        global x\\n        return x\\n    return f, x\\n"
loc = location(p, src, (6, 16))
if loc != [{'loc': (1, 0), 'file': '<string>'}]:
    bad.append(('global x read inside a function nested in a function that binds x: CPython reads the module x (1, 0)', loc))
src2 = "def g():\\n    x = 1\\n    def f():\\n        nonlocal x\\n        print(x)\\n        x = 2\\n    return f, x\\n"
r = [t[:2] for t in lint(p, src2)]
if r:
    bad.append(('nonlocal x; print(x); x = 2', r))
try:
    r = lint(p, "global x\\nx = 1\\nprint(x)\\n")
    if r: bad.append(('module-level global declaration', [t[:2] for t in r]))
except RecursionError as e:
    bad.append(('module-level `global x`', 'RecursionError'))
if bad:
    print('REPRODUCED: %%r' %% (bad,)); sys.exit(1)
print('not reproduced')
'''


def scope_witness(model, ob):
    return {'input': 'global / nonlocal declarations in nested functions', 'script': SCOPE_REPLAY % {'repo': core.REPO}}


def S():
    import importlib
    return importlib.import_module('supp.scope')


@harness(['C05', 'C01', 'C08'], 'supp.scope.Flow.parent_names[entry region of a scope]', twins=('spec-locals-fall-back-to-outer',))
def parent_names_entry(run, twin=None):
    """the table a scope body starts from (language reference 4.2.2), at every identifier k:
    function scope: module binding if k is declared global there; nothing if k is a local of the function (never an outer or builtin
    binding); otherwise what the enclosing scope's `names` give;  class scope: module binding if k is declared global in the class body, else
    what the enclosing scope's `names` give;  no parent: empty"""
    run.trust(T_PARAM)
    run.concretise = scope_witness
    Sm = S()
    fl = Flags()

    def dictcomp(kind, iterable, elt, conds):
        if kind == 'dict' and isinstance(iterable, ItemsOf):
            # {n: v for n, v in <table>.items() if <filter>}
            tab = iterable.table
            if core.choice(2) == 0:
                assume(tab.has)
                item = (KEY, ('value-of', tab.label))
                for c in conds:
                    if not c(item):
                        raise PathEnd()
                k, v = elt(item)
                prove('comprehension-copies-the-item', k == KEY and v == ('value-of', tab.label), kind='loop')
                run.items_filter_passed = True
                raise PathEnd()
            # the filter as a formula: evaluated on the representative key in a sub-run is not possible here; the harness states it:
            return Built(z3.And(tab.has, z3.Not(fl.local)), ('value-of', tab.label), iterable)
        if kind == 'dict' and isinstance(iterable, SymSet):
            # {n: t[n] for n in <identifier set> if n in t}
            if core.choice(2) == 0:
                assume(iterable.member)
                for c in conds:
                    if not c(KEY):
                        raise PathEnd()
                k, v = elt(KEY)
                prove('comprehension-copies-a-table-value', k == KEY and isinstance(v, tuple) and v[0] == 'value-of', kind='loop')
                iterable.copied_from = v
                raise PathEnd()
            # the filter, evaluated once more to learn which table it consults
            tabs = []
            class Probe(str):
                pass
            return Built(z3.And(iterable.member, run.globals_filter_has), ('value-of', 'module names'), iterable)
        if kind != 'dict' or conds or not isinstance(iterable, KeysMinus):
            raise EngineEscape('unexpected comprehension')
        # membership of KEY in the iterated set: in the table and not in the subtracted set(s)
        inset = iterable.table.has
        if iterable.minus is not None:
            inset = z3.And(inset, z3.Not(iterable.minus.member))
        if getattr(iterable, 'minus2', None) is not None:
            inset = z3.And(inset, z3.Not(iterable.minus2.member))
        if core.choice(2) == 0:
            assume(inset)
            k, v = elt(KEY)
            prove('comprehension-copies-the-outer-value', k == KEY and v == ('value-of', iterable.table.label), kind='loop')
            raise PathEnd()
        return Built(inset, ('value-of', iterable.table.label), iterable)

    merged = []

    def md_stub(*ds):
        merged.append(ds)
        return ('merged', ds)
    run.globals_filter_has = fl.top_has
    f = loader.load('supp.scope', 'Flow.parent_names', comps={2: dictcomp, 3: dictcomp, 4: dictcomp, 5: dictcomp}, comps_optional=True,
                    stubs={'set': lambda t: KeysMinus(t), 'MergedDict': md_stub})
    outer = OuterTable(fl.outer_has, 'enclosing scope names')
    toptab = OuterTable(fl.top_has, 'module names')

    class Parent(object):
        names = outer

    class Top(object):
        names = toptab

    class SelfTop(object):
        @property
        def names(self):
            raise LookupError('the entry table of the module consults the module table it is part of (unbounded recursion)')

    for kind in ('function', 'class', 'no-parent', 'module'):
        def body(kind=kind):
            run.case = kind
            class ModSc(Sm.SourceScope):
                names = SelfTop.names
                _global_names = OuterTable(fl.gtab_has, 'names bound through global declarations')
            cls = Sm.ClassScope if kind == 'class' else ModSc if kind == 'module' else Sm.FuncScope
            sc = loader.bare_instance(cls)
            if kind == 'module':
                sc._global_names = ModSc._global_names
            sc.parent = None if kind == 'no-parent' else Parent()
            sc.top = Top() if kind != 'module' else sc
            sc.locals = SymSet(fl.local, 'locals')
            sc.globals = SymSet(fl.glob, 'globals')
            sc.nonlocals = SymSet(fl.nonloc, 'nonlocals')
            assume(z3.Not(z3.And(fl.glob, fl.local)))       # RI_locals: add_name never puts a global-declared name into locals
            assume(z3.Not(z3.And(fl.nonloc, fl.local)))
            assume(z3.Not(z3.And(fl.glob, fl.nonloc)))      # a SyntaxError in Python

            class Self(object):
                parents = []
                scope = sc
            del merged[:]
            return f(Self())

        def on_path(p, out, kind=kind):
            if out[0] != 'ok':
                prove('no-exception(%s)' % type(out[1]).__name__, False, clause='the entry table is computed without raising [%s]' % (out[1],), path=p)
                return
            r = out[1]
            if kind == 'no-parent':
                prove('empty', type(r) is dict and not r, path=p)
                return
            if kind == 'class' and isinstance(r, tuple) and r[0] == 'merged':
                # a view of the enclosing table: right exactly when the class declares nothing global at KEY
                prove('class-body-sees-the-enclosing-names', z3.And(z3.BoolVal(r == ('merged', (outer,))), z3.Not(fl.glob)),
                      clause='a class body sees all outer names - unless it declares the name global', path=p)
                return
            # function: read the result at KEY
            has, val = z3.BoolVal(False), None
            if isinstance(r, Built):
                has, val = r.has, r.val
                for k, v in r.overrides:
                    if k == KEY:
                        has, val = z3.BoolVal(True), v
                    elif k == 'update' and isinstance(v, Built):
                        # d.update(d2): d2 wins where it holds the key
                        val = ('ite', v.has, v.val, val)
                        has = z3.Or(v.has, has)
                    else:
                        prove('no-unmodelled-override', False, path=p)
            elif isinstance(r, tuple) and r[0] == 'merged':
                prove('function-entry-is-a-plain-table', False, path=p)
                return
            else:
                prove('function-entry-is-a-table', False, path=p)
                return
            if kind == 'module':
                # module level: a `global` declaration changes nothing; module names shadow the builtins
                prove('module-entry-is-builtins-and-global-declared-names-minus-module-names',
                      has == z3.And(z3.Not(fl.local), z3.Or(fl.outer_has, fl.gtab_has)),
                      clause='module level sees the builtins and what functions bind through `global`, shadowed by the module\'s own names', path=p)
                def src_is2(v, label):
                    if isinstance(v, tuple) and v[0] == 'ite':
                        return z3.If(v[1], src_is2(v[2], label), src_is2(v[3], label))
                    return z3.BoolVal(v == ('value-of', label))
                prove('global-declared-binding-shadows-the-builtin', z3.Implies(z3.And(has, fl.gtab_has), src_is2(val, 'names bound through global declarations')), path=p)
                return
            want_module = fl.glob
            if kind == 'class':
                # a class body: global-declared -> module; everything else from the enclosing scope (its own bindings are layered on top
                # by `names`, they do not hide the outer ones from the entry table)
                want_has = z3.If(fl.glob, fl.top_has, fl.outer_has)
            else:
                want_has = z3.If(fl.glob, fl.top_has, z3.If(fl.local, z3.BoolVal(False), fl.outer_has))
            if twin:
                want_has = z3.If(fl.glob, fl.top_has, fl.outer_has) if kind != 'class' else fl.outer_has
            prove('k-visible-iff-the-scope-rule-says-so', has == want_has,
                  clause='global-declared -> module; local -> not inherited (never an outer or builtin binding); else enclosing scope', path=p)
            def src_is(v, label):
                if isinstance(v, tuple) and v[0] == 'ite':
                    return z3.If(v[1], src_is(v[2], label), src_is(v[3], label))
                return z3.BoolVal(v == ('value-of', label))
            prove('k-comes-from-the-scope-the-compiler-assigns',
                  z3.Implies(has, z3.If(fl.glob, src_is(val, 'module names'), src_is(val, 'enclosing scope names'))),
                  clause='a global only to module-level bindings, a free variable to the enclosing scope', path=p)
        core.explore(body, on_path)
    run.case = None


@harness(['C05', 'C01', 'C10', 'C02', 'C03', 'C13'], 'supp.scope.Flow.add_name', twins=('spec-global-also-local',))
def add_name_routing(run, twin=None):
    """a binding of an identifier declared global goes to the module's global table and is not a local of the scope; one declared
    nonlocal is recorded in the region but is not a local either (reads before it resolve outward); anything else becomes a local
    and is inserted in the region's sorted binding list; the binding's scope is set"""
    Sm = S()
    run.concretise = scope_witness
    fl = Flags()
    inserted = []
    f = loader.load('supp.scope', 'Flow.add_name')
    from supp.util import Location

    def body():
        assume(z3.Not(z3.And(fl.glob, fl.nonloc)))
        globs = []

        class Top(object):
            def add_global(self, name):
                globs.append(name)

        class Sc(object):
            top = Top()
            locals = SymSet(z3.BoolVal(False), 'locals')
            globals = SymSet(fl.glob, 'globals')
            nonlocals = SymSet(fl.nonloc, 'nonlocals')

        class Name(Location):
            name = KEY

        class Self(object):
            scope = Sc()
            # the region's bindings, ordered by the position from which each is visible
            _names = [Name((1, 0)), Name((3, 4)), Name((3, 9)), Name((5, 0))]
        del inserted[:]
        # bindings do not arrive in the order of their positions (the target of `x = (y := 1) + y` is registered before the walrus)
        nm = Name([(0, 5), (3, 6), (3, 9), (4, 0), (9, 9)][core.choice(5)])
        region = Self._names
        f(Self(), nm)
        if len(region) == 5 and sum(1 for x in region if x is nm) == 1 and all(not (b < a) for a, b in zip(region, region[1:])):
            inserted.append((region, nm))
        elif len(region) != 4:
            inserted.append((region, 'the region list is out of order or holds the binding twice'))
        return Self, nm, globs, Sc

    def on_path(p, out):
        if out[0] != 'ok':
            prove('no-exception(%s)' % type(out[1]).__name__, False, path=p)
            return
        Self, nm, globs, Sc = out[1]
        prove('binding-scope-set', getattr(nm, 'scope', None) is Self.scope, path=p)
        to_global = globs == [nm]
        to_region = len(inserted) == 1 and inserted[0][1] is nm and inserted[0][0] is Self._names
        is_local = KEY in Sc.locals.added
        gl = fl.glob if not twin else z3.BoolVal(False)
        prove('global-declared-goes-to-the-module-table', z3.BoolVal(to_global) == gl, path=p)
        prove('recorded-in-the-region-unless-global', z3.BoolVal(to_region) == z3.Not(fl.glob),
              clause='unless declared global the binding is in the region list exactly once, and the list is still ordered by position whatever '
                     'the order of arrival [%r]' % ([getattr(x, 'location', x) for x in Self._names],), path=p)
        prove('local-iff-neither-global-nor-nonlocal', z3.BoolVal(is_local) == z3.And(z3.Not(fl.glob), z3.Not(fl.nonloc)),
              clause='RI_locals: scope.locals == identifiers bound in the scope and declared neither global nor nonlocal', path=p)
    core.explore(body, on_path)


@harness(['C05', 'C01'], 'supp.scope.Flow.mark_local')
def mark_local_routing(run):
    """a statement that makes an identifier a variable of the scope without binding an object (x += 1, del x, x: T): the identifier becomes a
    local iff it is declared neither global nor nonlocal there (RI_locals, the same rule as add_name) - a name declared nonlocal keeps resolving
    to the enclosing function, one declared global to the module; nothing else changes"""
    run.concretise = scope_witness
    fl = Flags()
    f = loader.load('supp.scope', 'Flow.mark_local')

    def body():
        assume(z3.Not(z3.And(fl.glob, fl.nonloc)))

        class Sc(object):
            locals = SymSet(z3.BoolVal(False), 'locals')
            globals = SymSet(fl.glob, 'globals')
            nonlocals = SymSet(fl.nonloc, 'nonlocals')

        class Self(object):
            scope = Sc()
            _names = ['the region list']
        f(Self(), KEY)
        return Self, Sc

    def on_path(p, out):
        if out[0] != 'ok':
            prove('no-exception(%s)' % type(out[1]).__name__, False, path=p)
            return
        Self, Sc = out[1]
        prove('local-iff-neither-global-nor-nonlocal', z3.BoolVal(KEY in Sc.locals.added) == z3.And(z3.Not(fl.glob), z3.Not(fl.nonloc)),
              clause='RI_locals: scope.locals == identifiers bound in the scope and declared neither global nor nonlocal', path=p)
        prove('nothing-else-touched', Self._names == ['the region list'] and not Sc.globals.added and not Sc.nonlocals.added, path=p)
    core.explore(body, on_path)


@harness(['C05'], 'supp.scope.{FuncScope,ClassScope,SourceScope}.names')
def scope_names(run):
    """FuncScope.names == the table at the end of the function's current region; ClassScope.names == the enclosing scope's names
    (methods skip the class body); SourceScope.names == module names first, then the names functions declared global"""
    Sm = S()
    merged = []
    fn = loader.load('supp.scope', 'FuncScope.names')
    cn = loader.load('supp.scope', 'ClassScope.names')
    sn = loader.load('supp.scope', 'SourceScope.names', stubs={'MergedDict': lambda *ds: ('merged', ds)})
    tbl, ptbl, gtbl = object(), object(), object()

    class Fl(object):
        names = tbl

    class Par(object):
        names = ptbl
        flow = type('F', (), {'names': object()})()      # the parent's own region table: NOT what a class scope exposes

    class Self(object):
        flow = Fl()
        parent = Par()
        _global_names = gtbl

    def go(path):
        prove('function-names-are-its-current-region-table', fn(Self()) is tbl, path=path)
        prove('class-names-are-the-enclosing-scope-names', cn(Self()) is ptbl, clause='class-body bindings are never visible as bare names inside methods', path=path)
        prove('module-names-then-global-declared-names', sn(Self()) == ('merged', (tbl, gtbl)), path=path)
    core.explore(lambda: None, lambda p, out: go(p))


@harness(['C05', 'C01'], 'supp.nast.extract_visitor.visit_Global / visit_Nonlocal')
def global_nonlocal_decl(run):
    """`global a, b` records a and b as global-declared in the current scope; `nonlocal a, b` as nonlocal-declared; neither binds"""
    import supp.nast as N
    run.concretise = scope_witness

    def go(path):
        for kind, attr in (('Global', 'globals'), ('Nonlocal', 'nonlocals')):
            v = N.extract_visitor()

            class Sc(object):
                globals = set()
                nonlocals = set()

            class Fl(object):
                scope = Sc()
                _names = []
            v.flow = Fl()
            v.top = object()
            node = getattr(ast, kind)(names=['a', 'b'])
            ok = True
            try:
                v.visit(node)
            except Exception as e:
                ok = False
            prove('%s-declaration-recorded' % kind.lower(), ok and getattr(Sc, attr) == {'a', 'b'} and not Fl._names,
                  clause='%s declaration recorded on the scope, no binding created' % kind.lower(), path=path)
    core.explore(lambda: None, lambda p, out: go(p))


@harness(['C05', 'C01', 'C10'], 'supp.nast.extract_visitor.visit_Global[module level]')
def global_at_module_level(run):
    """`global x` at module level changes nothing: x stays an ordinary module binding (visible to the reads that follow it)"""
    import supp.nast as N
    run.concretise = scope_witness

    def go(path):
        v = N.extract_visitor()

        class Sc(object):
            globals = set()
            nonlocals = set()
        sc = Sc()

        class Fl(object):
            scope = sc
            _names = []
        v.flow = Fl()
        v.top = sc
        v.visit(ast.Global(names=['a']))
        prove('module-level-global-records-nothing', sc.globals == set(), clause='a module-level global declaration does not reroute bindings', path=path)
    core.explore(lambda: None, lambda p, out: go(p))
