"""Lemmas over the MessagePack spec functions (spec/msgpack.py), discharged by z3: they turn the
per-function contracts of contracts/umsgpack.py into the round-trip / conformance / prefix
sentences of C14.  No code of supp is executed here; these are obligations on the specification."""
import z3

from pysym import core
from pysym import proxies as P
from pysym.core import prove
from pysym.harness import harness
from pysym.proxies import beq, blob
from spec import msgpack as M

Int = z3.IntSort()


def one_path(fn):
    core.explore(lambda: None, lambda p, out: fn(p))


def sym_value(fam):
    if fam == 'int':
        return M.V('int', t=z3.Int('v'))
    if fam == 'nil':
        return M.V('nil')
    if fam == 'float':
        return M.V('float', x=z3.Const('x', M.D))
    if fam == 'str':
        s = z3.Const('s', M.S)
        return M.V('str', s=s, id=M.utf8(s), n=M.utf8_len(s))
    if fam == 'bin':
        return M.V('bin', id=z3.Const('b', P.BlobSort), n=z3.Int('b.len'))
    if fam == 'ext':
        return M.V('ext', ty=z3.Int('ty'), id=z3.Const('d', P.BlobSort), n=z3.Int('d.len'))


def value_facts(v):
    """what the data model says about a value (the encoders' contracts of their inputs)"""
    if v.kind == 'str':
        return z3.And(v.n >= 0, M.valid_utf8(v.id, v.n), M.unutf8(v.id, v.n) == v.s)
    if v.kind in ('bin',):
        return v.n >= 0
    if v.kind == 'ext':
        return z3.And(v.n >= 0, v.ty >= -128, v.ty <= 127)
    if v.kind == 'float':
        return M.f64_of(M.f64_bits(v.x)) == v.x
    return z3.BoolVal(True)


def same_value(v, pv, data):
    k = v.kind
    if k != pv.kind:
        return z3.BoolVal(False)
    if k == 'nil':
        return z3.BoolVal(True)
    if k == 'bool':
        return z3.BoolVal(v.b == pv.b)
    if k == 'int':
        return v.t == pv.t
    if k == 'float':
        return M.f64_of(pv.bits) == v.x if pv.n == 8 else z3.BoolVal(False)
    if k == 'str':
        return z3.And(pv.n == v.n, M.unutf8(P.slice_of(data.id, pv.start, pv.n), pv.n) == v.s)
    if k == 'bin':
        return z3.And(pv.n == v.n, P.slice_of(data.id, pv.start, pv.n) == v.id)
    if k == 'ext':
        return z3.And(pv.n == v.n, pv.ty == v.ty, P.slice_of(data.id, pv.start, pv.n) == v.id)


def scalar_formats():
    return [f for f in M.FORMATS if f[3] not in ('array', 'map', 'reserved') and f[0] != 'float 32']


def values_for(fmt):
    if fmt[3] == 'bool':
        return [M.V('bool', b=(fmt[0] == 'true'))]
    return [sym_value(fmt[3])]


@harness('C14', 'spec.msgpack:lemma-a(parse . fmt_bytes = id)', twins=('int16-read-unsigned',))
def lemma_roundtrip_formats(run, twin=None):
    """for EVERY scalar format F (non-minimal forms included) and every value v representable in F:
    a conforming decoder reading F's bytes for v (followed by anything) yields v and consumes exactly them"""
    data = M.Data()
    p = z3.Int('p')      # position of the first byte

    def go(path):
        for fmt in scalar_formats():
            for v in values_for(fmt):
                # multi-byte integer fields: name Int2BV(t, k) as a BV constant X and use the bridge fact
                # "t in the k-bit range => BV2Int(X) == t", itself discharged as the obligation bridge-<k>
                P.BV_ALIAS.clear()
                bridge = []
                name = fmt[0]
                if fmt[3] in ('int', 'str', 'bin', 'ext') and name.split()[-1] in ('16', '32', '64') \
                        and not name.startswith('fixext'):
                    k = int(name.split()[-1])
                    t = v.t if fmt[3] == 'int' else v.n
                    signed = name.startswith('int')
                    X = z3.BitVec('X%d' % k, k)
                    rngk = z3.And(t >= -2 ** (k - 1), t < 2 ** (k - 1)) if signed else z3.And(t >= 0, t < 2 ** k)
                    prove('bridge-%s' % name.replace(' ', ''),
                          z3.Implies(rngk, z3.BV2Int(z3.Int2BV(t, k), is_signed=signed) == t), kind='lemma',
                          clause='two\'s complement: Int2BV then BV2Int is the identity on the k-bit range', path=path)
                    P.BV_ALIAS[(t.get_id(), k)] = X
                    bridge.append(z3.Implies(rngk, z3.BV2Int(X, is_signed=signed) == t))
                    field = (X, k)
                else:
                    field = None
                rep, chunks = M.fmt_bytes(fmt, v)
                P.BV_ALIAS.clear()
                pl, end = M.placed(data, p, chunks)
                c = z3.BV2Int(data.byte(p))
                hyp = z3.And(p >= 0, rep, value_facts(v), pl, data.total >= end, *bridge)
                if field:
                    # cut: the bytes placed after the first byte, read back as one vector, are X (pure BV step)
                    W = z3.Concat(*[data.byte(z3.simplify(p + 1 + i)) for i in range(field[1] // 8)])
                    prove('%s-field-bytes-are-X' % fmt[0].replace(' ', ''), z3.Implies(pl, W == field[0]), kind='lemma',
                          clause='the k/8 bytes written big-endian, concatenated, are the k-bit vector', path=path)
                    hyp = z3.And(hyp, W == field[0])
                pf = fmt
                if twin and fmt[0] == 'int 16':
                    pf = ('uint 16', fmt[1], fmt[2], 'int')
                cases = M.parse_scalar(pf, c, data, p + 1)
                lab = fmt[0].replace(' ', '')
                for i, (cond, outcome) in enumerate(cases):
                    if outcome[0] == M.OK:
                        claim = z3.And(same_value(v, outcome[1], data), outcome[2] == end)
                    else:
                        claim = z3.BoolVal(False)
                    prove('%s-case%d' % (lab, i), z3.Implies(z3.And(hyp, cond), claim), kind='lemma',
                          clause='parse(fmt_bytes_F(v) ++ t) == Ok(v, |fmt_bytes_F(v)|)', path=path)
                prove('%s-first-byte-in-row' % lab, z3.Implies(hyp, z3.And(c >= fmt[1], c <= fmt[2])), kind='lemma',
                      clause='the first byte written lies in the row of the format', path=path)
    one_path(go)


@harness('C14', 'spec.msgpack:lemma-a\'(enc = fmt_bytes of a format that holds v)')
def lemma_enc_is_a_format(run):
    """every case of the smallest-format encoder is the byte image of one of the 37 formats in which v is representable"""
    def go(path):
        todo = [('int', M.enc_int(z3.Int('v'))), ('nil', M.enc_nil()), ('float', M.enc_f64(z3.Const('x', M.D)))]
        s = z3.Const('s', M.S)
        todo.append(('str', M.enc_str(s)))
        todo.append(('bin', M.enc_bin(z3.Const('b', P.BlobSort), z3.Int('b.len'))))
        todo.append(('ext', M.enc_ext(z3.Int('ty'), z3.Const('d', P.BlobSort), z3.Int('d.len'))))
        for fam, cases in todo:
            v = sym_value(fam)
            for i, (cond, chunks) in enumerate(cases):
                cond = z3.BoolVal(cond) if isinstance(cond, bool) else cond
                hit = None
                for fmt in [f for f in scalar_formats() if f[3] == fam]:
                    rep, fb = M.fmt_bytes(fmt, v)
                    eq = beq(chunks, fb)
                    if eq is None:
                        continue
                    sol = z3.Solver()
                    sol.add(z3.And(cond, value_facts(v)), z3.Not(z3.And(rep, eq)))
                    if sol.check() == z3.unsat:
                        hit = (fmt, rep, eq)
                        break
                prove('%s-enc-case%d-is-%s' % (fam, i, hit[0][0].replace(' ', '') if hit else 'NO-FORMAT'),
                      z3.Implies(z3.And(cond, value_facts(v)), z3.And(hit[1], hit[2])) if hit else False, kind='lemma',
                      clause='enc(v) is fmt_bytes_F(v) for a format F that holds v', path=path)
        for b in (True, False):
            eq = beq(M.enc_bool(b)[0][1], M.fmt_bytes(M.format_of(0xc3 if b else 0xc2), M.V('bool', b=b))[1])
            prove('bool-%s-enc-is-format' % b, eq, kind='lemma', path=path)
    one_path(go)


@harness('C14', 'spec.msgpack:lemma-c(proper prefixes are insufficient)', twins=('prefix-may-equal-whole',))
def lemma_prefix(run, twin=None):
    """for every scalar format: if the bytes from p parse to Ok(v, end), then the same bytes cut anywhere
    before `end` (but after the first byte) parse to Insufficient — never to another value or error.
    (the empty prefix is covered by the contract of _unpack: no first byte -> insufficient)"""
    data = M.Data()
    p = z3.Int('p')
    cut = z3.Int('cut')      # length of the truncated input

    class Cut(object):
        id = data.id
        total = cut
        byte = data.byte
        slice = data.slice

    def go(path):
        for fmt in [f for f in M.FORMATS if f[3] not in ('array', 'map')]:
            c = z3.BV2Int(data.byte(p))
            full = M.parse_scalar(fmt, c, data, p + 1)
            part = M.parse_scalar(fmt, c, Cut, p + 1)
            lab = fmt[0].replace(' ', '')
            for i, (cond, outcome) in enumerate(full):
                if outcome[0] != M.OK:
                    continue
                end = outcome[2]
                hyp = z3.And(p >= 0, c >= fmt[1], c <= fmt[2], cond, cut >= p + 1, (cut < end) if not twin else (cut <= end),
                             cut <= data.total)
                for k, (cond2, outcome2) in enumerate(part):
                    prove('%s-ok%d-cut-case%d' % (lab, i, k),
                          z3.Implies(z3.And(hyp, cond2), z3.BoolVal(outcome2[0] == M.INSUFFICIENT)), kind='lemma',
                          clause='a proper prefix of a valid encoding is rejected as insufficient data', path=path)
    one_path(go)
