"""Reaching definitions for structured programs, pointwise in ONE symbolic identifier n
(DESIGN 2.2).  Written from the Python language reference (7 simple statements, 8 compound
statements, 6.2.9/6.12 comprehension and walrus scoping), NOT from supp/nast.py.

A table at identifier n is a z3 set of Def (BOT = "unbound").  Transfer functions are of
gen/kill form  T(X) = G | (X if P else {}).  `Tr` composes them symbolically.
"""
import z3

Def = z3.DeclareSort('Def')
SetD = z3.SetSort(Def)
BOT = z3.Const('unbound', Def)
EMPTY = z3.EmptySet(Def)
Ident = z3.DeclareSort('Ident')


def single(d):
    return z3.SetAdd(EMPTY, d)


class Tr(object):
    """gen/kill transfer at the symbolic identifier"""

    def __init__(self, G, P):
        self.G = G
        self.P = P if z3.is_expr(P) else z3.BoolVal(P)

    def __call__(self, X):
        return z3.SetUnion(self.G, z3.If(self.P, X, EMPTY))

    def then(self, t2):
        """t2 after self"""
        return Tr(z3.SetUnion(t2.G, z3.If(t2.P, self.G, EMPTY)), z3.And(self.P, t2.P))

    def join(self, t2):
        return Tr(z3.SetUnion(self.G, t2.G), z3.Or(self.P, t2.P))


ID = Tr(EMPTY, True)


def seq(*ts):
    r = ID
    for t in ts:
        r = r.then(t)
    return r


def joins(ts):
    r = ts[0]
    for t in ts[1:]:
        r = r.join(t)
    return r


def bind(d, is_n):
    """a binding of an identifier (is_n: that identifier is the symbolic one) with definition d"""
    return Tr(z3.If(is_n, single(d), EMPTY), z3.Not(is_n))


def loop_head(entry, body):
    """lfp X. entry(V) | body(X)  for gen/kill `body`: one pass suffices (lemma lfp_one_pass)"""
    return entry.join(entry.then(body))


_n = [0]


class Child(object):
    """an opaque sub-statement-list or sub-expression: its transfer is an arbitrary gen/kill function that
    generates no `unbound`"""

    def __init__(self, kind, label):
        _n[0] += 1
        self.kind, self.label = kind, label
        self.effects = kind == 'stmts'
        self.G = z3.Const('G_%s_%d' % (label, _n[0]), SetD)
        self.P = z3.Bool('P_%s_%d' % (label, _n[0]))
        self.tr = Tr(self.G, self.P) if kind == 'stmts' else ID
        self.visits = []          # (region, position or None) each time the real visitor visits it

    def facts(self):
        return [z3.Not(z3.IsMember(BOT, self.G))] if self.kind == 'stmts' else []
