"""Concrete reference encoder/decoder written from the MessagePack specification
(independent of supp/umsgpack.py).  Used by replay scripts (native re-execution of a
solver counterexample against the real code) and by the thorough tier to sample the
z3 spec against a concrete reading of the same document."""
import struct


class RefInsufficient(Exception): pass
class RefReserved(Exception): pass
class RefInvalidUtf8(Exception): pass
class RefUnsupported(Exception): pass


class RefExt(object):
    def __init__(self, type, data):
        self.type, self.data = type, data

    def __eq__(self, o):
        return getattr(o, 'type', None) == self.type and getattr(o, 'data', None) == self.data

    def __repr__(self):
        return 'RefExt(%r, %r)' % (self.type, self.data)


def ref_unpack(b, p=0):
    """returns (value, end).  maps are returned as lists of (key, value) pairs"""
    def need(n):
        nonlocal p
        if len(b) - p < n:
            raise RefInsufficient()
        r = b[p:p + n]
        p += n
        return r
    c = need(1)[0]
    def uint(n): return int.from_bytes(need(n), 'big')
    def sint(n): return int.from_bytes(need(n), 'big', signed=True)
    def items(n):
        nonlocal p
        out = []
        for _ in range(n):
            v, p = ref_unpack(b, p)
            out.append(v)
        return out
    def string(n):
        raw = need(n)
        try:
            return raw.decode('utf-8')
        except UnicodeDecodeError:
            raise RefInvalidUtf8()
    def ext(n):
        t = sint(1)
        return RefExt(t, need(n))
    if c <= 0x7f: return c, p
    if c <= 0x8f:
        it = items(2 * (c & 0x0f)); return ('map', list(zip(it[::2], it[1::2]))), p
    if c <= 0x9f: return items(c & 0x0f), p
    if c <= 0xbf: return string(c & 0x1f), p
    if c == 0xc0: return None, p
    if c == 0xc1: raise RefReserved()
    if c == 0xc2: return False, p
    if c == 0xc3: return True, p
    if c in (0xc4, 0xc5, 0xc6): return need(uint(1 << (c - 0xc4))), p
    if c in (0xc7, 0xc8, 0xc9): return ext(uint(1 << (c - 0xc7))), p
    if c == 0xca: return struct.unpack('>f', need(4))[0], p
    if c == 0xcb: return struct.unpack('>d', need(8))[0], p
    if c in (0xcc, 0xcd, 0xce, 0xcf): return uint(1 << (c - 0xcc)), p
    if c in (0xd0, 0xd1, 0xd2, 0xd3): return sint(1 << (c - 0xd0)), p
    if 0xd4 <= c <= 0xd8: return ext(1 << (c - 0xd4)), p
    if c in (0xd9, 0xda, 0xdb): return string(uint(1 << (c - 0xd9))), p
    if c in (0xdc, 0xdd): return items(uint(2 << (c - 0xdc))), p
    if c in (0xde, 0xdf):
        it = items(2 * uint(2 << (c - 0xde))); return ('map', list(zip(it[::2], it[1::2]))), p
    return c - 256, p


def ref_pack(v):
    """smallest format, as the spec recommends"""
    def hdr(n, fix, fixmax, c8, c16, c32):
        if fix is not None and n <= fixmax: return bytes([fix + n])
        if c8 is not None and n <= 0xff: return bytes([c8, n])
        if n <= 0xffff: return bytes([c16]) + n.to_bytes(2, 'big')
        if n <= 0xffffffff: return bytes([c32]) + n.to_bytes(4, 'big')
        raise RefUnsupported()
    if v is None: return b'\xc0'
    if v is True: return b'\xc3'
    if v is False: return b'\xc2'
    if isinstance(v, int):
        if 0 <= v <= 127: return bytes([v])
        if -32 <= v < 0: return bytes([v + 256])
        for code, n in ((0xcc, 1), (0xcd, 2), (0xce, 4), (0xcf, 8)):
            if 0 <= v < 1 << (8 * n): return bytes([code]) + v.to_bytes(n, 'big')
        for code, n in ((0xd0, 1), (0xd1, 2), (0xd2, 4), (0xd3, 8)):
            if -(1 << (8 * n - 1)) <= v < 0: return bytes([code]) + v.to_bytes(n, 'big', signed=True)
        raise RefUnsupported()
    if isinstance(v, float): return b'\xcb' + struct.pack('>d', v)
    if isinstance(v, str):
        u = v.encode('utf-8'); return hdr(len(u), 0xa0, 31, 0xd9, 0xda, 0xdb) + u
    if isinstance(v, bytes): return hdr(len(v), None, None, 0xc4, 0xc5, 0xc6) + v
    if isinstance(v, (list, tuple)): return hdr(len(v), 0x90, 15, None, 0xdc, 0xdd) + b''.join(ref_pack(e) for e in v)
    if isinstance(v, dict):
        return hdr(len(v), 0x80, 15, None, 0xde, 0xdf) + b''.join(ref_pack(k) + ref_pack(x) for k, x in v.items())
    if hasattr(v, 'type') and hasattr(v, 'data'):
        n = len(v.data); t = (v.type & 0xff).to_bytes(1, 'big')
        fixed = {1: 0xd4, 2: 0xd5, 4: 0xd6, 8: 0xd7, 16: 0xd8}
        if n in fixed: return bytes([fixed[n]]) + t + v.data
        if n <= 0xff: return bytes([0xc7, n]) + t + v.data
        if n <= 0xffff: return b'\xc8' + n.to_bytes(2, 'big') + t + v.data
        if n <= 0xffffffff: return b'\xc9' + n.to_bytes(4, 'big') + t + v.data
    raise RefUnsupported()


def same(a, b):
    """value equality as the property intends: tuples == lists, floats by bit pattern"""
    import math
    if isinstance(a, float) or isinstance(b, float):
        return isinstance(a, float) and isinstance(b, float) and struct.pack('>d', a) == struct.pack('>d', b)
    if isinstance(a, bool) or isinstance(b, bool) or a is None or b is None:
        return a is b
    if isinstance(a, (list, tuple)) and isinstance(b, (list, tuple)) and not (a and a[0] == 'map') :
        return len(a) == len(b) and all(same(x, y) for x, y in zip(a, b))
    if isinstance(a, dict) and isinstance(b, tuple) and b and b[0] == 'map':
        if len(a) != len(b[1]):
            return False
        if len(a) > 64:
            # large maps (boundary cases): scalar keys, compare through a dictionary
            try:
                bd = dict(b[1])
            except TypeError:
                return False
            return len(bd) == len(a) and all(k in bd and same(v, bd[k]) for k, v in a.items())
        return all(any(same(k, k2) and same(v, v2) for k2, v2 in b[1]) for k, v in a.items())
    if hasattr(a, 'type') and hasattr(a, 'data') and hasattr(b, 'type'):
        return a.type == b.type and a.data == b.data
    return type(a) == type(b) and a == b
