"""Specification of MessagePack, transcribed from the MessagePack specification
(https://github.com/msgpack/msgpack/blob/master/spec.md), NOT from supp/umsgpack.py.

FORMATS: the 37 first-byte rows of the spec's "Formats / Overview" table.
`enc_*`   : the serialisation the spec prescribes when the smallest format that
            holds the value is chosen (spec: "serializers SHOULD use the format which
            represents the data in the smallest number of bytes").
`parse`   : what a conforming deserialiser reads at position p of a byte string,
            for every format (non-minimal ones included).
All functions build z3 terms over Seq(BitVec 8) / Int.
"""
import z3

from pysym.proxies import BlobSort, blob_byte, slice_of, lit, blob, cat, be, be_val as _be_val, chunks_len

Int = z3.IntSort()

# name, first byte lo, hi, family
FORMATS = [
    ('positive fixint', 0x00, 0x7f, 'int'),
    ('fixmap',          0x80, 0x8f, 'map'),
    ('fixarray',        0x90, 0x9f, 'array'),
    ('fixstr',          0xa0, 0xbf, 'str'),
    ('nil',             0xc0, 0xc0, 'nil'),
    ('(never used)',    0xc1, 0xc1, 'reserved'),
    ('false',           0xc2, 0xc2, 'bool'),
    ('true',            0xc3, 0xc3, 'bool'),
    ('bin 8',           0xc4, 0xc4, 'bin'),
    ('bin 16',          0xc5, 0xc5, 'bin'),
    ('bin 32',          0xc6, 0xc6, 'bin'),
    ('ext 8',           0xc7, 0xc7, 'ext'),
    ('ext 16',          0xc8, 0xc8, 'ext'),
    ('ext 32',          0xc9, 0xc9, 'ext'),
    ('float 32',        0xca, 0xca, 'float'),
    ('float 64',        0xcb, 0xcb, 'float'),
    ('uint 8',          0xcc, 0xcc, 'int'),
    ('uint 16',         0xcd, 0xcd, 'int'),
    ('uint 32',         0xce, 0xce, 'int'),
    ('uint 64',         0xcf, 0xcf, 'int'),
    ('int 8',           0xd0, 0xd0, 'int'),
    ('int 16',          0xd1, 0xd1, 'int'),
    ('int 32',          0xd2, 0xd2, 'int'),
    ('int 64',          0xd3, 0xd3, 'int'),
    ('fixext 1',        0xd4, 0xd4, 'ext'),
    ('fixext 2',        0xd5, 0xd5, 'ext'),
    ('fixext 4',        0xd6, 0xd6, 'ext'),
    ('fixext 8',        0xd7, 0xd7, 'ext'),
    ('fixext 16',       0xd8, 0xd8, 'ext'),
    ('str 8',           0xd9, 0xd9, 'str'),
    ('str 16',          0xda, 0xda, 'str'),
    ('str 32',          0xdb, 0xdb, 'str'),
    ('array 16',        0xdc, 0xdc, 'array'),
    ('array 32',        0xdd, 0xdd, 'array'),
    ('map 16',          0xde, 0xde, 'map'),
    ('map 32',          0xdf, 0xdf, 'map'),
    ('negative fixint', 0xe0, 0xff, 'int'),
]
assert sum(hi - lo + 1 for _, lo, hi, _ in FORMATS) == 256


def format_of(code):
    for row in FORMATS:
        if row[1] <= code <= row[2]:
            return row
    raise ValueError(code)


# -- abstract payload interpretations (dependencies, see DESIGN 2.3) ---------
D = z3.DeclareSort('Float')          # a Python float, never computed with
S = z3.DeclareSort('Str')            # a Python str
utf8 = z3.Function('utf8', S, BlobSort)          # str.encode('utf-8') (content)
utf8_len = z3.Function('utf8_len', S, Int)       # its length
unutf8 = z3.Function('unutf8', BlobSort, Int, S)     # bytes.decode('utf-8') of a blob of the given length
valid_utf8 = z3.Function('valid_utf8', BlobSort, Int, z3.BoolSort())
f64_bytes = z3.Function('f64_bytes', D, BlobSort)    # struct.pack('>d', x): 8 bytes
f64_of = z3.Function('f64_of', z3.BitVecSort(64), D)     # struct.unpack('>d', b)[0]
f32_of = z3.Function('f32_of', z3.BitVecSort(32), D)     # struct.unpack('>f', b)[0] (widened)
f64_bits = z3.Function('f64_bits', D, z3.BitVecSort(64))


def bconst(bs):
    return tuple(lit(c) for c in bs)


def f64_chunks(x):
    bv = f64_bits(x)
    return tuple(lit(z3.Extract(8 * (7 - i) + 7, 8 * (7 - i), bv)) for i in range(8))


class Data(object):
    """the input byte string of a decoder: opaque content + length"""

    def __init__(self, name='data'):
        self.id = z3.Const(name, BlobSort)
        self.total = z3.Int(name + '.len')

    def byte(self, i):
        return blob_byte(self.id, i if z3.is_expr(i) else z3.IntVal(i))

    def slice(self, p, n):
        p = z3.IntVal(p) if type(p) is int else p
        n = z3.IntVal(n) if type(n) is int else n
        return blob(slice_of(self.id, p, n), n)


def be_val(data, off, n, signed=False):
    return _be_val([data.byte(z3.simplify(off + i)) for i in range(n)], signed)


# -- values -----------------------------------------------------------------
class V(object):
    def __init__(self, kind, **kw):
        self.kind = kind
        self.__dict__.update(kw)

    def __repr__(self):
        return 'V(%s)' % ', '.join('%s=%s' % kv for kv in self.__dict__.items())


# -- encoder spec (smallest format): lists of (condition, bytes) cases --------
INT_MIN, INT_MAX = -2 ** 63, 2 ** 64 - 1
LEN_MAX = 2 ** 32 - 1


def enc_int(x):
    c = lambda b: bconst(bytes([b]))
    A = z3.And
    return [(A(x >= 0, x <= 127), be(x, 1)),
            (A(x < 0, x >= -32), be(x, 1)),
            (A(x > 127, x <= 0xff), cat(c(0xcc), be(x, 1))),
            (A(x > 0xff, x <= 0xffff), cat(c(0xcd), be(x, 2))),
            (A(x > 0xffff, x <= 0xffffffff), cat(c(0xce), be(x, 4))),
            (A(x > 0xffffffff, x <= INT_MAX), cat(c(0xcf), be(x, 8))),
            (A(x < -32, x >= -2 ** 7), cat(c(0xd0), be(x, 1))),
            (A(x < -2 ** 7, x >= -2 ** 15), cat(c(0xd1), be(x, 2))),
            (A(x < -2 ** 15, x >= -2 ** 31), cat(c(0xd2), be(x, 4))),
            (A(x < -2 ** 31, x >= INT_MIN), cat(c(0xd3), be(x, 8)))]


def int_in_range(x):
    return z3.And(x >= INT_MIN, x <= INT_MAX)


def enc_nil():
    return [(True, bconst(b'\xc0'))]


def enc_bool(b):
    return [(True, bconst(b'\xc3' if b else b'\xc2'))]


def enc_f64(x):
    return [(True, cat(bconst(b'\xcb'), f64_chunks(x)))]


def len_hdr(n, fix_base, fix_max, c8, c16, c32):
    """length header cases: fix form (if any), 8-bit form (if any), 16, 32"""
    cases = []
    lo = 0
    if fix_base is not None:
        cases.append((z3.And(n >= 0, n <= fix_max), be(fix_base + n, 1)))
        lo = fix_max + 1
    if c8 is not None:
        cases.append((z3.And(n >= lo, n <= 0xff), cat(bconst(bytes([c8])), be(n, 1))))
        lo = 0x100
    cases.append((z3.And(n >= lo, n <= 0xffff), cat(bconst(bytes([c16])), be(n, 2))))
    cases.append((z3.And(n > 0xffff, n <= LEN_MAX), cat(bconst(bytes([c32])), be(n, 4))))
    return cases


def _with_payload(hdr_cases, *payload):
    return [(c, cat(h, *payload)) for c, h in hdr_cases]


def enc_str(s):
    """s: Str term; payload = its UTF-8 image"""
    n = utf8_len(s)
    return _with_payload(len_hdr(n, 0xa0, 31, 0xd9, 0xda, 0xdb), (blob(utf8(s), n),))


def enc_bin(b, n):
    """b: Blob identity, n: its length"""
    return _with_payload(len_hdr(n, None, None, 0xc4, 0xc5, 0xc6), (blob(b, n),))


def enc_ext(ty, d, n):
    t1 = be(ty, 1)
    pay = (blob(d, n),)
    cases = []
    fixed = {1: 0xd4, 2: 0xd5, 4: 0xd6, 8: 0xd7, 16: 0xd8}
    for k, code in fixed.items():
        cases.append((n == k, cat(bconst(bytes([code])), t1, pay)))
    notfixed = z3.And(*[n != k for k in fixed])
    cases.append((z3.And(notfixed, n >= 0, n <= 0xff), cat(bconst(b'\xc7'), be(n, 1), t1, pay)))
    cases.append((z3.And(n > 0xff, n <= 0xffff), cat(bconst(b'\xc8'), be(n, 2), t1, pay)))
    cases.append((z3.And(n > 0xffff, n <= LEN_MAX), cat(bconst(b'\xc9'), be(n, 4), t1, pay)))
    return cases


def hdr_array(n):
    return len_hdr(n, 0x90, 15, None, 0xdc, 0xdd)


def hdr_map(n):
    return len_hdr(n, 0x80, 15, None, 0xde, 0xdf)


# -- decoder spec -------------------------------------------------------------
OK, INSUFFICIENT, RESERVED, INVALID_UTF8 = 'ok', 'insufficient', 'reserved', 'invalid-utf8'


def parse_scalar(fmt, c, data, p):
    """What a conforming decoder reads for a value whose first byte (value c, an
    Int term or int, within fmt's range) sits at data[p-1]; p = first position
    after it.  Returns [(cond, outcome)] with disjoint exhaustive conds;
    outcome = (OK, V, end) | (INSUFFICIENT|RESERVED|INVALID_UTF8,).
    Containers return their header only: (OK, V(kind, n=...), end-of-header)."""
    name, lo, hi, fam = fmt
    avail = data.total - p
    T = z3.BoolVal(True)

    def need(n, then):
        """n more bytes from p, else insufficient"""
        return [(avail < n, (INSUFFICIENT,))] + [(z3.And(avail >= n, cnd), out) for cnd, out in then]

    if name == 'positive fixint':
        return [(T, (OK, V('int', t=c), p))]
    if name == 'negative fixint':
        return [(T, (OK, V('int', t=c - 256), p))]
    if fam == 'nil':
        return [(T, (OK, V('nil'), p))]
    if fam == 'reserved':
        return [(T, (RESERVED,))]
    if fam == 'bool':
        return [(T, (OK, V('bool', b=(name == 'true')), p))]
    if fam == 'int':
        signed = name.startswith('int')
        n = int(name.split()[1]) // 8
        return need(n, [(T, (OK, V('int', t=be_val(data, p, n, signed)), p + n))])
    if fam == 'float':
        n = int(name.split()[1]) // 8
        bits = z3.Concat(*[data.byte(z3.simplify(p + i)) for i in range(n)])
        return need(n, [(T, (OK, V('float', bits=bits, n=n), p + n))])
    # length-prefixed families
    if name.startswith('fix') and fam in ('str', 'array', 'map'):
        L, h = c - lo, 0
    elif name.startswith('fixext'):
        L, h = int(name.split()[1]), 0
    else:
        h = int(name.split()[1]) // 8
        L = be_val(data, p, h, False)
    q = p + h
    if fam in ('array', 'map'):
        return need(h, [(T, (OK, V(fam, n=L), q))])
    if fam == 'bin':
        return need(h, [(avail < h + L, (INSUFFICIENT,)), (avail >= h + L, (OK, V('bin', start=q, n=L), q + L))])
    if fam == 'str':
        pay = slice_of(data.id, q, L)
        return need(h, [(avail < h + L, (INSUFFICIENT,)),
                        (z3.And(avail >= h + L, z3.Not(valid_utf8(pay, L))), (INVALID_UTF8,)),
                        (z3.And(avail >= h + L, valid_utf8(pay, L)), (OK, V('str', start=q, n=L), q + L))])
    if fam == 'ext':
        # header, then a signed 8-bit type, then L data bytes
        ty = be_val(data, q, 1, True)
        return need(h, [(avail < h + 1 + L, (INSUFFICIENT,)),
                        (avail >= h + 1 + L, (OK, V('ext', ty=ty, start=q + 1, n=L), q + 1 + L))])
    raise AssertionError(fmt)


def fmt_bytes(fmt, v):
    """the bytes format `fmt` uses for scalar value v (ANY representable value, not only the
    minimal form) and the condition that v is representable in it: (representable, chunks)"""
    name, lo, hi, fam = fmt
    code = bconst(bytes([lo]))
    if name == 'positive fixint':
        return z3.And(v.t >= 0, v.t <= 127), be(v.t, 1)
    if name == 'negative fixint':
        return z3.And(v.t >= -32, v.t <= -1), be(v.t, 1)
    if fam == 'int':
        signed = name.startswith('int')
        bits = int(name.split()[1])
        rng = z3.And(v.t >= -2 ** (bits - 1), v.t < 2 ** (bits - 1)) if signed else z3.And(v.t >= 0, v.t < 2 ** bits)
        return rng, cat(code, be(v.t, bits // 8))
    if fam == 'nil':
        return z3.BoolVal(True), code
    if fam == 'bool':
        return z3.BoolVal(v.b == (name == 'true')), code
    if name == 'float 64':
        return z3.BoolVal(True), cat(code, f64_chunks(v.x))
    if fam in ('str', 'bin', 'ext'):
        n = v.n
        pay = (blob(v.id, n),)
        ty = be(v.ty, 1) if fam == 'ext' else ()
        if name == 'fixstr':
            return z3.And(n >= 0, n <= 31), cat(be(0xa0 + n, 1), pay)
        if name.startswith('fixext'):
            return n == int(name.split()[1]), cat(code, ty, pay)
        h = int(name.split()[1]) // 8
        return z3.And(n >= 0, n < 2 ** (8 * h)), cat(code, be(n, h), ty, pay)
    raise AssertionError(fmt)


def placed(data, off, chunks):
    """the byte string `chunks` occupies data[off : off+len]"""
    cs = []
    o = off
    for c in chunks:
        if c[0] == 'b':
            cs.append(data.byte(z3.simplify(o)) == c[1])
            o = o + 1
        else:
            cs.append(slice_of(data.id, z3.simplify(o), c[2]) == c[1])
            o = o + c[2]
    return z3.And(*cs), z3.simplify(o)
