#!/usr/bin/env python3
"""regenerates MANIFEST.json from the table below (kept as code so the file never drifts from what is built)"""
import json, os
HERE = os.path.dirname(os.path.abspath(__file__))
BASE_CMD = "cd /repo && /venv/bin/python -m pytest -ra -q -p no:cacheprovider --timeout=900 --continue-on-collection-errors"

CHECKS = {}
NA = {}

def claim(pid, text, note, technique, design_ref):
    CHECKS[pid] = dict(text=text, note=note, technique=technique, design_ref=design_ref)

exec(open(os.path.join(HERE, 'manifest_table.py')).read())

props = [json.loads(l)['id'] for l in open(os.path.join(HERE, 'properties.jsonl'))]
m = {
    "version": 1,
    "setup_cmd": "sh ./setup.sh",
    "hooks": {"guard": "SUPP_VERIF", "enable": "none: contracts are sidecars under /verif/contracts; no hook is compiled into /repo",
              "baseline_off_cmd": BASE_CMD, "source_commits": [], "add_only": True},
    "engines": [{"name": "pysym", "path": "pysym/", "serves_properties": sorted(CHECKS),
                 "kind_free_text": "verification-condition generator: executes the real functions of /repo/supp over z3 proxy values, "
                                   "enumerates all paths, cuts loops by sidecar invariants, replaces callees by their contracts, "
                                   "discharges each obligation with z3 (cvc5 / z3-new CLI on unknown)"}],
    "checks": [],
    "not_applicable": [],
    "notes": "contract-based deductive verification; see DESIGN.md. exit codes: 0 held, 1 violation, 2 undecided, 3 checker broken",
}
for pid in props:
    if pid in CHECKS:
        c = CHECKS[pid]
        m["checks"].append({
            "property_id": pid,
            "quick_cmd": "./check %s --tier quick" % pid,
            "thorough_cmd": "./check %s --tier thorough" % pid,
            "evidence_file": "evidence/%s.json" % pid,
            "replay_cmd_template": "./check %s --replay {path}" % pid,
            "engine": "pysym",
            "level_claimed": {"category": "proof", "text": c['text'], "design_ref": c['design_ref']},
            "level_note": c['note'],
            "technique": c['technique'],
        })
    else:
        m["not_applicable"].append({"property_id": pid, "reason": NA.get(pid, "not built yet: no obligation of this property is discharged by the committed machinery (DESIGN.md section 6); not replaced by another technique")})
json.dump(m, open(os.path.join(HERE, 'MANIFEST.json'), 'w'), indent=1)
print('claimed', sorted(CHECKS), 'n/a', len(m['not_applicable']))
